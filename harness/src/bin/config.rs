//! C15 conformance: humphrey_server::config::tree::parse_conf + Config::from_tree against spec/config/Config.tla.
//!
//!   config replay <workdir> [layouts]   stdin: one JSON line per case {"ast":AST,"exp":Meaning(AST)} printed by TLC
//!                                       every case is written out under `layouts` (default 5) seeded layouts
//!                                       (0 = canonical; others: indentation, comments, blank lines, key order,
//!                                       include splitting, pattern separators, non-ASCII mapping) and loaded
//!                                       by the real code; the outcome is compared with `exp`.
//!   config random <workdir> <n>         random configurations at the property's full width (0..4 hosts, 0..8
//!                                       routes per host), some with one injected fault, each under one random
//!                                       layout; stdout: {"ast":..,"obs":..,"tok":..} per case for Trace_Config.tla
//!   config load <workdir> <file>        load one file as it is and print the outcome (reproduction by hand)
//!   config render <workdir> <layout>    stdin: one case; prints the files as written (debugging / replay files)
//!
//! The harness owns only the concrete syntax (how an abstract entry is written down) and the projection of a
//! `Config` onto the record shape of the spec; what a file *means* is decided by TLC.
use hv::util::*;
use humphrey_server::config::tree::parse_conf;
use humphrey_server::config::{BlacklistMode, Config, LoadBalancerMode, RouteConfig, RouteType};
use humphrey_server::logger::LogLevel;
use serde_json::{json, Map, Value};
use std::collections::{HashMap, HashSet};
use std::fs;
use std::panic::{catch_unwind, AssertUnwindSafe};

// ------------------------------------------------------------------------------------------------
// abstract syntax (the JSON shape of Config.tla's entries)
// ------------------------------------------------------------------------------------------------
#[derive(Clone, Debug)]
struct Entry {
    t: String,
    k: String,
    v: String,
    ps: Vec<String>,
    ob: String,
    cb: String,
    es: Vec<Entry>,
    f: usize,
}

#[derive(Clone, Debug)]
struct Ast {
    srv: Entry,
    files: Vec<Vec<Entry>>,
    bl_exists: bool,
    bl_ips: Vec<String>,
    fault: (String, usize, Vec<usize>),
}

fn s(v: &Value) -> String {
    v.as_str().unwrap_or("").to_string()
}

fn entry_of(v: &Value) -> Entry {
    Entry {
        t: s(&v["t"]),
        k: s(&v["k"]),
        v: s(&v["v"]),
        ps: v["ps"].as_array().map(|a| a.iter().map(s).collect()).unwrap_or_default(),
        ob: s(&v["ob"]),
        cb: s(&v["cb"]),
        es: v["es"].as_array().map(|a| a.iter().map(entry_of).collect()).unwrap_or_default(),
        f: v["f"].as_u64().unwrap_or(0) as usize,
    }
}

fn entry_json(e: &Entry) -> Value {
    json!({"t": e.t, "k": e.k, "v": e.v, "ps": e.ps, "ob": e.ob, "cb": e.cb,
           "es": e.es.iter().map(entry_json).collect::<Vec<_>>(), "f": e.f})
}

fn ast_of(v: &Value) -> Ast {
    Ast {
        srv: entry_of(&v["srv"]),
        files: v["files"].as_array().map(|a| a.iter().map(|f| f.as_array().map(|x| x.iter().map(entry_of).collect()).unwrap_or_default()).collect()).unwrap_or_default(),
        bl_exists: v["bl"]["exists"].as_bool().unwrap_or(true),
        bl_ips: v["bl"]["ips"].as_array().map(|a| a.iter().map(s).collect()).unwrap_or_default(),
        fault: (s(&v["fault"]["cls"]), v["fault"]["f"].as_u64().unwrap_or(0) as usize,
                v["fault"]["p"].as_array().map(|a| a.iter().map(|x| x.as_u64().unwrap_or(0) as usize).collect()).unwrap_or_default()),
    }
}

fn ast_json(a: &Ast) -> Value {
    json!({"srv": entry_json(&a.srv),
           "files": a.files.iter().map(|f| f.iter().map(entry_json).collect::<Vec<_>>()).collect::<Vec<_>>(),
           "bl": {"exists": a.bl_exists, "ips": a.bl_ips},
           "fault": {"cls": a.fault.0, "f": a.fault.1, "p": a.fault.2}})
}

fn key(k: &str, v: &str) -> Entry {
    Entry { t: "key".into(), k: k.into(), v: v.into(), ps: vec![], ob: "".into(), cb: "".into(), es: vec![], f: 0 }
}
fn sect(t: &str, k: &str, ps: Vec<String>, es: Vec<Entry>) -> Entry {
    Entry { t: t.into(), k: k.into(), v: "".into(), ps, ob: "{".into(), cb: "}".into(), es, f: 0 }
}
fn q(x: &str) -> String {
    format!("\"{}\"", x)
}

// ------------------------------------------------------------------------------------------------
// concrete syntax: items (entries labelled with the token they came from), layout transformations, emission
// ------------------------------------------------------------------------------------------------
type Lab = (usize, Vec<usize>); // (file of the AST, path inside it); (0, []) = `server`

#[derive(Clone, Debug)]
enum Head {
    Sec(String),
    Host(String),
    Route(Vec<String>),
}

#[derive(Clone, Debug)]
enum Item {
    /// next: a stray line that stays glued right behind this key line (the ValueOnNextLine fault)
    Key { lab: Lab, k: String, v: String, next: Option<(Lab, String)> },
    Sect { lab: Lab, head: Head, ob: String, cb: String, kids: Vec<Item> },
    /// kids = None: the file does not exist
    Inc { lab: Option<Lab>, v: String, kids: Option<Vec<Item>> },
}

fn items_of(es: &[Entry], f: usize, pre: &[usize], ast: &Ast, depth: usize) -> Vec<Item> {
    es.iter().enumerate().filter(|(i, e)| !(e.t == "raw" && *i > 0 && es[*i - 1].t == "key")).map(|(i, e)| {
        let mut p = pre.to_vec();
        p.push(i + 1);
        match e.t.as_str() {
            "key" | "raw" => {
                let next = es.get(i + 1).filter(|n| n.t == "raw" && e.t == "key").map(|n| {
                    let mut np = pre.to_vec();
                    np.push(i + 2);
                    ((f, np), n.k.clone())
                });
                Item::Key { lab: (f, p), k: e.k.clone(), v: e.v.clone(), next }
            }
            "inc" => {
                let kids = if e.f == 0 || e.f > ast.files.len() || depth > 8 { None }
                           else { Some(items_of(&ast.files[e.f - 1], e.f, &[], ast, depth + 1)) };
                Item::Inc { lab: Some((f, p)), v: e.v.clone(), kids }
            }
            t => {
                let head = match t {
                    "host" => Head::Host(e.ps.first().cloned().unwrap_or_default()),
                    "route" => Head::Route(e.ps.clone()),
                    _ => Head::Sec(e.k.clone()),
                };
                Item::Sect { lab: (f, p.clone()), head, ob: e.ob.clone(), cb: e.cb.clone(), kids: items_of(&e.es, f, &p, ast, depth) }
            }
        }
    }).collect()
}

struct Layout {
    id: usize,
    indent: usize,      // 0 none, 1 two spaces, 2 four spaces, 3 tab, 4 random per line (blanks and tabs)
    sep_max: usize,     // key/value separator: 1..=sep_max blanks
    cmt: usize,         // per mille: trailing comment on a line
    own: usize,         // per mille: comment line / blank line before a line
    permute: bool,
    splits: usize,
    psep: usize,        // 0 ",", 1 ", ", 2 random of "," ", " " , " ",  "
    na: &'static str,   // what the spec's NA character `~` is written as
    wsx: &'static str,  // what the spec's non-ASCII white-space character '`' is written as
    trailing_nl: usize, // 0 never, 1 always, 2 random per file
    pre: bool,
    odd_paths: bool,    // included files and the blacklist file have runs of blanks / a tab in their names
}

fn layout(id: usize, rng: &mut Rng) -> Layout {
    if id == 0 {
        return Layout { id, indent: 2, sep_max: 1, cmt: 0, own: 0, permute: false, splits: 0, psep: 1, na: "\u{e9}", wsx: "\u{a0}", trailing_nl: 1, pre: false, odd_paths: false };
    }
    Layout {
        id,
        indent: rng.below(5),
        sep_max: *rng.pick(&[1, 1, 3, 12]),
        cmt: *rng.pick(&[0, 150, 500, 1000]),
        own: *rng.pick(&[0, 100, 400]),
        permute: id % 2 == 0 || rng.chance(1, 3),
        splits: if id == 1 { 0 } else { rng.below(4) },
        psep: rng.below(3),
        // one representative per Unicode class (L3): letters, emoji, ASCII `~`, DEL, C1 control, private use, combining
        // mark, digits and numerics outside ASCII, Kelvin sign / fullwidth K (look like a unit), case-mapping oddities
        na: *rng.pick(&["\u{e9}", "\u{1F600}", "~", "\u{7f}", "\u{80}", "\u{e000}", "\u{301}", "\u{663}", "\u{ff11}", "\u{1d7d9}",
                        "\u{b2}", "\u{bd}", "\u{2167}", "\u{212a}", "\u{ff2b}", "\u{df}", "\u{130}", "\u{fb01}"]),
        wsx: *rng.pick(&["\u{a0}", "\u{85}", "\u{1680}", "\u{2028}", "\u{3000}"]),
        trailing_nl: rng.below(3),
        pre: rng.chance(1, 2),
        odd_paths: rng.chance(1, 2),
    }
}

fn is_ordered(it: &Item) -> bool {
    match it {
        Item::Key { .. } => false,
        Item::Inc { .. } => true,
        Item::Sect { head, .. } => !matches!(head, Head::Sec(_)),
    }
}

/// keys and plain sections may go anywhere; routes, hosts and includes keep their relative order
fn permute(items: Vec<Item>, rng: &mut Rng) -> Vec<Item> {
    let items: Vec<Item> = items.into_iter().map(|it| match it {
        Item::Sect { lab, head, ob, cb, kids } => Item::Sect { lab, head, ob, cb, kids: permute(kids, rng) },
        Item::Inc { lab, v, kids } => Item::Inc { lab, v, kids: kids.map(|k| permute(k, rng)) },
        x => x,
    }).collect();
    let (ordered, mut free): (Vec<Item>, Vec<Item>) = items.into_iter().partition(is_ordered);
    for i in (1..free.len()).rev() {
        let j = rng.below(i + 1);
        free.swap(i, j);
    }
    let mut out = ordered;
    for it in free {
        let pos = rng.below(out.len() + 1);
        out.insert(pos, it);
    }
    out
}

fn count_lists(items: &[Item]) -> usize {
    1 + items.iter().map(|it| match it {
        Item::Sect { kids, .. } => count_lists(kids),
        Item::Inc { kids: Some(k), .. } => count_lists(k),
        _ => 0,
    }).sum::<usize>()
}

/// move a random run of the `which`-th entry list (pre-order) into a new included file
fn split_at(items: &mut Vec<Item>, which: &mut usize, rng: &mut Rng) -> bool {
    if *which == 0 {
        let n = items.len();
        let i = rng.below(n + 1);
        let len = if n == i { 0 } else if rng.chance(1, 12) { 0 } else { rng.range(1, n - i) };
        let run: Vec<Item> = items.drain(i..i + len).collect();
        items.insert(i, Item::Inc { lab: None, v: q("@"), kids: Some(run) });
        return true;
    }
    *which -= 1;
    for it in items.iter_mut() {
        let done = match it {
            Item::Sect { kids, .. } => split_at(kids, which, rng),
            Item::Inc { kids: Some(k), .. } => split_at(k, which, rng),
            _ => false,
        };
        if done { return true; }
    }
    false
}

struct FileOut {
    path: String,
    lines: Vec<String>,
    nl: bool,
}

struct Rendered {
    files: Vec<FileOut>,                                    // files[0] = the main file
    loc: HashMap<(usize, Vec<usize>, &'static str), (usize, usize)>, // token part -> (file index, 1-based line)
    bl_path: String,
}

impl Rendered {
    fn text(&self, i: usize) -> String {
        let f = &self.files[i];
        let mut t = f.lines.join("\n");
        if f.nl && !f.lines.is_empty() { t.push('\n'); }
        t
    }
}

const COMMENTS: [&str; 6] = ["# c", "# note \"q\" { }", "#}", "# \u{e9}\u{fc} server {", "#", "# route /x {"];

struct Emitter<'a> {
    lay: &'a Layout,
    dir: String,
    tag: String,
    r: Rendered,
}

impl<'a> Emitter<'a> {
    fn na(&self, x: &str) -> String {
        x.replace('~', self.lay.na).replace('`', self.lay.wsx)
    }
    fn ind(&self, depth: usize, rng: &mut Rng) -> String {
        match self.lay.indent {
            0 => String::new(),
            1 => "  ".repeat(depth),
            2 => "    ".repeat(depth),
            3 => "\t".repeat(depth),
            _ => (0..rng.below(7)).map(|_| if rng.chance(1, 3) { '\t' } else { ' ' }).collect(),
        }
    }
    fn new_file(&mut self, rng: &mut Rng) -> usize {
        let i = self.r.files.len();
        let nl = match self.lay.trailing_nl { 0 => false, 1 => true, _ => rng.chance(1, 2) };
        let name = if self.lay.odd_paths { format!("{}/{} i{}  inc\t.conf", self.dir, self.tag, i) } else { format!("{}/{}_i{}.conf", self.dir, self.tag, i) };
        self.r.files.push(FileOut { path: name, lines: vec![], nl });
        i
    }
    /// one content line, possibly preceded by blank / comment lines and followed by a comment
    fn line(&mut self, fi: usize, depth: usize, content: String, at: Option<(&Lab, &'static str)>, rng: &mut Rng) {
        while self.lay.own > 0 && rng.below(1000) < self.lay.own {
            let l = if rng.chance(1, 2) { String::new() } else { format!("{}{}", self.ind(depth, rng), *rng.pick(&COMMENTS[..])) };
            self.r.files[fi].lines.push(l);
        }
        let mut l = format!("{}{}", self.ind(depth, rng), content);
        if self.lay.cmt > 0 && rng.below(1000) < self.lay.cmt {
            l.push_str(&" ".repeat(rng.below(3)));
            l.push_str(COMMENTS[rng.below(COMMENTS.len())]);
        }
        if rng.chance(1, 6) && self.lay.id != 0 { l.push_str(&" ".repeat(rng.range(1, 3))); }
        self.r.files[fi].lines.push(l);
        if let Some((lab, part)) = at {
            self.r.loc.insert((lab.0, lab.1.clone(), part), (fi, self.r.files[fi].lines.len()));
        }
    }
    fn sep(&self, rng: &mut Rng) -> String {
        " ".repeat(rng.range(1, self.lay.sep_max))
    }
    fn psep(&self, rng: &mut Rng) -> &'static str {
        match self.lay.psep { 0 => ",", 1 => ", ", _ => *rng.pick(&[",", ", ", " , ", ",  "]) }
    }
    fn emit(&mut self, items: &[Item], depth: usize, fi: usize, rng: &mut Rng) {
        for it in items {
            match it {
                Item::Key { lab, k, v, next } => {
                    let c = if v.is_empty() { self.na(k) }
                            else { format!("{}{}{}", self.na(k), self.sep(rng), self.na(&v.replace('@', &self.r.bl_path))) };
                    self.line(fi, depth, c, Some((lab, "line")), rng);
                    if let Some((nlab, text)) = next {
                        let c = self.na(text);
                        self.line(fi, depth, c, Some((nlab, "line")), rng);
                    }
                }
                Item::Inc { lab, v, kids } => {
                    let path = match kids {
                        Some(k) => {
                            let nf = self.new_file(rng);
                            self.emit(k, 0, nf, rng);
                            self.r.files[nf].path.clone()
                        }
                        None => format!("{}/{}_missing.conf", self.dir, self.tag),
                    };
                    let c = if v.is_empty() { "include".to_string() }
                            else { format!("include{}{}", self.sep(rng), self.na(&v.replace('@', &path))) };
                    self.line(fi, depth, c, lab.as_ref().map(|l| (l, "line")), rng);
                }
                Item::Sect { lab, head, ob, cb, kids } => {
                    let h = match head {
                        Head::Sec(k) => self.na(k),
                        Head::Host(p) => format!("host {}", self.na(p)),
                        Head::Route(ps) => {
                            let mut t = String::from("route ");
                            for (i, p) in ps.iter().enumerate() {
                                if i > 0 { t.push_str(self.psep(rng)); }
                                t.push_str(&self.na(p));
                            }
                            t
                        }
                    };
                    let c = if ob.is_empty() { h } else { format!("{} {}", h, self.na(ob)) };
                    self.line(fi, depth, c, Some((lab, "open")), rng);
                    self.emit(kids, depth + 1, fi, rng);
                    if !cb.is_empty() {
                        let c = self.na(cb);
                        self.line(fi, depth, c, Some((lab, "close")), rng);
                    }
                }
            }
        }
    }
}

fn render(ast: &Ast, lay: &Layout, dir: &str, tag: &str, rng: &mut Rng) -> Rendered {
    let mut items = items_of(&ast.srv.es, 0, &[], ast, 0);
    if lay.permute { items = permute(items, rng); }
    for _ in 0..lay.splits {
        let n = count_lists(&items);
        let mut which = rng.below(n);
        split_at(&mut items, &mut which, rng);
    }
    let mut em = Emitter { lay, dir: dir.to_string(), tag: tag.to_string(),
        r: Rendered { files: vec![], loc: HashMap::new(),
                      bl_path: if !ast.bl_exists { format!("{}/{}_nobl.txt", dir, tag) }
                               else if lay.odd_paths { format!("{}/{} black   list\t.txt", dir, tag) }
                               else { format!("{}/{}_bl.txt", dir, tag) } } };
    let nl = match lay.trailing_nl { 0 => false, 1 => true, _ => rng.chance(1, 2) };
    em.r.files.push(FileOut { path: format!("{}/{}_main.conf", dir, tag), lines: vec![], nl });
    if lay.pre {
        em.r.files[0].lines.push("# server {".into());
        em.r.files[0].lines.push("".into());
        em.r.files[0].lines.push("   # a configuration \"file\" }".into());
    }
    let server = (0usize, vec![]);
    let head = if ast.srv.ob.is_empty() { "server".to_string() } else { format!("server {}", em.na(&ast.srv.ob)) };
    // the `server {` line takes no random prefix lines of its own only in the sense that it is matched exactly after clean_up
    em.line(0, 0, head, Some((&server, "open")), rng);
    em.emit(&items, 1, 0, rng);
    if !ast.srv.cb.is_empty() {
        let c = em.na(&ast.srv.cb);
        em.line(0, 0, c, Some((&server, "close")), rng);
    }
    if lay.pre {
        em.r.files[0].lines.push("".into());
        em.r.files[0].lines.push("  # end }".into());
    }
    em.r
}

fn write_files(ast: &Ast, r: &Rendered) {
    for i in 1..r.files.len() {
        let _ = fs::write(&r.files[i].path, r.text(i));
    }
    if ast.bl_exists && uses_blacklist_file(ast) {
        let mut t = ast.bl_ips.join("\n");
        if !ast.bl_ips.is_empty() && ast.bl_ips.len() % 2 == 1 { t.push('\n'); }
        let _ = fs::write(&r.bl_path, t);
    }
}

fn remove_files(r: &Rendered) {
    for i in 1..r.files.len() {
        let _ = fs::remove_file(&r.files[i].path);
    }
    let _ = fs::remove_file(&r.bl_path);
}

fn uses_blacklist_file(ast: &Ast) -> bool {
    fn any(es: &[Entry]) -> bool {
        es.iter().any(|e| (e.t == "key" && e.v.contains('@')) || any(&e.es))
    }
    any(&ast.srv.es) || ast.files.iter().any(|f| any(f))
}

// ------------------------------------------------------------------------------------------------
// the code under test and the projection of its result
// ------------------------------------------------------------------------------------------------
fn opt(o: &Option<String>) -> Value {
    match o { Some(x) => json!([x]), None => json!([]) }
}

fn route_json(r: &RouteConfig) -> Value {
    let ty = match r.route_type {
        RouteType::File => "file",
        RouteType::Directory => "directory",
        RouteType::Proxy => "proxy",
        RouteType::Redirect => "redirect",
        RouteType::ExclusiveWebSocket => "websocket",
    };
    let (targets, mode) = match &r.load_balancer {
        Some(lb) => {
            let g = lb.lock().unwrap();
            (g.targets.clone(), match g.mode { LoadBalancerMode::RoundRobin => "round-robin", LoadBalancerMode::Random => "random" })
        }
        None => (vec![], ""),
    };
    json!({"type": ty, "matches": r.matches, "path": opt(&r.path), "targets": targets, "mode": mode, "websocket": opt(&r.websocket_proxy)})
}

fn project(c: &Config) -> Value {
    let mut m = json!({
        "address": c.address,
        "port": c.port.to_string(),
        "threads": c.threads.to_string(),
        "websocket": opt(&c.default_websocket_proxy),
        "timeout": match c.connection_timeout { Some(d) => json!([d.as_secs().to_string()]), None => json!([]) },
        "bl_list": c.blacklist.list.iter().map(|a| a.to_string()).collect::<Vec<_>>(),
        "bl_mode": match c.blacklist.mode { BlacklistMode::Block => "block", BlacklistMode::Forbidden => "forbidden" },
        "log_level": match c.logging.level { LogLevel::Error => "error", LogLevel::Warn => "warn", LogLevel::Info => "info", LogLevel::Debug => "debug" },
        "log_console": c.logging.console,
        "log_file": opt(&c.logging.file),
        "cache_size": c.cache.size_limit.to_string(),
        "cache_time": c.cache.time_limit.to_string(),
        "default_routes": c.default_host.routes.iter().map(route_json).collect::<Vec<_>>(),
        "hosts": c.hosts.iter().map(|h| json!({"matches": h.matches, "routes": h.routes.iter().map(route_json).collect::<Vec<_>>()})).collect::<Vec<_>>(),
    });
    m
}

fn null_cfg() -> Value {
    json!({"address": "", "port": "", "threads": "", "websocket": [], "timeout": [], "bl_list": [], "bl_mode": "",
           "log_level": "", "log_console": false, "log_file": [], "cache_size": "", "cache_time": "",
           "default_routes": [], "hosts": []})
}

#[derive(Debug, Clone)]
struct Obs {
    kind: &'static str, // ok | parse-error | tree-error | panic
    cfg: Value,
    /// the error as the user sees it (Display of the ConfigError / the &str of from_tree); only two things are ever read
    /// out of it, whatever its wording: which file it names and which numbers it contains (see names_file / nums)
    msg: String,
    /// Config.default_host.matches: not part of the property (reported as drift when it is not "*")
    default_host: String,
}

fn basename(p: &str) -> &str {
    p.rsplit('/').next().unwrap_or(p)
}

/// the error text names this file (by the path it was given, or at least by its file name)
fn names_file(o: &Obs, path: &str) -> bool {
    o.msg.contains(path) || o.msg.contains(basename(path))
}

/// the numbers the error text contains once every file name is taken out: the line it names is one of them
fn nums(o: &Obs, r: &Rendered) -> Vec<u64> {
    let mut t = o.msg.clone();
    let mut paths: Vec<&str> = r.files.iter().map(|f| f.path.as_str()).collect();
    paths.push(r.bl_path.as_str());
    for p in &paths { t = t.replace(p, " "); }
    for p in &paths { t = t.replace(basename(p), " "); }
    let mut out = vec![];
    let mut cur = String::new();
    for c in t.chars().chain(std::iter::once(' ')) {
        if c.is_ascii_digit() { cur.push(c); } else if !cur.is_empty() { if cur.len() <= 9 { out.push(cur.parse().unwrap()); } cur.clear(); }
    }
    out
}

fn load(text: &str, name: &str) -> Obs {
    let r = catch_unwind(AssertUnwindSafe(|| match parse_conf(text, name) {
        Err(e) => Obs { kind: "parse-error", cfg: null_cfg(), msg: e.to_string(), default_host: String::new() },
        Ok(tree) => match Config::from_tree(tree) {
            Err(m) => Obs { kind: "tree-error", cfg: null_cfg(), msg: m.to_string(), default_host: String::new() },
            Ok(c) => Obs { kind: "ok", cfg: project(&c), msg: String::new(), default_host: c.default_host.matches.clone() },
        },
    }));
    r.unwrap_or_else(|_| Obs { kind: "panic", cfg: null_cfg(), msg: "panic".into(), default_host: String::new() })
}

fn obs_json(o: &Obs) -> Value {
    json!({"kind": o.kind, "cfg": o.cfg, "msg": o.msg, "default_host": o.default_host})
}

fn map_strings(v: &Value, from: &str, to: &str) -> Value {
    match v {
        Value::String(x) => Value::String(x.replace(from, to)),
        Value::Array(a) => Value::Array(a.iter().map(|x| map_strings(x, from, to)).collect()),
        Value::Object(o) => Value::Object(o.iter().map(|(k, x)| (k.clone(), map_strings(x, from, to))).collect::<Map<_, _>>()),
        x => x.clone(),
    }
}

fn files_json(r: &Rendered) -> Value {
    Value::Array((0..r.files.len()).map(|i| json!({"path": r.files[i].path, "text": r.text(i)})).collect())
}

/// Compare an observation with the spec's expectation. None = agrees.
fn disagree(exp: &Value, obs: &Obs, r: &Rendered, lay: &Layout) -> Option<String> {
    let kind = exp["kind"].as_str().unwrap_or("");
    match kind {
        "ok" => {
            // a quotation mark inside a string / a route pattern: the literal reading or a rejection (Config.tla OddQuotes)
            if exp["lenient"].as_bool().unwrap_or(false) && (obs.kind == "parse-error" || obs.kind == "tree-error") { return None; }
            if obs.kind != "ok" { return Some(format!("expected the described configuration, got {} ({})", obs.kind, obs.msg)); }
            let want = map_strings(&map_strings(&exp["cfg"], "~", lay.na), "`", lay.wsx);
            if want != obs.cfg {
                let (w, g) = (want.as_object().unwrap(), obs.cfg.as_object().unwrap());
                let mut d = vec![];
                for (k, x) in w { if g.get(k) != Some(x) { d.push(format!("{}: described {} loaded {}", k, x, g.get(k).unwrap_or(&Value::Null))); } }
                for k in g.keys() { if !w.contains_key(k) { d.push(format!("{}: loaded {}", k, g[k])); } }
                return Some(format!("loaded a different configuration: {}", d.join("; ")));
            }
            None
        }
        "validation" | "reject" => {
            if obs.kind == "parse-error" || obs.kind == "tree-error" { None }
            else { Some(format!("expected a rejection ({}), got {}", exp["why"], obs.kind)) }
        }
        "syntax" => {
            if obs.kind != "parse-error" { return Some(format!("expected a syntax error with file and line ({}), got {} {}", exp["why"], obs.kind, obs.msg)); }
            let loc = &exp["loc"];
            let rule = loc["rule"].as_str().unwrap_or("");
            if rule == "none" { return None; }
            let p: Vec<usize> = loc["p"].as_array().map(|a| a.iter().map(|x| x.as_u64().unwrap_or(0) as usize).collect()).unwrap_or_default();
            let part: &'static str = match loc["part"].as_str().unwrap_or("") { "open" => "open", "close" => "close", _ => "line" };
            let k = (loc["f"].as_u64().unwrap_or(0) as usize, p, part);
            let (fi, ln) = match r.loc.get(&k) { Some(x) => *x, None => return Some(format!("INTERNAL: token {:?} was not rendered", k)) };
            if !names_file(obs, &r.files[fi].path) { return Some(format!("error `{}` does not name the file the damaged token is in ({})", obs.msg, r.files[fi].path)); }
            let n = r.files[fi].lines.len() as u64;
            // a missing brace is noticed at the end of the file at the latest: one past the last line, where an included
            // file, as the parser reads it, has up to two more lines (include() appends "\n}")
            // rule `from` (a brace is missing: which section is the unclosed one, and where, cannot be known): any line of that file
            let ns = nums(obs, r);
            let ok = if rule == "at" { ns.contains(&(ln as u64)) } else { ns.iter().any(|x| *x >= 1 && *x <= n + 3) };
            if ok { None } else { Some(format!("error `{}` does not name the line of the damaged token ({}): line {} of {} lines (rule `{}`)", obs.msg, exp["why"], ln, n, rule)) }
        }
        _ => Some(format!("harness: unknown expectation kind {}", kind)),
    }
}

fn run_case(ast: &Ast, lay: &Layout, dir: &str, tag: &str, rng: &mut Rng) -> (Rendered, Obs) {
    let r = render(ast, lay, dir, tag, rng);
    write_files(ast, &r);
    let o = load(&r.text(0), &r.files[0].path);
    remove_files(&r);
    (r, o)
}

fn replay(dir: &str, nlay: usize) {
    let mut rng = Rng::from_env();
    let (mut cases, mut loads, mut mism) = (0u64, 0u64, 0u64);
    let (mut internal, mut drift_default_host) = (0u64, 0u64);
    let mut by_kind: HashMap<String, u64> = HashMap::new();
    let mut by_class: HashMap<String, u64> = HashMap::new();
    let mut nontrivial: HashSet<u64> = HashSet::new();
    let mut samples: Vec<Value> = vec![];
    let mut first: Vec<Value> = vec![];
    let dflt = project(&Config::from_tree(parse_conf("server {\n}", "x").unwrap()).unwrap());
    for line in stdin_lines() {
        let v: Value = match serde_json::from_str(&line) { Ok(v) => v, Err(_) => continue };
        if v.get("ast").is_none() { continue; }
        let ast = ast_of(&v["ast"]);
        let exp = &v["exp"];
        cases += 1;
        let kind = exp["kind"].as_str().unwrap_or("").to_string();
        *by_kind.entry(kind.clone()).or_insert(0) += 1;
        *by_class.entry(if ast.fault.0.is_empty() { "none".to_string() } else { ast.fault.0.clone() }).or_insert(0) += 1;
        if kind != "ok" || exp["cfg"] != dflt { nontrivial.insert(fnv64(v["ast"].to_string().as_bytes())); }
        for li in 0..nlay {
            let lay = layout(li, &mut rng);
            let tag = format!("c{}l{}", cases, li);
            let (r, o) = run_case(&ast, &lay, dir, &tag, &mut rng);
            loads += 1;
            if o.kind == "ok" && o.default_host != "*" { drift_default_host += 1; }
            if let Some(what) = disagree(exp, &o, &r, &lay) {
                if what.starts_with("INTERNAL") { internal += 1; continue; }
                mism += 1;
                if first.len() < 40 {
                    first.push(json!({"case": cases, "layout": li, "what": what, "fault": v["ast"]["fault"], "exp": exp, "obs": obs_json(&o),
                                      "files": files_json(&r), "ast": v["ast"]}));
                }
            } else if li == 3 && samples.len() < 6 && (cases % 97 == 1 || (kind == "syntax" && cases % 41 == 0)) {
                samples.push(json!({"file": r.text(0), "includes": r.files.len() - 1, "expected": kind, "observed": o.kind,
                                    "error": o.msg, "hosts": exp["cfg"]["hosts"].as_array().map(|a| a.len()).unwrap_or(0)}));
            }
        }
    }
    out_line(&json!({"summary": true, "cases": cases, "loads": loads, "mismatches": mism, "internal": internal, "drift_default_host": drift_default_host, "nontrivial": nontrivial.len(),
                     "by_kind": by_kind, "by_class": by_class, "samples": samples, "first": first}));
}

// ------------------------------------------------------------------------------------------------
// random configurations at the property's full width
// ------------------------------------------------------------------------------------------------
fn rand_str(rng: &mut Rng, pool: &[&str]) -> String {
    let mut x = rng.pick(pool).to_string();
    if rng.chance(1, 3) { x.push_str(&rng.below(1000).to_string()); }
    x
}

fn rand_route(rng: &mut Rng, h: usize, j: usize) -> Entry {
    let arity = *rng.pick(&[1, 1, 1, 2, 3, 4]);
    // names in an order that is neither ascending nor descending: a loader that sorts routes or patterns is noticed
    const RT: [&str; 9] = ["q", "c", "x", "a", "m", "z", "e", "k", "b"];
    const PS: [&str; 4] = ["/w/*", "/b", "/t", "/a"];
    let ps: Vec<String> = (0..arity).map(|x| format!("/h{}{}{}", h, RT[(j - 1) % 9], PS[x])).collect();
    let mut es = vec![];
    match rng.below(6) {
        0 => es.push(key("file", &q(&rand_str(rng, &["/var/www/index.html", "/srv/my file.txt", "logo.png", "/srv/my  file.txt", " /srv/lead and trail ", "/srv/tab\there"])))),
        1 => es.push(key("directory", &q(&rand_str(rng, &["/var/www", "/srv/a b", ".", "/srv/reports -  2024/", "/srv/a \t b", " . "])))),
        2 => {
            let n = rng.range(1, 3);
            let t: Vec<String> = (0..n).map(|i| format!("10.0.{}.{}:{}", [5, 9, 2][i], rng.below(256), 8000 + rng.below(100))).collect();
            es.push(key("proxy", &q(&t.join(","))));
            match rng.below(3) { 0 => {} 1 => es.push(key("load_balancer_mode", &q("round-robin"))), _ => es.push(key("load_balancer_mode", &q("random"))) }
        }
        3 => es.push(key("redirect", &q(&rand_str(rng, &["http://localhost/", "/", "/app/prod", "/a   b"])))),
        4 => {}
        _ => es.push(key("directory", &q("/srv/{x}"))),
    }
    if es.is_empty() || rng.chance(1, 4) { es.push(key("websocket", &q(&rand_str(rng, &["localhost:1234", "ws.example.com:80"])))); }
    if rng.chance(1, 8) { es.push(key("colour", &q("blue"))); }
    if rng.chance(1, 2) { es.reverse(); }
    sect("route", "", ps, es)
}

fn rand_ast(rng: &mut Rng) -> Ast {
    let mut scal: Vec<Entry> = vec![];
    let p = |rng: &mut Rng| rng.chance(1, 2);
    if p(rng) { scal.push(key("address", &q(&rand_str(rng, &["0.0.0.0", "127.0.0.1", "::1", "my host", " my   host "])))); }
    if p(rng) { let x = 1 + rng.below(65535); scal.push(key("port", &rng.pick(&[0usize, 1, 80, 255, 256, 443, 8080, 65534, 65535, x]).to_string())); }
    const BIG: [&str; 9] = ["255", "256", "65535", "65536", "16777217", "2147483648", "4294967297", "9007199254740993", "9223372036854775807"];
    if p(rng) { let x = rng.range(1, 512).to_string(); scal.push(key("threads", if rng.chance(1, 4) { *rng.pick(&BIG) } else { &x })); }
    if p(rng) { let x = rng.below(100000); let y = rng.pick(&[0usize, 1, 5, 60, x]).to_string(); scal.push(key("timeout", if rng.chance(1, 4) { *rng.pick(&BIG) } else { &y })); }
    if p(rng) { scal.push(key("websocket", &q(&rand_str(rng, &["localhost:1234", "ws:80"])))); }
    let mut bl_ips = vec![];
    let mut b = vec![];
    if rng.chance(1, 3) {
        b.push(key("file", &q("@")));
        let pool = ["127.0.0.1", "10.0.0.7", "192.168.1.255", "::1", "2001:db8::7"];
        for _ in 0..rng.below(5) { bl_ips.push(rng.pick(&pool).to_string()); }
    }
    if p(rng) { b.push(key("mode", &q(*rng.pick(&["block", "forbidden"])))); }
    if !b.is_empty() { scal.push(sect("sec", "blacklist", vec![], b)); }
    let mut l = vec![];
    if p(rng) { l.push(key("level", &q(*rng.pick(&["error", "warn", "info", "debug"])))); }
    if p(rng) { l.push(key("console", *rng.pick(&["true", "false"]))); }
    if p(rng) { l.push(key("file", &q(&rand_str(rng, &["humphrey.log", "/var/log/h u.log", "/var/log/h  u.log", "\tlogs \t x.log "])))); }
    if !l.is_empty() { scal.push(sect("sec", "log", vec![], l)); }
    let mut c = vec![];
    if p(rng) {
        let x = rng.below(1 << 20);
        let n = *rng.pick(&[0usize, 1, 128, 1023, x]);
        let v = format!("{}{}", n, rng.pick(&["", "K", "M", "G"]));
        c.push(key("size", if rng.chance(1, 4) { *rng.pick(&["8589934591G", "8796093022207M", "9007199254740991K", "4194304K", "4095M", "9223372036854775807", "4294967296"]) } else { &v }));
    }
    if p(rng) { let x = rng.below(1000000); let y = rng.pick(&[0usize, 1, 60, x]).to_string(); c.push(key("time", if rng.chance(1, 4) { *rng.pick(&BIG) } else { &y })); }
    if !c.is_empty() { scal.push(sect("sec", "cache", vec![], c)); }
    if rng.chance(1, 6) { scal.push(sect("sec", "tls", vec![], vec![key("cert_file", &q("cert.pem")), key("key_file", &q("key.pem")), key("force", "false")])); }
    if rng.chance(1, 6) { scal.push(sect("sec", "plugins", vec![], vec![sect("sec", "php", vec![], vec![key("library", &q("php.so")), key("threads", "8")])])); }
    if rng.chance(1, 6) { scal.push(key("colour", &q("red"))); }
    if rng.chance(1, 60) { for i in 0..rng.range(30, 70) { scal.push(key(&format!("x{}", i), &q(&format!("v {}", i)))); } }
    let nh = rng.below(5);
    let hostpats = ["localhost", "*.my  site.com", "127.0.0.1", " * ", "a.b\tc"];
    let mut ordered: Vec<Entry> = vec![];
    for h in 1..=nh {
        let nr = rng.below(9);
        let rs: Vec<Entry> = (1..=nr).map(|j| rand_route(rng, h, j)).collect();
        ordered.push(sect("host", "", vec![q(hostpats[h - 1])], rs));
    }
    let nd = rng.below(9);
    for j in 1..=nd {
        let r = rand_route(rng, 0, j);
        let pos = rng.below(ordered.len() + 1);
        // routes of the default host keep their relative order: insert after the last default route already placed
        let last = ordered.iter().rposition(|e| e.t == "route").map(|x| x + 1).unwrap_or(0);
        ordered.insert(pos.max(last), r);
    }
    let mut root = ordered;
    for e in scal {
        let pos = rng.below(root.len() + 1);
        root.insert(pos, e);
    }
    // sometimes the configuration itself is split over included files (TLC then sees the `inc` entries and has to
    // expand them; the layout adds further, invisible, splits of its own)
    let mut files: Vec<Vec<Entry>> = vec![];
    if !root.is_empty() && rng.chance(1, 3) {
        let i = rng.below(root.len());
        let len = rng.range(1, root.len() - i);
        let run: Vec<Entry> = root.drain(i..i + len).collect();
        files.push(run);
        root.insert(i, inc_entry(1));
        if rng.chance(1, 2) {
            // a second file, included from the first one: either a run of its entries or the inside of one of its sections
            let sections: Vec<usize> = files[0].iter().enumerate().filter(|(_, e)| e.t != "key" && !e.es.is_empty()).map(|(i, _)| i).collect();
            if !sections.is_empty() && rng.chance(1, 2) {
                let k = *rng.pick(&sections);
                let n = files[0][k].es.len();
                let i = rng.below(n);
                let len = rng.range(1, n - i);
                let run: Vec<Entry> = files[0][k].es.drain(i..i + len).collect();
                files[0][k].es.insert(i, inc_entry(2));
                files.push(run);
            } else {
                let n = files[0].len();
                let i = rng.below(n);
                let len = rng.range(1, n - i);
                let run: Vec<Entry> = files[0].drain(i..i + len).collect();
                files[0].insert(i, inc_entry(2));
                files.push(run);
            }
        }
    }
    Ast { srv: sect("sec", "server", vec![], root), files, bl_exists: true, bl_ips, fault: (String::new(), 0, vec![]) }
}

fn inc_entry(f: usize) -> Entry {
    Entry { t: "inc".into(), k: "".into(), v: q("@"), ps: vec![], ob: "".into(), cb: "".into(), es: vec![], f }
}

fn paths_of(es: &[Entry], pre: &[usize], out: &mut Vec<Vec<usize>>) {
    for (i, e) in es.iter().enumerate() {
        let mut p = pre.to_vec();
        p.push(i + 1);
        out.push(p.clone());
        paths_of(&e.es, &p, out);
    }
}

fn entry_at<'a>(es: &'a mut Vec<Entry>, p: &[usize]) -> &'a mut Entry {
    if p.len() == 1 { &mut es[p[0] - 1] } else { entry_at(&mut es[p[0] - 1].es, &p[1..]) }
}

fn entry_ref<'a>(es: &'a [Entry], p: &[usize]) -> &'a Entry {
    if p.len() == 1 { &es[p[0] - 1] } else { entry_ref(&es[p[0] - 1].es, &p[1..]) }
}

fn insert_na(t: &str, i: usize) -> String {
    let cs: Vec<char> = t.chars().collect();
    let mut o: String = cs[..i.min(cs.len())].iter().collect();
    o.push('~');
    o.extend(cs[i.min(cs.len())..].iter());
    o
}

/// damage one token of a random configuration (a sample of the classes of Config.tla's Faults)
fn inject(ast: &mut Ast, rng: &mut Rng) {
    let mut ps: Vec<(usize, Vec<usize>)> = vec![];
    for f in 0..=ast.files.len() {
        let mut one = vec![];
        paths_of(if f == 0 { &ast.srv.es } else { &ast.files[f - 1] }, &[], &mut one);
        ps.extend(one.into_iter().map(|p| (f, p)));
    }
    if ps.is_empty() || rng.chance(1, 10) {
        match rng.below(4) {
            0 => { ast.srv.cb = String::new(); ast.fault = ("MissingCloseBrace".into(), 0, vec![]); }
            1 => { ast.srv.ob = String::new(); ast.fault = ("MissingOpenBrace".into(), 0, vec![]); }
            2 => { ast.srv.ob = "{~".into(); ast.fault = ("NonAscii".into(), 0, vec![]); }
            _ => { ast.srv.cb = "}~".into(); ast.fault = ("NonAscii".into(), 0, vec![]); }
        }
        return;
    }
    let numeric: Vec<(usize, Vec<usize>)> = ps.iter().filter(|(f, p)| {
        let e = entry_ref(if *f == 0 { &ast.srv.es } else { &ast.files[*f - 1] }, p);
        e.t == "key" && e.v.chars().next().map(|c| c.is_ascii_digit()).unwrap_or(false)
    }).cloned().collect();
    let (pf, p) = if !numeric.is_empty() && rng.chance(1, 4) { rng.pick(&numeric).clone() } else { rng.pick(&ps).clone() };
    let e = entry_at(if pf == 0 { &mut ast.srv.es } else { &mut ast.files[pf - 1] }, &p);
    let mut cls: &str;
    let mut next_line: Option<String> = None;
    if e.t == "inc" {
        match rng.below(7) {
            4 => { e.v = "\"".to_string(); cls = "LoneQuote"; }
            5 => { e.v = q(""); cls = "EmptyString"; }
            6 => { e.v = q("\""); cls = "TripleQuote"; }
            0 => { e.v = String::new(); cls = "MissingValue"; }
            1 => { e.v = q("@")[..2].to_string(); cls = "UnterminatedQuote"; }
            2 => { e.f = 0; cls = "NoSuchInclude"; }
            _ => { e.v = if rng.chance(1, 2) { format!("~{}", e.v) } else { format!("{}~", e.v) }; cls = "NonAscii"; }
        }
    } else if e.t == "key" {
        let numeric = e.v.chars().next().map(|c| c.is_ascii_digit()).unwrap_or(false);
        let quoted = e.v.starts_with('"');
        let mut opts = vec!["MissingValue", "NonAscii", "LoneQuote", "BlankValue", "EmptyString", "TripleQuote", "UnterminatedQuote1", "ValueOnNextLine", "UnicodeSpace"];
        if ["mode", "level", "load_balancer_mode"].contains(&e.k.as_str()) || e.v == "true" || e.v == "false"
            || (numeric && e.v.ends_with(|c| c == 'K' || c == 'M' || c == 'G')) { opts.push("OtherCase"); opts.push("OtherCase"); }
        if numeric { opts.extend(["BadNumber", "UnknownUnit", "TooBig", "OutOfRange"]); }
        if quoted { opts.push("UnterminatedQuote"); }
        if quoted && ["mode", "level", "load_balancer_mode"].contains(&e.k.as_str()) { opts.push("BadEnum"); }
        cls = *rng.pick(&opts);
        match cls {
            "MissingValue" => e.v = String::new(),
            "UnicodeSpace" => {
                let n = e.v.chars().count();
                e.v = match rng.below(4) {
                    0 => format!("{}`", e.v),
                    1 => format!("`{}", e.v),
                    2 if !e.v.contains('@') && n >= 2 => { let i = *rng.pick(&[1, n - 1]); insert_na(&e.v, i).replace('~', "`") }
                    _ => "`".to_string(),
                };
            }
            "OtherCase" => {
                e.v = if e.v.starts_with('"') && rng.chance(1, 2) { let mut c: Vec<char> = e.v.chars().collect(); c[1] = c[1].to_ascii_uppercase(); c.into_iter().collect() }
                      else if numeric { e.v.to_ascii_lowercase() }
                      else if rng.chance(1, 2) { e.v.to_ascii_uppercase() }
                      else { let mut c: Vec<char> = e.v.chars().collect(); let i = if c[0] == '"' { 1 } else { 0 }; c[i] = c[i].to_ascii_uppercase(); c.into_iter().collect() };
            }
            "LoneQuote" => e.v = "\"".to_string(),
            "BlankValue" => e.v = "   ".to_string(),
            "EmptyString" => e.v = q(""),
            "TripleQuote" => e.v = q("\""),
            "UnterminatedQuote1" => { e.v = if rng.chance(1, 2) { "\"x".to_string() } else { "x\"".to_string() }; cls = "UnterminatedQuote"; }
            "ValueOnNextLine" => { next_line = Some(if rng.chance(1, 2) { "\"".to_string() } else { e.v.clone() }); e.v = String::new(); }
            "BadNumber" => e.v = rng.pick(&[format!("{}x", e.v), "1.5".to_string(), "--1".to_string(), "1e3".to_string()]).clone(),
            "UnknownUnit" => { let d: String = e.v.chars().filter(|c| c.is_ascii_digit()).collect(); e.v = format!("{}{}", d, rng.pick(&["T", "KB", " M", "KK"])); }
            "TooBig" => e.v = rng.pick(&["9999999999G", "8589934592G", "99999999999999999999", "17179869184G", "17179869185G", "18014398509481984K",
                                         "36028797018963969K", "17592186044416M", "17592186044417M", "8796093022208M", "9223372036854775808"]).to_string(),
            "OutOfRange" => e.v = if e.k == "threads" && rng.chance(1, 2) { "0".to_string() } else { rng.pick(&["-1", "-1K"]).to_string() },
            "UnterminatedQuote" => e.v = if rng.chance(1, 2) { e.v[..e.v.len() - 1].to_string() } else { e.v[1..].to_string() },
            "BadEnum" => e.v = q("bogus"),
            _ => {
                let n = e.v.chars().count();
                let i = if e.v.contains('@') { *rng.pick(&[0, n]) } else { rng.below(n + 1) };
                e.v = insert_na(&e.v, i);
            }
        }
    } else {
        match rng.below(6) {
            0 | 1 => { e.cb = String::new(); cls = "MissingCloseBrace"; }
            2 | 3 => { e.ob = String::new(); cls = "MissingOpenBrace"; }
            4 if rng.chance(1, 2) => { if rng.chance(1, 2) { e.ob = "{`".into(); } else { e.cb = "}`".into(); } cls = "UnicodeSpace"; }
            4 => { if rng.chance(1, 2) { e.ob = "{~".into(); } else { e.cb = "}~".into(); } cls = "NonAscii"; }
            _ => {
                if e.t == "host" {
                    let t = e.ps[0].clone();
                    match rng.below(5) {
                        0 => { e.ps[0] = "\"".to_string(); cls = "LoneQuote"; }
                        1 => { e.ps[0] = q(""); cls = "EmptyString"; }
                        2 => { e.ps[0] = q("\""); cls = "TripleQuote"; }
                        _ => { e.ps[0] = if rng.chance(1, 2) { t[..t.len() - 1].to_string() } else { t[1..].to_string() }; cls = "UnterminatedQuote"; }
                    }
                } else if e.t == "route" && rng.chance(1, 3) {
                    match rng.below(3) {
                        0 => e.ps.push(String::new()),
                        1 => e.ps.insert(0, String::new()),
                        _ => e.ps.insert(1, String::new()),
                    }
                    cls = "EmptyPattern";
                } else if e.t == "route" && rng.chance(1, 2) {
                    let n = e.ps.len();
                    match rng.below(3) {
                        0 => e.ps = vec!["\"".to_string()],
                        1 => e.ps[0] = format!("\"{}", e.ps[0]),
                        _ => e.ps[n - 1] = q(&e.ps[n - 1]),
                    }
                    cls = "QuoteInPattern";
                } else if e.t == "route" {
                    e.es.retain(|x| !["file", "directory", "proxy", "redirect", "websocket"].contains(&x.k.as_str()));
                    cls = "RouteWithoutType";
                } else { e.cb = String::new(); cls = "MissingCloseBrace"; }
            }
        }
    }
    if let Some(k) = next_line {
        // the key stands alone; what should be its value follows on the next line
        let list = list_at(if pf == 0 { &mut ast.srv.es } else { &mut ast.files[pf - 1] }, &p);
        let mut raw = key(&k, "");
        raw.t = "raw".into();
        list.insert(p[p.len() - 1], raw);
    }
    ast.fault = (cls.to_string(), pf, p);
}

fn list_at<'a>(es: &'a mut Vec<Entry>, p: &[usize]) -> &'a mut Vec<Entry> {
    if p.len() == 1 { es } else { list_at(&mut es[p[0] - 1].es, &p[1..]) }
}

fn random(dir: &str, n: usize) {
    let mut rng = Rng::from_env();
    for i in 0..n {
        let mut ast = rand_ast(&mut rng);
        if rng.chance(2, 5) { inject(&mut ast, &mut rng); }
        let lay = layout(1 + rng.below(4), &mut rng);
        let tag = format!("r{}", i);
        let (r, o) = run_case(&ast, &lay, dir, &tag, &mut rng);
        // where the harness wrote the token it damaged (0 = that part does not exist)
        let at = |part: &'static str| r.loc.get(&(ast.fault.1, ast.fault.2.clone(), part)).cloned();
        let fi = at("open").or(at("line")).or(at("close")).map(|x| x.0).unwrap_or(0);
        let tok = json!({"same_file": o.kind == "parse-error" && names_file(&o, &r.files[fi].path),
                         "open": at("open").map(|x| x.1).unwrap_or(0), "close": at("close").map(|x| x.1).unwrap_or(0),
                         "line": at("line").map(|x| x.1).unwrap_or(0), "nlines": r.files[fi].lines.len()});
        let cfg = map_strings(&map_strings(&o.cfg, lay.na, "~"), lay.wsx, "`");
        let ns = if o.kind == "parse-error" { nums(&o, &r) } else { vec![] };
        out_line(&json!({"ast": ast_json(&ast), "obs": {"kind": o.kind, "cfg": cfg, "nums": ns, "default_host": o.default_host}, "tok": tok,
                         "layout": {"na": lay.na, "splits": lay.splits, "permute": lay.permute, "files": r.files.len()}}));
    }
}

fn main() {
    quiet_panics();
    let a: Vec<String> = std::env::args().collect();
    let dir = a.get(2).cloned().unwrap_or_default();
    if a.len() < 3 || fs::create_dir_all(&dir).is_err() {
        eprintln!("usage: config replay <workdir> [layouts] | random <workdir> <n> | render <workdir> <layout>");
        std::process::exit(2);
    }
    match a[1].as_str() {
        "replay" => replay(&dir, a.get(3).and_then(|x| x.parse().ok()).unwrap_or(5)),
        "random" => random(&dir, a.get(3).and_then(|x| x.parse().ok()).unwrap_or(100)),
        "render" => {
            let mut rng = Rng::from_env();
            let li: usize = a.get(3).and_then(|x| x.parse().ok()).unwrap_or(0);
            for line in stdin_lines() {
                let v: Value = match serde_json::from_str(&line) { Ok(v) => v, Err(_) => continue };
                let ast = ast_of(if v.get("ast").is_some() { &v["ast"] } else { &v });
                let lay = layout(li, &mut rng);
                let (r, o) = run_case(&ast, &lay, &dir, "render", &mut rng);
                out_line(&json!({"files": files_json(&r), "obs": obs_json(&o)}));
            }
        }
        "load" => {
            // load <workdir> <file>: the file as it is (reproduction by hand)
            let text = fs::read_to_string(&a[3]).expect("file");
            out_line(&obs_json(&load(&text, &a[3])));
        }
        _ => { eprintln!("unknown subcommand"); std::process::exit(2) }
    }
}
