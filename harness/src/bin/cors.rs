//! C01 (CORS part) conformance, threaded runtime: which Access-Control-* headers a REAL humphrey `App` puts on
//! its responses, against spec/cors/Cors.tla.
//!
//!   cors replay [--workers N]
//!        stdin: {"reqs":[{m,host,path}..]} then one line per app {"calls":[..builder calls..],"exp":[{status,ac,at}..]}
//!        (vectors printed by TLC, Gen_Cors*.cfg). Every app is built through the public builder API in the order
//!        of `calls` (App::with_route / with_stateless_route / with_path_aware_route / with_cors / with_cors_config /
//!        with_host / with_default_subapp, SubApp::new / with_* likewise, Cors::new / wildcard / with_*), run with
//!        App::run on a loopback port in a thread, queried over raw TCP (GET / POST / OPTIONS ...), and stopped
//!        through App::with_shutdown.   stdout: {"summary":true,...}
//!   cors random <apps> <requests per app> [--workers N]
//!        random builder sequences (2..16 calls, 5 patterns, 4 host patterns, 7 handler kinds, random Cors chains),
//!        stdout: ndjson log for Trace_Cors.tla ({"t":"app","calls":[..]} followed by its {"t":"req",..,"got":{..}}).
//!
//! A handler registered by call number n answers 200 with body `at=<n>` and the headers of its kind
//! (cors_common::handler_response).
use hv::util;
use humphrey::http::{Request, Response};
use humphrey::monitor::event::{Event, EventType};
use humphrey::monitor::MonitorConfig;
use humphrey::{App, SubApp};
use std::net::{SocketAddr, TcpStream};
use std::sync::mpsc::{channel, Sender};
use std::sync::Arc;
use std::thread::{self, JoinHandle};
use std::time::{Duration, Instant};

#[path = "cors_common/mod.rs"]
mod common;
use common::{build_cors, free_port, handler_response, Call, Server};

/// SubApp::with_route / with_stateless_route / with_path_aware_route all push the same RouteHandler.
fn sub_route(sub: SubApp<()>, p: &str, hk: String, at: usize) -> SubApp<()> {
    match at % 3 {
        0 => sub.with_route(p, move |_r: Request, _s: Arc<()>| -> Response { handler_response(&hk, at) }),
        1 => sub.with_stateless_route(p, move |_r: Request| -> Response { handler_response(&hk, at) }),
        _ => {
            let leaked: &'static str = Box::leak(p.to_string().into_boxed_str());
            sub.with_path_aware_route(leaked, move |_r: Request, _s: Arc<()>, _route: &'static str| -> Response { handler_response(&hk, at) })
        }
    }
}
fn app_route(app: App<()>, p: &str, hk: String, at: usize) -> App<()> {
    match at % 3 {
        0 => app.with_route(p, move |_r: Request, _s: Arc<()>| -> Response { handler_response(&hk, at) }),
        1 => app.with_stateless_route(p, move |_r: Request| -> Response { handler_response(&hk, at) }),
        _ => {
            let leaked: &'static str = Box::leak(p.to_string().into_boxed_str());
            app.with_path_aware_route(leaked, move |_r: Request, _s: Arc<()>, _route: &'static str| -> Response { handler_response(&hk, at) })
        }
    }
}

fn build(calls: &[Call]) -> Result<(App<()>, Sender<()>), String> {
    let (tx, rx) = channel();
    let mut app: App<()> = App::new_with_config(3, ()).with_shutdown(rx);
    let mut pend: Option<SubApp<()>> = None;
    for (i, c) in calls.iter().enumerate() {
        let at = i + 1;
        match c.op.as_str() {
            "route" => app = app_route(app, &c.pat, c.hk.clone(), at),
            "cors" => app = app.with_cors(build_cors(&c.cors, at)),
            "config" => app = app.with_cors_config(&c.pat, build_cors(&c.cors, at)),
            "subnew" => {
                if pend.is_some() {
                    return Err(format!("call {}: a sub-app is already under construction", at));
                }
                pend = Some(if at % 2 == 0 { SubApp::new() } else { SubApp::default() });
            }
            "subroute" | "subcors" | "subconfig" | "host" | "defsub" => {
                let sub = pend.take().ok_or_else(|| format!("call {}: no sub-app under construction", at))?;
                match c.op.as_str() {
                    "subroute" => pend = Some(sub_route(sub, &c.pat, c.hk.clone(), at)),
                    "subcors" => pend = Some(sub.with_cors(build_cors(&c.cors, at))),
                    "subconfig" => pend = Some(sub.with_cors_config(&c.pat, build_cors(&c.cors, at))),
                    "host" => app = app.with_host(&c.hp, sub),
                    _ => app = app.with_default_subapp(sub),
                }
            }
            other => return Err(format!("call {}: unknown builder call {}", at, other)),
        }
    }
    Ok((app, tx))
}

struct Running {
    port: u16,
    tx: Sender<()>,
    handle: JoinHandle<bool>,
}

impl Server for Running {
    const FULL_API: bool = true;

    fn start(calls: &[Call]) -> Result<Running, String> {
        for _attempt in 0..8 {
            let port = free_port();
            let (app, tx) = build(calls)?;
            let (mtx, mrx) = channel::<Event>();
            let app = app.with_monitor(MonitorConfig::new(mtx).with_subscription_to(EventType::ConnectionSuccess));
            let addr = format!("127.0.0.1:{}", port);
            let handle = thread::spawn(move || app.run(addr).is_ok());
            let deadline = Instant::now() + Duration::from_secs(15);
            let sa: SocketAddr = format!("127.0.0.1:{}", port).parse().unwrap();
            let mut ok = false;
            // Ready means: OUR app reported (MonitorConfig, ConnectionSuccess) that it accepted OUR probe connection
            // (a successful connect alone could have reached somebody else's listener on a port taken in between).
            'wait: while Instant::now() < deadline {
                if handle.is_finished() {
                    break;
                }
                match TcpStream::connect_timeout(&sa, Duration::from_millis(500)) {
                    Ok(probe) => {
                        let me = probe.local_addr().ok();
                        let until = Instant::now() + Duration::from_secs(5);
                        while Instant::now() < until {
                            match mrx.recv_timeout(Duration::from_millis(20)) {
                                Ok(ev) => {
                                    if ev.kind == EventType::ConnectionSuccess && ev.peer.is_some() && ev.peer == me {
                                        ok = true;
                                        break 'wait;
                                    }
                                }
                                Err(_) => {
                                    if handle.is_finished() {
                                        break 'wait;
                                    }
                                }
                            }
                        }
                        break;
                    }
                    Err(_) => thread::sleep(Duration::from_millis(1)),
                }
            }
            drop(mrx);
            if ok {
                return Ok(Running { port, tx, handle });
            }
            drop(tx);
        }
        Err("could not start the app on a loopback port".into())
    }

    fn port(&self) -> u16 {
        self.port
    }

    fn stop(self) -> bool {
        let _ = self.tx.send(());
        let deadline = Instant::now() + Duration::from_secs(10);
        while !self.handle.is_finished() && Instant::now() < deadline {
            thread::sleep(Duration::from_millis(1));
        }
        if self.handle.is_finished() {
            let _ = self.handle.join();
            true
        } else {
            false
        }
    }
}

fn main() {
    common::run_main::<Running>();
}
