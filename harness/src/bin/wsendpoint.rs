//! C11 conformance: the synchronous WebSocket endpoint (humphrey App upgrade path +
//! humphrey_ws::websocket_handler + WebsocketStream::{recv, recv_nonblocking, send}, Drop) driven over
//! loopback by a reference RFC 6455 client written here.
//!
//!   wsendpoint replay <conc> [<mod> <rem>]      stdin: one behaviour per line as printed by TLC (MC_WsEndpoint!GenRec)
//!   wsendpoint random <n> <maxframes> <maxpay> <conc>
//!
//! Every connection produces one JSON line
//!   {"c":i, "mode":.., "echo":.., "pre":.., "push":.., "ev":[...], "obs":{...}, "mismatch":[...], "nones":k}
//! `ev` is the connection's event log (format: spec/wsendpoint/Trace_WsEndpoint.tla), validated by TLC;
//! `mismatch` (replay only) lists the differences between the observation and what the spec predicted.
//!
//! The reference client masks every frame, writes it in the prescribed pieces, and PARSES WHAT THE
//! SERVER WRITES AS FRAMES (fin, rsv, opcode, mask, length form, length, payload, truncated) without
//! judging them: the judgement (well-formed, equal to the prediction) is the spec's.  Payloads are
//! run-length encoded [{b,n}] in all logs.  The accept value wanted in the handshake is computed by
//! the straightforward SHA-1 / Base64 below (independent of humphrey-ws' own).
use hv::util::*;
use humphrey::stream::Stream;
use humphrey::App;
use humphrey_ws::error::WebsocketError;
use humphrey_ws::restion::Restion;
use humphrey_ws::{websocket_handler, Message, WebsocketStream};
use serde_json::{json, Value};
use std::collections::HashMap;
use std::io::{Read, Write};
use std::net::{Shutdown, SocketAddr, TcpListener, TcpStream};
use std::os::unix::io::AsRawFd;
use std::panic::{catch_unwind, AssertUnwindSafe};
use std::sync::atomic::{AtomicBool, AtomicUsize, Ordering::SeqCst};
use std::sync::{Arc, Mutex};
use std::thread;
use std::time::{Duration, Instant};

static HANGS: AtomicUsize = AtomicUsize::new(0); // connections that did not end (fail fast after a few)
const GUID: &str = "258EAFA5-E914-47DA-95CA-C5AB0DC85B11";

// ------------------------------------------------------------------------------------------------
// independent SHA-1 (FIPS 180-4) and Base64 (RFC 4648)
fn sha1(data: &[u8]) -> [u8; 20] {
    let mut h: [u32; 5] = [0x67452301, 0xEFCDAB89, 0x98BADCFE, 0x10325476, 0xC3D2E1F0];
    let mut m = data.to_vec();
    m.push(0x80);
    while m.len() % 64 != 56 {
        m.push(0);
    }
    m.extend_from_slice(&((data.len() as u64) * 8).to_be_bytes());
    for block in m.chunks(64) {
        let mut w = [0u32; 80];
        for t in 0..16 {
            w[t] = u32::from_be_bytes([block[4 * t], block[4 * t + 1], block[4 * t + 2], block[4 * t + 3]]);
        }
        for t in 16..80 {
            w[t] = (w[t - 3] ^ w[t - 8] ^ w[t - 14] ^ w[t - 16]).rotate_left(1);
        }
        let (mut a, mut b, mut c, mut d, mut e) = (h[0], h[1], h[2], h[3], h[4]);
        for t in 0..80 {
            let (f, k) = match t {
                0..=19 => ((b & c) | (!b & d), 0x5A827999u32),
                20..=39 => (b ^ c ^ d, 0x6ED9EBA1),
                40..=59 => ((b & c) | (b & d) | (c & d), 0x8F1BBCDC),
                _ => (b ^ c ^ d, 0xCA62C1D6),
            };
            let tmp = a.rotate_left(5).wrapping_add(f).wrapping_add(e).wrapping_add(k).wrapping_add(w[t]);
            e = d;
            d = c;
            c = b.rotate_left(30);
            b = a;
            a = tmp;
        }
        h[0] = h[0].wrapping_add(a);
        h[1] = h[1].wrapping_add(b);
        h[2] = h[2].wrapping_add(c);
        h[3] = h[3].wrapping_add(d);
        h[4] = h[4].wrapping_add(e);
    }
    let mut out = [0u8; 20];
    for i in 0..5 {
        out[4 * i..4 * i + 4].copy_from_slice(&h[i].to_be_bytes());
    }
    out
}

fn b64(data: &[u8]) -> String {
    const A: &[u8; 64] = b"ABCDEFGHIJKLMNOPQRSTUVWXYZabcdefghijklmnopqrstuvwxyz0123456789+/";
    let mut s = String::new();
    for ch in data.chunks(3) {
        let n = (ch[0] as u32) << 16 | (*ch.get(1).unwrap_or(&0) as u32) << 8 | *ch.get(2).unwrap_or(&0) as u32;
        s.push(A[(n >> 18) as usize & 63] as char);
        s.push(A[(n >> 12) as usize & 63] as char);
        s.push(if ch.len() > 1 { A[(n >> 6) as usize & 63] as char } else { '=' });
        s.push(if ch.len() > 2 { A[n as usize & 63] as char } else { '=' });
    }
    s
}

fn want_accept(key: &str) -> String {
    b64(&sha1(format!("{}{}", key, GUID).as_bytes()))
}

// ------------------------------------------------------------------------------------------------
// payloads
type Rle = Vec<(u8, u64)>;

fn expand(p: &Rle) -> Vec<u8> {
    let mut v = Vec::with_capacity(p.iter().map(|x| x.1 as usize).sum());
    for (b, n) in p {
        v.extend(std::iter::repeat(*b).take(*n as usize));
    }
    v
}

/// Every payload this harness sends has at most a few dozen runs, so a payload with thousands of runs is one the
/// code under test garbled (or made up). Such a payload is logged as a fixed-size digest that cannot equal any
/// payload of a script - pseudo-runs with "byte" values above 255: total length, a hash, the number of runs - instead
/// of millions of JSON records (a garbled 6 MiB echo logged four times per connection exhausted the machine's memory).
const MAX_RUNS: usize = 2048;

fn rle_json(bytes: &[u8]) -> Value {
    let mut out: Vec<Value> = vec![];
    let mut runs = 0usize;
    let mut i = 0;
    while i < bytes.len() {
        let b = bytes[i];
        let mut j = i;
        while j < bytes.len() && bytes[j] == b {
            j += 1;
        }
        runs += 1;
        if runs <= MAX_RUNS {
            out.push(json!({"b": b, "n": j - i}));
        }
        i = j;
    }
    if runs > MAX_RUNS {
        return json!([{"b": 999, "n": bytes.len().min(CLAMP as usize)}, {"b": 1000, "n": fnv64(bytes) % 1_000_000_000 + 1},
                      {"b": 1001, "n": runs.min(CLAMP as usize)}]);
    }
    Value::Array(out)
}

fn rle_from_json(v: &Value) -> Rle {
    v.as_array().map(|a| a.iter().map(|r| (r["b"].as_u64().unwrap() as u8, r["n"].as_u64().unwrap())).collect()).unwrap_or_default()
}

// ------------------------------------------------------------------------------------------------
// cases
#[derive(Clone)]
struct CFrame {
    op: String,
    fin: bool,
    pay: Rle,
    cuts: Vec<usize>,
}

#[derive(Clone, PartialEq)]
enum End {
    Close,
    Shut,
    Stay,
}

#[derive(Clone)]
struct Case {
    idx: usize,
    key: Option<String>,
    nb: bool,
    echo: bool,
    frames: Vec<CFrame>,
    sent: usize,
    end: End,
    exp: Option<Value>,
    gap_us: u64,
    full: bool, // print the event log, the observation and the script
    hsv: String,  // spelling of the upgrade request ("canon" or a letter-case variant)
    late_ms: u64, // the reference client starts reading the server's frames this late (a slow reader)
    exp_alt: Vec<Value>, // further outcomes the spec allows for this script (letter-case variants of the request)
    pre: String, // handler preamble: "none" | "poll" (one recv_nonblocking while nothing is pending) | "pollpush" (then a push)
    push: Rle,   // payload of the binary message pushed by the preamble
}

fn opcode(op: &str) -> u8 {
    match op {
        "cont" => 0,
        "text" => 1,
        "binary" => 2,
        "close" => 8,
        "ping" => 9,
        "pong" => 10,
        _ => 3,
    }
}

fn opname(c: u8) -> String {
    match c {
        0 => "cont".into(),
        1 => "text".into(),
        2 => "binary".into(),
        8 => "close".into(),
        9 => "ping".into(),
        10 => "pong".into(),
        n => format!("op{}", n),
    }
}

/// the concrete Sec-WebSocket-Key for an abstract key name of the model
fn key_of_name(name: &str) -> Option<String> {
    Some(match name {
        "<nokey>" => return None,
        "k16" => "dGhlIHNhbXBsZSBub25jZQ==".to_string(), // the example of RFC 6455 1.3
        "kEmpty" => String::new(),
        "k1" => "x".to_string(),
        "k200" => "Ab1+/".repeat(40),
        "kColon" => "a:b::c".to_string(),
        "kSpace" => "two words and  more".to_string(),
        "kPunct" => "!\"#$%&'()*+,-./:;<=>?@[\\]^_`{|}~".to_string(),
        "k24" => "AAAAAAAAAAAAAAAAAAAAAA==".to_string(),
        "kDigits" => "0123456789".to_string(),
        "kEq" => "====".to_string(),
        "kUtf8" => "ключ-é-😀".to_string(),
        "k1000" => "0123456789abcdefghij".repeat(50),
        // one representative per Unicode class inside the key, and non-ASCII white space at both ends (not OWS: kept)
        "kUni" => "a\u{0663}\u{FF11}\u{1D7D9}\u{00B2}\u{00BD}\u{2167}\u{00A0}\u{1680}\u{3000}\u{00DF}\u{0130}\u{FB01}e\u{0301}\u{E000}z".to_string(),
        "kUniEdge" => "\u{00A0}\u{3000}key\u{2028}\u{1680}".to_string(),
        n if n.starts_with("kLen") && n[4..].parse::<usize>().is_ok() => {
            // a key of exactly that many bytes
            const A: &[u8] = b"ABCDEFGHIJKLMNOPQRSTUVWXYZabcdefghijklmnopqrstuvwxyz0123456789+/=";
            let len: usize = n[4..].parse().unwrap();
            (0..len).map(|i| A[(i * 7 + len) % A.len()] as char).collect()
        }
        other => other.to_string(),
    })
}

fn encode_client_frame(f: &CFrame, mask: [u8; 4]) -> Vec<u8> {
    let pay = expand(&f.pay);
    let n = pay.len();
    let mut v = vec![(f.fin as u8) << 7 | opcode(&f.op)];
    if n < 126 {
        v.push(0x80 | n as u8);
    } else if n < 65536 {
        v.push(0x80 | 126);
        v.extend_from_slice(&(n as u16).to_be_bytes());
    } else {
        v.push(0x80 | 127);
        v.extend_from_slice(&(n as u64).to_be_bytes());
    }
    v.extend_from_slice(&mask);
    v.extend(pay.iter().enumerate().map(|(i, b)| b ^ mask[i % 4]));
    v
}

// ------------------------------------------------------------------------------------------------
// server side
struct Ctx {
    nb: bool,
    echo: bool,
    stop_after: Option<usize>,
    stop: AtomicBool,
    done: AtomicBool,
    nones: AtomicUsize,
    log: Mutex<Vec<Value>>,
    pre: String,
    push: Rle,
    polled: AtomicBool,       // the preamble's empty poll has returned: the client may start writing
    push_started: AtomicBool, // the preamble's push is about to be written: the client starts reading a while later
}

impl Ctx {
    fn log(&self, v: Value) {
        self.log.lock().unwrap().push(v);
    }
}

#[derive(Default)]
struct Shared {
    map: Mutex<HashMap<SocketAddr, Arc<Ctx>>>,
}

fn fionread(fd: i32) -> usize {
    let mut n: libc::c_int = 0;
    let r = unsafe { libc::ioctl(fd, libc::FIONREAD, &mut n) };
    if r < 0 || n < 0 {
        0
    } else {
        n as usize
    }
}

fn outq(fd: i32) -> usize {
    let mut n: libc::c_int = 0;
    let r = unsafe { libc::ioctl(fd, libc::TIOCOUTQ, &mut n) };
    if r < 0 || n < 0 {
        0
    } else {
        n as usize
    }
}

/// The handler under which the endpoint is exercised: receive (blocking or polling) until the
/// connection is reported closed or failed, or until told to stop; optionally echo; then return.
fn ws_handler(mut ws: WebsocketStream, st: Arc<Shared>) {
    let peer = match ws.peer_addr() {
        Ok(a) => a,
        Err(_) => return,
    };
    let ctx = match st.map.lock().unwrap().get(&peer).cloned() {
        Some(c) => c,
        None => return,
    };
    let fd = match ws.inner() {
        Stream::Tcp(s) => s.as_raw_fd(),
    };
    let mut delivered = 0usize;
    let mut last_none = false;
    let mut streak = 0usize; // consecutive (avail = 0, none) polls
    let mut nap = 200u64;
    let mut qn = 0u64; // numbering of the thinned-out polls
    let mut prev_q: Option<u64> = None;
    // preamble: a handler that mixes the calls - poll once while nothing can be pending, then (pollpush) send a
    // message of its own, then go on receiving in its mode
    if ctx.pre != "none" {
        let avail = fionread(fd);
        ctx.log(json!({"e": "call", "avail": avail, "nb": true}));
        let r = catch_unwind(AssertUnwindSafe(|| ws.recv_nonblocking()));
        match r {
            Ok(Restion::None) => {
                last_none = true;
                ctx.nones.fetch_add(1, SeqCst);
                ctx.log(json!({"e": "ret", "kind": "none", "text": false, "pay": []}));
            }
            Ok(Restion::Ok(m)) => {
                delivered += 1;
                ctx.log(json!({"e": "ret", "kind": "msg", "text": m.is_text(), "pay": rle_json(m.bytes())}));
            }
            Ok(Restion::Err(e)) => ctx.log(json!({"e": "ret", "kind": "error", "err": format!("{:?}", e), "text": false, "pay": []})),
            Err(_) => ctx.log(json!({"e": "ret", "kind": "panic", "text": false, "pay": []})),
        }
        if ctx.pre == "pollpush" {
            let bytes = expand(&ctx.push);
            let pay = rle_json(&bytes);
            ctx.push_started.store(true, SeqCst);
            let ok = catch_unwind(AssertUnwindSafe(|| ws.send(Message::new_binary(bytes)).is_ok())).unwrap_or(false);
            ctx.log(json!({"e": "push", "pay": pay, "ok": ok}));
        }
        ctx.polled.store(true, SeqCst);
    }
    loop {
        if !ctx.nb {
            if let Some(n) = ctx.stop_after {
                if delivered >= n {
                    break;
                }
            }
        }
        // read the stop flag BEFORE looking at the socket: the controller sets it only after everything
        // the client wrote has arrived, so `stop && avail == 0` means nothing is left unread
        let stop = ctx.stop.load(SeqCst);
        let avail = fionread(fd);
        if ctx.nb && last_none && stop && avail == 0 {
            break;
        }
        // Long streaks of polls that saw nothing and got `none` are thinned out: from the third on, a poll REPLACES the
        // previous one of the streak in the log. That is sound: consecutive `none` polls - each may have consumed Pings /
        // Pongs that arrived after its FIONREAD - are one `none` poll at the position of the last one as far as the spec
        // is concerned. (Dropping such a poll altogether is not: the spec then has no call in which to consume a Ping
        // that arrived during it, and its Pong looks unexplained.)
        let quiet = ctx.nb && avail == 0 && streak >= 2;
        if quiet {
            qn += 1;
            let mut lg = ctx.log.lock().unwrap();
            if let Some(p) = prev_q {
                lg.retain(|e| e["q"] != json!(p));
            }
            lg.push(json!({"e": "call", "avail": avail, "nb": ctx.nb, "q": qn}));
        } else {
            prev_q = None;
            ctx.log(json!({"e": "call", "avail": avail, "nb": ctx.nb}));
        }
        let r: Result<Restion<Message, WebsocketError>, _> = catch_unwind(AssertUnwindSafe(|| {
            if ctx.nb {
                ws.recv_nonblocking()
            } else {
                ws.recv().into()
            }
        }));
        if !matches!(r, Ok(Restion::None)) {
            prev_q = None;
        }
        last_none = false;
        match r {
            Ok(Restion::Ok(m)) => {
                streak = 0;
                nap = 200;
                delivered += 1;
                let text = m.is_text();
                let pay = rle_json(m.bytes());
                ctx.log(json!({"e": "ret", "kind": "msg", "text": text, "pay": pay}));
                if ctx.echo {
                    let bytes = m.bytes().to_vec();
                    let reply = if text { Message::new(&bytes) } else { Message::new_binary(&bytes) };
                    let ok = catch_unwind(AssertUnwindSafe(|| ws.send(reply).is_ok())).unwrap_or(false);
                    ctx.log(json!({"e": "send", "text": text, "pay": rle_json(&bytes), "ok": ok}));
                }
            }
            Ok(Restion::None) => {
                last_none = true;
                ctx.nones.fetch_add(1, SeqCst);
                if avail == 0 {
                    streak += 1;
                } else {
                    streak = 0;
                }
                if quiet {
                    ctx.log(json!({"e": "ret", "kind": "none", "text": false, "pay": [], "q": qn}));
                    prev_q = Some(qn);
                } else {
                    ctx.log(json!({"e": "ret", "kind": "none", "text": false, "pay": []}));
                }
                thread::sleep(Duration::from_micros(nap));
                nap = (nap * 2).min(4000);
            }
            Ok(Restion::Err(WebsocketError::ConnectionClosed)) => {
                ctx.log(json!({"e": "ret", "kind": "closed", "text": false, "pay": []}));
                break;
            }
            Ok(Restion::Err(e)) => {
                ctx.log(json!({"e": "ret", "kind": "error", "err": format!("{:?}", e), "text": false, "pay": []}));
                break;
            }
            Err(_) => {
                ctx.log(json!({"e": "ret", "kind": "panic", "text": false, "pay": []}));
                break;
            }
        }
    }
    ctx.log(json!({"e": "drop"}));
    let _ = catch_unwind(AssertUnwindSafe(move || drop(ws)));
    ctx.done.store(true, SeqCst);
}

struct Server {
    port: u16,
    shared: Arc<Shared>,
}

const CONN_TIMEOUT_MS: u64 = 1500;
const LONG_GAP_US: u64 = 2_300_000;

fn start_server(threads: usize) -> Server {
    for _ in 0..20 {
        let port = {
            let l = TcpListener::bind("127.0.0.1:0").expect("bind");
            l.local_addr().unwrap().port()
        };
        // a connection timeout is configured, as a deployed app would have one: it bounds the wait for a request and must not
        // outlive the upgrade (a few random scripts pause for longer than it in the middle of a frame; added after the seeded
        // change `C11-r5-request-stream-timeout-...` - the timeout left on the upgraded socket - was missed)
        let app: App<Shared> = App::new_with_config(threads, Shared::default())
            .with_connection_timeout(Some(Duration::from_millis(CONN_TIMEOUT_MS)))
            .with_websocket_route("/ws", websocket_handler(ws_handler));
        let shared = app.get_state();
        let (tx, rx) = std::sync::mpsc::channel::<bool>();
        thread::spawn(move || {
            let r = app.run(("127.0.0.1", port));
            let _ = tx.send(r.is_ok());
        });
        // the listener is up when a connection is accepted
        let t0 = Instant::now();
        while t0.elapsed() < Duration::from_secs(5) {
            if let Ok(false) = rx.try_recv() {
                break;
            }
            if let Ok(s) = TcpStream::connect(("127.0.0.1", port)) {
                drop(s);
                // the port was free a moment ago, but another process may have taken it before `run` bound it: then the
                // connection above reached THAT process and `run` has failed (or is about to) - seen as 32 701 refused
                // connections (exit 2) when many checks ran at once
                thread::sleep(Duration::from_millis(30));
                match rx.try_recv() {
                    Err(std::sync::mpsc::TryRecvError::Empty) => return Server { port, shared },
                    _ => break,
                }
            }
            thread::sleep(Duration::from_millis(5));
        }
    }
    eprintln!("cannot start the server");
    std::process::exit(2);
}

// ------------------------------------------------------------------------------------------------
// reference client: reading side
struct Rd {
    s: TcpStream,
    buf: Vec<u8>,
    pos: usize,
    end: Option<&'static str>, // "eof" | "reset" | "timeout"
}

impl Rd {
    fn fill(&mut self) -> bool {
        if self.end.is_some() {
            return false;
        }
        if self.pos > 0 && self.pos == self.buf.len() {
            self.buf.clear();
            self.pos = 0;
        }
        let mut tmp = [0u8; 16384];
        loop {
            match self.s.read(&mut tmp) {
                Ok(0) => {
                    self.end = Some("eof");
                    return false;
                }
                Ok(n) => {
                    self.buf.extend_from_slice(&tmp[..n]);
                    return true;
                }
                Err(e) if e.kind() == std::io::ErrorKind::Interrupted => continue,
                Err(e) if e.kind() == std::io::ErrorKind::WouldBlock || e.kind() == std::io::ErrorKind::TimedOut => {
                    self.end = Some("timeout");
                    return false;
                }
                Err(_) => {
                    self.end = Some("reset");
                    return false;
                }
            }
        }
    }
    fn avail(&self) -> usize {
        self.buf.len() - self.pos
    }
    /// up to n bytes, fewer only at the end of the stream
    fn take(&mut self, n: usize) -> Vec<u8> {
        while self.avail() < n {
            if !self.fill() {
                break;
            }
        }
        let k = n.min(self.avail());
        let v = self.buf[self.pos..self.pos + k].to_vec();
        self.pos += k;
        v
    }
    /// the response head up to and including CRLF CRLF (None: the stream ended first)
    fn head(&mut self) -> (Vec<u8>, bool) {
        loop {
            if let Some(i) = find(&self.buf[self.pos..], b"\r\n\r\n") {
                let v = self.buf[self.pos..self.pos + i + 4].to_vec();
                self.pos += i + 4;
                return (v, true);
            }
            if !self.fill() {
                let v = self.buf[self.pos..].to_vec();
                self.pos = self.buf.len();
                return (v, false);
            }
        }
    }
}

fn find(h: &[u8], n: &[u8]) -> Option<usize> {
    h.windows(n.len()).position(|w| w == n)
}

const MAX_FRAMES: usize = 4096;
const CLAMP: u64 = 2_000_000_000; // TLC integers are 32-bit: absurd announced lengths are clamped in the log

/// Parse everything up to the end of the stream as RFC 6455 frames (5.2), reporting what is there.
fn read_frames(rd: &mut Rd) -> Vec<Value> {
    let mut out = vec![];
    loop {
        let h = rd.take(2);
        if h.is_empty() {
            break;
        }
        let b0 = h[0];
        let b1 = *h.get(1).unwrap_or(&0);
        let fin = b0 & 0x80 != 0;
        let rsv = (b0 >> 4) & 7;
        let op = opname(b0 & 0x0F);
        let mask = b1 & 0x80 != 0;
        let l7 = (b1 & 0x7F) as u64;
        let mut trunc = h.len() < 2;
        let (mut lf, mut len) = (7u64, l7);
        if !trunc && l7 == 126 {
            lf = 16;
            let e = rd.take(2);
            if e.len() < 2 {
                trunc = true;
                len = 0;
            } else {
                len = u16::from_be_bytes([e[0], e[1]]) as u64;
            }
        } else if !trunc && l7 == 127 {
            lf = 64;
            let e = rd.take(8);
            if e.len() < 8 {
                trunc = true;
                len = 0;
            } else {
                len = u64::from_be_bytes([e[0], e[1], e[2], e[3], e[4], e[5], e[6], e[7]]);
            }
        }
        let mut key = [0u8; 4];
        if !trunc && mask {
            let k = rd.take(4);
            if k.len() < 4 {
                trunc = true;
            } else {
                key.copy_from_slice(&k);
            }
        }
        let mut pay: Vec<u8> = vec![];
        if !trunc {
            let mut left = len;
            while left > 0 {
                let chunk = rd.take(left.min(65536) as usize);
                if chunk.is_empty() {
                    trunc = true;
                    break;
                }
                left -= chunk.len() as u64;
                if pay.len() < (8 << 20) {
                    pay.extend_from_slice(&chunk);
                }
            }
            if mask {
                for (i, b) in pay.iter_mut().enumerate() {
                    *b ^= key[i % 4];
                }
            }
        }
        out.push(json!({"fin": fin, "rsv": rsv, "op": op, "mask": mask, "lf": lf, "len": len.min(CLAMP),
                        "pay": rle_json(&pay), "trunc": trunc}));
        if trunc {
            break;
        }
        if out.len() >= MAX_FRAMES {
            // a byte stream that parses into thousands of frames is garbage (no script makes the server write that many):
            // record that, read the rest without keeping it
            let mut rest = 0u64;
            loop {
                let chunk = rd.take(65536);
                if chunk.is_empty() {
                    break;
                }
                rest += chunk.len() as u64;
            }
            out.push(json!({"fin": false, "rsv": 0, "op": "garbled", "mask": false, "lf": 7, "len": rest.min(CLAMP),
                            "pay": [], "trunc": true}));
            break;
        }
    }
    out
}

// ------------------------------------------------------------------------------------------------
// one connection
fn run_case(case: &Case, srv: &Server, rng: &mut Rng) -> Value {
    let stop_after = if !case.nb && case.end == End::Stay {
        Some(case.frames.iter().filter(|f| f.fin && matches!(f.op.as_str(), "text" | "binary" | "cont")).count())
    } else {
        None
    };
    let ctx = Arc::new(Ctx {
        nb: case.nb,
        echo: case.echo,
        stop_after,
        stop: AtomicBool::new(false),
        done: AtomicBool::new(false),
        nones: AtomicUsize::new(0),
        log: Mutex::new(vec![]),
        pre: case.pre.clone(),
        push: case.push.clone(),
        polled: AtomicBool::new(false),
        push_started: AtomicBool::new(false),
    });
    let mut mismatch: Vec<String> = vec![];
    let mut obs = json!({});
    let sock = match TcpStream::connect(("127.0.0.1", srv.port)) {
        Ok(s) => s,
        Err(e) => return json!({"c": case.idx, "fatal": format!("connect: {}", e)}),
    };
    let _ = sock.set_nodelay(true);
    // generous: these only end connections that do not end by themselves (the model says every generated one does)
    let _ = sock.set_read_timeout(Some(Duration::from_secs(45)));
    let _ = sock.set_write_timeout(Some(Duration::from_secs(45)));
    let local = sock.local_addr().unwrap();
    srv.shared.map.lock().unwrap().insert(local, ctx.clone());

    // opening handshake
    // (name of Upgrade, its token, name of Connection, its token, name of the key header) per spelling
    let (un, ut, cn, ct, kn) = match case.hsv.as_str() {
        "lower" => ("upgrade", "websocket", "connection", "Upgrade", "sec-websocket-key"),
        "upper" => ("UPGRADE", "websocket", "CONNECTION", "Upgrade", "SEC-WEBSOCKET-KEY"),
        "mixed" => ("uPgRaDe", "websocket", "cOnNeCtIoN", "Upgrade", "sEc-wEbSoCkEt-kEy"),
        "tokenUpper" => ("Upgrade", "WEBSOCKET", "Connection", "Upgrade", "Sec-WebSocket-Key"),
        "tokenMixed" => ("Upgrade", "WebSocket", "Connection", "Upgrade", "Sec-WebSocket-Key"),
        "connLower" => ("Upgrade", "websocket", "Connection", "upgrade", "Sec-WebSocket-Key"),
        _ => ("Upgrade", "websocket", "Connection", "Upgrade", "Sec-WebSocket-Key"),
    };
    let mut req = format!("GET /ws HTTP/1.1\r\nHost: localhost\r\n{}: {}\r\n{}: {}\r\n", un, ut, cn, ct);
    if let Some(k) = &case.key {
        req.push_str(&format!("{}: {}\r\n", kn, k));
    }
    req.push_str("Sec-WebSocket-Version: 13\r\n\r\n");
    let mut w = sock.try_clone().unwrap();
    let _ = w.write_all(req.as_bytes());
    let mut rd = Rd { s: sock.try_clone().unwrap(), buf: vec![], pos: 0, end: None };
    let (head, complete) = rd.head();
    let head_s = String::from_utf8_lossy(&head).to_string();
    let mut status = 0u64;
    let mut accept = String::new();
    if complete {
        let mut lines = head_s.split("\r\n");
        if let Some(sl) = lines.next() {
            status = sl.split(' ').nth(1).and_then(|x| x.parse().ok()).unwrap_or(0);
        }
        for l in lines {
            if let Some((n, v)) = l.split_once(':') {
                if n.trim().eq_ignore_ascii_case("sec-websocket-accept") {
                    accept = v.trim().to_string();
                }
            }
        }
    }
    let want = case.key.as_ref().map(|k| want_accept(k)).unwrap_or_default();
    // the handshake is complete on the server before the handler runs: its record goes first even if the
    // handler was quicker to log than this thread
    ctx.log.lock().unwrap().insert(0, json!({"e": "hs", "haskey": case.key.is_some(), "key": case.key.clone().unwrap_or_default(),
                   "hsv": case.hsv, "status": status, "accept": accept, "want": want}));

    let mut frames_out: Vec<Value> = vec![];
    let end;
    if status == 101 {
        // reading side: parse the server's stream until it ends
        let c2 = ctx.clone();
        let big_push = case.pre == "pollpush" && case.push.iter().map(|x| x.1).sum::<u64>() >= (1 << 20);
        let late_ms = case.late_ms;
        let reader = thread::spawn(move || {
            if late_ms > 0 {
                thread::sleep(Duration::from_millis(late_ms));
            }
            if big_push {
                // a client that is slow to read: start reading 150 ms after the handler began to write its large
                // message, so that the message cannot fit into the socket buffers
                let t = Instant::now();
                while !c2.push_started.load(SeqCst) && t.elapsed() < Duration::from_secs(40) {
                    thread::sleep(Duration::from_micros(200));
                }
                thread::sleep(Duration::from_millis(150));
            }
            let fr = read_frames(&mut rd);
            (fr, rd.end.unwrap_or("eof"))
        });
        // writing side; with a handler preamble the client holds its frames back until the handler's empty poll
        // (and push) is over, and a little longer, so that the next receive call really has to wait for them
        if case.pre != "none" {
            let t = Instant::now();
            while !ctx.polled.load(SeqCst) && !ctx.done.load(SeqCst) && t.elapsed() < Duration::from_secs(60) {
                thread::sleep(Duration::from_micros(200));
            }
            thread::sleep(Duration::from_millis(3));
        }
        let mut off = 0usize; // stream offset written so far
        let mut write_failed = false;
        let mut long_gap_done = false; // a pause longer than the connection timeout is taken once per script
        'frames: for f in &case.frames {
            if off >= case.sent {
                break;
            }
            let mask = [rng.byte(), rng.byte(), rng.byte(), rng.byte()];
            let bytes = encode_client_frame(f, if rng.chance(1, 8) { [0, 0, 0, 0] } else { mask });
            let mut cuts = f.cuts.clone();
            cuts.sort_unstable();
            cuts.dedup();
            ctx.log(json!({"e": "cframe", "op": f.op, "fin": f.fin, "pay": rle_json(&expand(&f.pay)), "cuts": cuts}));
            let mut bounds: Vec<usize> = cuts.iter().cloned().filter(|c| *c > 0 && *c < bytes.len()).collect();
            bounds.push(bytes.len());
            let mut from = 0usize;
            for (pi, b) in bounds.iter().enumerate() {
                if off >= case.sent {
                    break 'frames;
                }
                if pi > 0 {
                    if case.gap_us >= 1_000_000 {
                        if !long_gap_done { long_gap_done = true; thread::sleep(Duration::from_micros(case.gap_us)); }
                    } else if case.gap_us > 0 {
                        thread::sleep(Duration::from_micros(case.gap_us));
                    }
                    ctx.log(json!({"e": "cpiece", "upto": off + (*b - from)}));
                }
                if w.write_all(&bytes[from..*b]).is_err() {
                    write_failed = true;
                    break 'frames;
                }
                off += *b - from;
                from = *b;
            }
        }
        if case.end == End::Shut && !write_failed {
            ctx.log(json!({"e": "cshut"}));
            let _ = sock.shutdown(Shutdown::Write);
        }
        // everything written has arrived when the send queue is empty; only then may a polling handler stop
        let fd = sock.as_raw_fd();
        let t0 = Instant::now();
        while outq(fd) > 0 && t0.elapsed() < Duration::from_secs(60) && !ctx.done.load(SeqCst) {
            thread::sleep(Duration::from_micros(100));
        }
        ctx.stop.store(true, SeqCst);
        // wait for the end of the server's stream; a hang is ended by the reader's 45 s read timeout
        // (the model says every generated connection ends: the handler returns and the socket closes)
        let (fr, e) = reader.join().unwrap_or((vec![], "reset"));
        if e == "timeout" {
            mismatch.push("the connection did not end within 45 s".into());
            let _ = sock.shutdown(Shutdown::Both);
        }
        frames_out = fr;
        end = e;
        let t2 = Instant::now();
        while !ctx.done.load(SeqCst) && t2.elapsed() < Duration::from_secs(20) {
            thread::sleep(Duration::from_micros(300));
        }
        if write_failed {
            mismatch.push("client write failed".into());
        }
    } else {
        // not upgraded: what follows is HTTP (or nothing), not a frame stream; the client closes
        let _ = sock.shutdown(Shutdown::Both);
        end = "eof";
    }
    srv.shared.map.lock().unwrap().remove(&local);
    ctx.log(json!({"e": "out", "frames": frames_out.clone(), "end": end}));
    let ev = ctx.log.lock().unwrap().clone();

    // projection of the observation to the spec's variables
    let delivered: Vec<Value> = ev.iter().filter(|e| e["e"] == "ret" && e["kind"] == "msg")
        .map(|e| json!({"text": e["text"], "pay": e["pay"]})).collect();
    let closed = ev.iter().any(|e| e["e"] == "ret" && e["kind"] == "closed");
    let failed = ev.iter().any(|e| e["e"] == "ret" && e["kind"] == "error");
    let panicked = ev.iter().any(|e| e["e"] == "ret" && e["kind"] == "panic");
    obs["status"] = json!(status);
    obs["accept"] = json!(accept);
    obs["want"] = json!(want);
    obs["delivered"] = json!(delivered);
    obs["out"] = json!(frames_out);
    obs["closed"] = json!(closed);
    obs["failed"] = json!(failed);
    obs["end"] = json!(end);

    let hung = mismatch.iter().any(|m| m.contains("did not end within"));
    if let Some(exp0) = &case.exp {
        // the script's outcome must be (exactly) one of the outcomes the spec allows: one, except for letter-case
        // variants of the upgrade request, where `upgraded' and `not upgraded' are both allowed
        let mut best: Option<Vec<String>> = None;
        for exp in std::iter::once(exp0).chain(case.exp_alt.iter()) {
            let mut mm: Vec<String> = vec![];
            compare(exp, status, &accept, &want, &delivered, &frames_out, closed, failed, panicked, end, &mut mm);
            if best.as_ref().map(|b| mm.len() < b.len()).unwrap_or(true) {
                best = Some(mm);
            }
        }
        mismatch.extend(best.unwrap_or_default());
    }
    if hung {
        HANGS.fetch_add(1, SeqCst);
    }
    // a receive call was entered while only the first bytes of a frame were visible in the socket
    let partial = ev.iter().any(|e| e["e"] == "call" && (1..6).contains(&e["avail"].as_u64().unwrap_or(0)));
    let full = case.full || !mismatch.is_empty();
    let mut line = json!({"c": case.idx, "mode": if case.nb { "nonblocking" } else { "blocking" }, "echo": case.echo,
           "pre": case.pre, "push": rle_json(&expand(&case.push)),
           "mismatch": mismatch, "nones": ctx.nones.load(SeqCst), "partial": partial, "events": ev.len(),
           "hs": {"haskey": case.key.is_some(), "key": case.key.clone().unwrap_or_default(), "status": obs["status"],
                  "accept": obs["accept"], "want": obs["want"]}});
    if full {
        line["ev"] = json!(ev);
        line["obs"] = obs;
        line["case"] = case_json(case);
    }
    line
}

#[allow(clippy::too_many_arguments)]
fn compare(exp: &Value, status: u64, accept: &str, want: &str, delivered: &[Value], frames_out: &[Value], closed: bool,
           failed: bool, panicked: bool, end: &str, mm: &mut Vec<String>) {
        let exp_up = exp["status"].as_u64() == Some(101);
        if exp_up != (status == 101) {
            mm.push(format!("handshake status {} but the spec says {}", status, if exp_up { "101" } else { "not upgraded" }));
        }
        if exp_up && accept != want {
            mm.push(format!("Sec-WebSocket-Accept {:?}, wanted {:?}", accept, want));
        }
        if json!(delivered) != exp["delivered"] {
            mm.push(format!("delivered {} but the spec says {}", json!(delivered), exp["delivered"]));
        }
        let eo = exp["out"].as_array().cloned().unwrap_or_default();
        let same_out = eo.len() == frames_out.len() && eo.iter().zip(frames_out.iter()).all(|(e, o)| same_frame(e, o));
        if !same_out {
            mm.push(format!("server wrote {} but the spec says {}", json!(frames_out), json!(eo)));
        }
        if exp["closed"] != json!(closed) {
            mm.push(format!("reported closed = {} but the spec says {}", closed, exp["closed"]));
        }
        if exp["failed"] != json!(failed) {
            mm.push(format!("receive error = {} but the spec says {}", failed, exp["failed"]));
        }
        if panicked {
            mm.push("a receive call panicked".into());
        }
        if end != "eof" {
            mm.push(format!("the server's stream ended with {}", end));
        }
}

/// the script of a connection in the input format of `replay` (keys are concrete strings here)
fn case_json(c: &Case) -> Value {
    json!({"c": c.idx, "key": c.key.clone().unwrap_or_else(|| "<nokey>".into()),
           "mode": if c.nb { "nonblocking" } else { "blocking" }, "echo": c.echo,
           "frames": c.frames.iter().map(|f| json!({"op": f.op, "fin": f.fin, "pay": rle_json(&expand(&f.pay)), "cuts": f.cuts})).collect::<Vec<_>>(),
           "sent": c.sent, "end": match c.end { End::Close => "close", End::Shut => "shut", End::Stay => "stay" }, "gap": c.gap_us,
           "pre": c.pre, "push": rle_json(&expand(&c.push)), "hsv": c.hsv, "late": c.late_ms})
}

/// equality of a predicted and an observed server frame; the payload of a (well-formed) Close reply is
/// not prescribed by the property and is not compared
fn same_frame(e: &Value, o: &Value) -> bool {
    if e["op"] == "close" && o["op"] == "close" {
        let len = o["len"].as_u64().unwrap_or(0);
        return o["fin"] == e["fin"] && o["rsv"] == e["rsv"] && o["mask"] == e["mask"] && o["trunc"] == e["trunc"]
            && o["lf"] == 7 && len != 1 && len <= 125;
    }
    e == o
}

// ------------------------------------------------------------------------------------------------
fn parse_case(idx: usize, v: &Value) -> Case {
    let frames = v["frames"].as_array().cloned().unwrap_or_default().iter().map(|f| CFrame {
        op: f["op"].as_str().unwrap_or("text").to_string(),
        fin: f["fin"].as_bool().unwrap_or(true),
        pay: rle_from_json(&f["pay"]),
        cuts: f["cuts"].as_array().map(|a| a.iter().map(|x| x.as_u64().unwrap() as usize).collect()).unwrap_or_default(),
    }).collect();
    Case {
        idx,
        key: key_of_name(v["key"].as_str().unwrap_or("<nokey>")),
        nb: v["mode"] == "nonblocking",
        echo: v["echo"].as_bool().unwrap_or(false),
        frames,
        sent: v["sent"].as_u64().unwrap_or(0) as usize,
        end: match v["end"].as_str().unwrap_or("stay") {
            "close" => End::Close,
            "shut" => End::Shut,
            _ => End::Stay,
        },
        exp: if v["exp"].is_object() { Some(v["exp"].clone()) } else { None },
        gap_us: v["gap"].as_u64().unwrap_or(700),
        full: true,
        pre: v["pre"].as_str().unwrap_or("none").to_string(),
        push: rle_from_json(&v["push"]),
        hsv: v["hsv"].as_str().unwrap_or("canon").to_string(),
        late_ms: v["late"].as_u64().unwrap_or(0),
        exp_alt: v["exp_alt"].as_array().cloned().unwrap_or_default(),
    }
}

fn run_all(cases: Vec<Case>, conc: usize) {
    let srv = Arc::new(start_server(conc + 8));
    let queue = Arc::new(Mutex::new(cases.into_iter().rev().collect::<Vec<Case>>()));
    let seed = seed_from_env();
    let mut hs = vec![];
    for t in 0..conc {
        let q = queue.clone();
        let srv = srv.clone();
        hs.push(thread::spawn(move || loop {
            let c = match q.lock().unwrap().pop() {
                Some(c) => c,
                None => break,
            };
            if HANGS.load(SeqCst) >= 6 {
                // a tree on which connections hang: report the hangs found so far instead of waiting 20 s for each
                out_line(&json!({"c": c.idx, "skipped": true}));
                continue;
            }
            let mut rng = Rng::new(seed ^ ((c.idx as u64 + 1) * 0x9E37_79B9) ^ t as u64);
            // which scripts are in flight is known to the driver even if this process dies (a runaway allocation or
            // an abort inside the code under test): such a death is retried with the script alone
            out_line(&json!({"c": c.idx, "start": true, "case": if c.exp.is_none() { case_json(&c) } else { Value::Null }}));
            let mut line = run_case(&c, &srv, &mut rng);
            if let Some(mm) = line.get_mut("mismatch").and_then(|m| m.as_array_mut()) {
                for m in mm.iter_mut() {
                    if let Some(t) = m.as_str() {
                        if t.len() > 6000 {
                            let cut: String = t.chars().take(6000).collect();
                            *m = json!(format!("{} ... ({} characters)", cut, t.len()));
                        }
                    }
                }
            }
            out_line(&line);
        }));
    }
    for h in hs {
        let _ = h.join();
    }
}

// ------------------------------------------------------------------------------------------------
// random scripts (code -> spec direction)
fn rand_payload(rng: &mut Rng, n: usize, ascii: bool) -> Rle {
    let mut left = n;
    let mut out: Rle = vec![];
    while left > 0 {
        let k = if rng.chance(1, 3) { 1 } else { rng.range(1, left) };
        let k = if out.len() >= 5 { left } else { k };
        let mut b = if ascii { rng.range(32, 126) as u8 } else { rng.byte() };
        if let Some(l) = out.last() {
            if l.0 == b {
                b = if ascii { if b == 126 { 32 } else { b + 1 } } else { b.wrapping_add(1) };
            }
        }
        out.push((b, k as u64));
        left -= k;
    }
    out
}

fn rand_size(rng: &mut Rng, maxpay: usize) -> usize {
    let n = match rng.below(12) {
        0 => 0,
        1 | 2 | 3 => rng.range(1, 10),
        4 => 125,
        5 => 126,
        6 => rng.range(127, 1000),
        7 => 65535,
        8 => 65536,
        9 => rng.range(1000, 70 * 1024),
        10 => rng.range(65537, 70 * 1024),
        _ => rng.range(1, 200),
    };
    n.min(maxpay)
}

fn rand_cuts(rng: &mut Rng, n: usize) -> Vec<usize> {
    let e = if n < 126 { 0 } else if n < 65536 { 2 } else { 8 };
    let l = 6 + e + n;
    let mut c: Vec<usize> = match rng.below(9) {
        0 | 1 => vec![],
        2 => vec![1],
        3 => if e > 0 { vec![2 + rng.range(1, e - 1)] } else { vec![2] },
        4 => vec![2 + e + rng.range(1, 3)],
        5 => if n > 0 { vec![6 + e + rng.below(n)] } else { vec![6 + e - 1] },
        6 => if l <= 40 { (1..l).collect() } else { (1..6 + e + 1).chain(std::iter::once(l - 1)).collect() },
        7 => (0..rng.range(1, 4)).map(|_| rng.range(1, l - 1)).collect(),
        _ => vec![1, 2, 2 + e + 2, l - 1],
    };
    c.retain(|x| *x >= 1 && *x < l);
    c.sort_unstable();
    c.dedup();
    c
}

fn rand_key(rng: &mut Rng) -> Option<String> {
    let printable = |rng: &mut Rng, n: usize| -> String {
        let mut s: String = (0..n).map(|_| rng.range(33, 126) as u8 as char).collect();
        if n > 2 && rng.chance(1, 3) {
            let i = rng.range(1, n - 2);
            s.replace_range(i..i + 1, " ");
        }
        s
    };
    match rng.below(20) {
        0 => None,
        1 => Some(String::new()),
        16 | 17 | 18 => key_of_name(&format!("kLen{}", rng.range(0, 130))),
        19 => key_of_name(*rng.pick(&["kUni", "kUniEdge"])),
        2 => Some(printable(rng, 1)),
        3 | 4 | 5 | 6 => Some(b64(&rng.bytes(16))),
        7 => Some(printable(rng, 200)),
        8 => key_of_name("kUtf8"),
        9 => Some(printable(rng, 1000)),
        _ => {
            let n = rng.range(2, 60);
            Some(printable(rng, n))
        }
    }
}

fn rand_case(idx: usize, rng: &mut Rng, maxframes: usize, maxpay: usize) -> Case {
    let nb = rng.chance(1, 2);
    let nframes = rng.range(0, maxframes);
    let mut frames: Vec<CFrame> = vec![];
    let mut open = 0usize; // fragments of the open message so far
    let mut open_text = false;
    let mut closed = false;
    let want_close = rng.chance(2, 5);
    while frames.len() < nframes {
        let last = frames.len() + 1 == nframes;
        if last && want_close && open == 0 {
            let pay = if rng.chance(1, 2) { vec![] } else {
                let mut p: Rle = vec![(3, 1), (rng.range(232, 240) as u8, 1)];
                let n = rng.below(20);
                if n > 0 { p.extend(rand_payload(rng, n, true)); }
                p
            };
            frames.push(CFrame { op: "close".into(), fin: true, pay, cuts: vec![] });
            closed = true;
            break;
        }
        if rng.chance(1, 4) {
            let op = if rng.chance(2, 3) { "ping" } else { "pong" };
            let n = match rng.below(5) { 0 => 0, 1 => 125, _ => rng.range(1, 124) };
            let pay = rand_payload(rng, n, false);
            frames.push(CFrame { op: op.into(), fin: true, pay, cuts: vec![] });
            continue;
        }
        let n = rand_size(rng, maxpay);
        if open == 0 {
            open_text = rng.chance(1, 2);
            let fin = rng.chance(3, 5);
            frames.push(CFrame { op: if open_text { "text" } else { "binary" }.into(), fin, pay: rand_payload(rng, n, open_text), cuts: vec![] });
            open = if fin { 0 } else { 1 };
        } else {
            let fin = open >= 4 || rng.chance(1, 2);
            frames.push(CFrame { op: "cont".into(), fin, pay: rand_payload(rng, n, open_text), cuts: vec![] });
            open = if fin { 0 } else { open + 1 };
        }
    }
    for f in frames.iter_mut() {
        let n: usize = f.pay.iter().map(|x| x.1 as usize).sum();
        f.cuts = rand_cuts(rng, n);
    }
    let wire = |f: &CFrame| -> usize {
        let n: usize = f.pay.iter().map(|x| x.1 as usize).sum();
        6 + (if n < 126 { 0 } else if n < 65536 { 2 } else { 8 }) + n
    };
    let total: usize = frames.iter().map(wire).sum();
    let mut sent = total;
    let ends_with_message = frames.last().map(|f| f.fin && matches!(f.op.as_str(), "text" | "binary" | "cont")).unwrap_or(true);
    let end = if closed {
        End::Close
    } else if (if nb { open == 0 } else { ends_with_message }) && rng.chance(1, 2) {
        // the client stays connected and the handler returns by itself: only where the model says it can
        // (a blocking receive, or a message left open, would wait for more frames forever)
        End::Stay
    } else {
        // abrupt end of the client's stream, sometimes in the middle of the last frame (at one of its cuts)
        if rng.chance(1, 3) {
            if let Some(f) = frames.last() {
                if !f.cuts.is_empty() {
                    let c = *rng.pick(&f.cuts);
                    sent = total - wire(f) + c;
                }
            }
        }
        End::Shut
    };
    // one connection in five has a handler that mixes the calls (empty poll first, sometimes a push, rarely a large one)
    let (pre, push) = match rng.below(10) {
        0 => ("poll".to_string(), vec![]),
        1 => {
            let n = if rng.chance(1, 12) { rng.range(5 << 20, 7 << 20) } else { rng.range(0, 3000) };
            ("pollpush".to_string(), rand_payload(rng, n, false))
        }
        _ => ("none".to_string(), vec![]),
    };
    Case { idx, key: rand_key(rng), nb, echo: rng.chance(1, 2), frames, sent, end, exp: None,
           gap_us: if rng.chance(1, 30) { LONG_GAP_US } else { *rng.pick(&[0u64, 0, 200, 700, 1500]) }, full: true, pre, push,
           hsv: if rng.chance(1, 10) { rng.pick(&["lower", "upper", "mixed", "tokenUpper", "tokenMixed", "connLower"]).to_string() } else { "canon".to_string() },
           late_ms: 0, exp_alt: vec![] }
}

fn main() {
    quiet_panics();
    let a: Vec<String> = std::env::args().collect();
    // the independent accept computation must reproduce the example of RFC 6455 section 1.3
    if want_accept("dGhlIHNhbXBsZSBub25jZQ==") != "s3pPLMBiTxaQ9kYGzzhZRbK+xOo=" {
        eprintln!("harness self-test failed: SHA-1/Base64");
        std::process::exit(2);
    }
    match a.get(1).map(|s| s.as_str()) {
        Some("replay") => {
            let conc: usize = a.get(2).and_then(|x| x.parse().ok()).unwrap_or(16);
            // the event log is printed for connections with c % modulus == remainder (and for every mismatch)
            let modulus: usize = a.get(3).and_then(|x| x.parse().ok()).unwrap_or(1).max(1);
            let rem: usize = a.get(4).and_then(|x| x.parse().ok()).unwrap_or(0);
            let mut cases = vec![];
            for (i, line) in stdin_lines().enumerate() {
                if let Ok(v) = serde_json::from_str::<Value>(&line) {
                    let mut c = parse_case(v["c"].as_u64().map(|x| x as usize).unwrap_or(i + 1), &v);
                    c.full = c.idx % modulus == rem % modulus;
                    cases.push(c);
                }
            }
            run_all(cases, conc);
        }
        Some("random") => {
            let n: usize = a[2].parse().unwrap();
            let maxframes: usize = a[3].parse().unwrap();
            let maxpay: usize = a[4].parse().unwrap();
            let conc: usize = a.get(5).and_then(|x| x.parse().ok()).unwrap_or(16);
            let mut rng = Rng::from_env();
            let cases = (0..n).map(|i| rand_case(i + 1, &mut rng, maxframes, maxpay)).collect();
            run_all(cases, conc);
        }
        _ => {
            eprintln!("usage: wsendpoint replay <conc> | random <n> <maxframes> <maxpay> <conc>");
            std::process::exit(2)
        }
    }
}
