//! C17 conformance: humphrey_auth::AuthProvider (over the crate's own `Vec<User>` AuthDatabase) and the
//! `with_auth_route` wrapper against spec/auth/Auth.tla.
//!
//!   auth graph <pepper 0|1> <lifeDefault> <lifeRefresh> <lifeLong> <argon_budget> <walks> <walklen> [max_states]
//!        stdin : the complete state graph printed by TLC, one edge per line:  "E[s, a, t]"  (see MC_Auth.tla)
//!        method B: breadth-first over the spec states; every edge (s, a, res, t) is executed on a real
//!        provider put into the real state that was reached for s, the returned value is compared with
//!        `res` and the projection of the real database with `t`.  Then random walks along the graph
//!        without any restoring.
//!   auth trace <n> <maxlen> <lifeDefault> <lifeRefresh> <lifeLong> [threads]
//!        method C: random operation sequences on the real provider, logged as ndjson for Trace_Auth.tla.
//!   auth rerun <lifeDefault> <lifeRefresh> <lifeLong>
//!        stdin: operations in the log format (results ignored); executes them again and logs them (replay files)
//!   auth tokens <n> [pepper]
//!        issues n tokens through the public API and prints their hex digits for TokenShape.tla
//!   auth timing        : measures one create_user / verify (Argon2 cost) for the driver's budget
//!
//! Abstraction (the trusted part): real uid / token strings <-> small integers by first appearance;
//! spec clock = number of Ticks; a Tick subtracts UNIT seconds from every stored expiry (Session::valid
//! is `now < expiry`, so this equals advancing the clock by UNIT); stored expiry e projects to
//! clock + round((e - now) / UNIT).  UNIT is 1e6 s, so the real time a run takes never crosses a unit.
use hv::util::*;
use humphrey::app::ErrorHandler;
use humphrey::http::{Request, Response, StatusCode};
use humphrey::monitor::MonitorConfig;
use humphrey::stream::Stream;
use humphrey::{App, SubApp};
use humphrey_auth::app::{AuthApp, AuthState};
use humphrey_auth::config::AuthConfig;
use humphrey_auth::database::AuthDatabase;
use humphrey_auth::error::AuthError;
use humphrey_auth::session::Session;
use humphrey_auth::user::User;
use humphrey_auth::AuthProvider;
use serde_json::{json, Value};
use std::collections::{BTreeMap, HashMap, HashSet, VecDeque};
use std::io::Cursor;
use std::net::{TcpListener, TcpStream};
use std::panic::{catch_unwind, AssertUnwindSafe};
use std::sync::{Arc, Mutex, MutexGuard, OnceLock};
use std::time::{Duration, Instant, UNIX_EPOCH};

const UNIT: u64 = 1_000_000;
/// Auth.tla: Inf, the expiry of a session created with a "huge" lifetime
const INF: i64 = 1_000_000;
/// concretisations of the lifetime "huge" (seconds): powers of two around the integer-width boundaries, the largest
/// value that does not overflow `now + lifetime`, and u64::MAX (which does)
const HUGE: [u64; 6] = [1 << 31, 1 << 32, 1 << 53, 1 << 63, u64::MAX - (1 << 40), u64::MAX];
/// remaining lifetimes from here on project to Inf (2^31 s minus room for the Ticks of a run)
const INF_FROM: i128 = (1 << 31) - (1 << 28);

fn now() -> u64 {
    UNIX_EPOCH.elapsed().unwrap().as_secs()
}

// ------------------------------------------------------------------------------------------------
// The real system: AuthProvider over a shared Vec<User> (the crate's own AuthDatabase impl does the work)
// ------------------------------------------------------------------------------------------------
#[derive(Clone)]
struct Db(Arc<Mutex<Vec<User>>>);
impl Db {
    fn g(&self) -> MutexGuard<'_, Vec<User>> {
        self.0.lock().unwrap_or_else(|e| e.into_inner())
    }
}
impl AuthDatabase for Db {
    fn get_user_by_uid(&self, uid: impl AsRef<str>) -> Option<User> {
        self.g().get_user_by_uid(uid)
    }
    fn get_user_by_token(&self, token: impl AsRef<str>) -> Option<User> {
        self.g().get_user_by_token(token)
    }
    fn get_session_by_token(&self, token: impl AsRef<str>) -> Option<Session> {
        self.g().get_session_by_token(token)
    }
    fn update_user(&mut self, user: User) -> Result<(), AuthError> {
        self.g().update_user(user)
    }
    fn add_user(&mut self, user: User) -> Result<(), AuthError> {
        self.g().add_user(user)
    }
    fn remove_user(&mut self, uid: impl AsRef<str>) -> Result<(), AuthError> {
        self.g().remove_user(uid)
    }
}

struct St {
    auth: Mutex<AuthProvider<Db>>,
}
impl AuthState<Db> for St {
    fn auth_provider(&self) -> MutexGuard<'_, AuthProvider<Db>> {
        self.auth.lock().unwrap_or_else(|e| e.into_inner())
    }
}

/// The closure that `with_auth_route` registered, obtained from a real `App`: the app is run on a
/// loopback port with a custom connection handler whose only job is to hand over the default sub-app
/// (App keeps it private).  The handler takes the state as an argument, so one closure serves every world.
static SUBAPP: OnceLock<Arc<SubApp<St>>> = OnceLock::new();

fn stash(
    stream: Stream,
    _subapps: Arc<Vec<SubApp<St>>>,
    default_subapp: Arc<SubApp<St>>,
    _eh: Arc<ErrorHandler>,
    _state: Arc<St>,
    _m: MonitorConfig,
    _t: Option<Duration>,
) {
    let _ = SUBAPP.set(default_subapp);
    drop(stream);
}

fn obtain_route_handler() -> Result<(), String> {
    for _ in 0..10 {
        let port = {
            let l = TcpListener::bind("127.0.0.1:0").map_err(|e| e.to_string())?;
            l.local_addr().map_err(|e| e.to_string())?.port()
        };
        let st = St { auth: Mutex::new(AuthProvider::new(Db(Arc::new(Mutex::new(Vec::new()))))) };
        let app: App<St> = App::new_with_config(1, st)
            .with_auth_route("/auth", |_req: Request, _st: Arc<St>, uid: String| Response::new(StatusCode::OK, format!("HANDLER:{}", uid)))
            .with_custom_connection_handler(stash);
        std::thread::spawn(move || {
            let _ = app.run(("127.0.0.1", port));
        });
        let t0 = Instant::now();
        while t0.elapsed() < Duration::from_secs(3) {
            if SUBAPP.get().is_some() {
                return Ok(());
            }
            let _ = TcpStream::connect(("127.0.0.1", port));
            std::thread::sleep(Duration::from_millis(20));
        }
    }
    Err("could not obtain the with_auth_route handler from a running App on loopback".into())
}

// ------------------------------------------------------------------------------------------------
// World = real system + abstraction maps
// ------------------------------------------------------------------------------------------------
const PW_MAPS: &[[&str; 4]] = &[
    ["hunter2", "hunter3", "Hunter2", "hunter2 "],
    ["", " ", "\0", "  "],
    ["pässwörd-é😀", "pässwörd-e😀", "passwörd-é😀", "pässwörd-é"],
    ["abc", "abcd", "ab", "abC"],
    ["aaaaaaaaaaaaaaaaaaaaaaaaaaaaaaaaaaaaaaaaaaaaaaaaaaaaaaaaaaaaaaaaaaaaaaaaaaaaaaaaaaaaaaaaaaaaaaaaaaaaaaaaaaaaaaaaaaaaaaaaaaaaaaaaaaaaaaaaaaaaaaaaaaaaaaaa",
     "aaaaaaaaaaaaaaaaaaaaaaaaaaaaaaaaaaaaaaaaaaaaaaaaaaaaaaaaaaaaaaaaaaaaaaaaaaaaaaaaaaaaaaaaaaaaaaaaaaaaaaaaaaaaaaaaaaaaaaaaaaaaaaaaaaaaaaaaaaaaaaaaaaaaaaab",
     "aaaaaaaaaaaaaaaaaaaaaaaaaaaaaaaaaaaaaaaaaaaaaaaaaaaaaaaaaaaaaaaaaaaaaaaaaaaaaaaaaaaaaaaaaaaaaaaaaaaaaaaaaaaaaaaaaaaaaaaaaaaaaaaaaaaaaaaaaaaaaaaaaaaaaaa",
     "baaaaaaaaaaaaaaaaaaaaaaaaaaaaaaaaaaaaaaaaaaaaaaaaaaaaaaaaaaaaaaaaaaaaaaaaaaaaaaaaaaaaaaaaaaaaaaaaaaaaaaaaaaaaaaaaaaaaaaaaaaaaaaaaaaaaaaaaaaaaaaaaaaaaaaa"],
];

#[derive(Clone, Copy)]
struct Lives {
    default: u64,
    refresh: u64,
    long: u64,
}

struct World {
    db: Db,
    st: Arc<St>,
    uids: Vec<String>,
    toks: Vec<String>,
    clock: i64,
    pwmap: usize,
    lives: Lives,
    bad_format: Vec<String>,
    calls: u64,
    unk_tok_lens: HashSet<usize>, // lengths of the strings used as "unknown token" so far
    /// growth pass (VERIF_AUTH_LENIENT=1): "unknown" arguments are ONLY strings that differ from a real uid / token by
    /// case, white-space padding or Unicode look-alikes.  Whether such strings denote the same token (a tree may
    /// normalise its input) is not decided by the statement of C17, so they are kept out of the gating passes.
    lenient: bool,
    tok_cache: std::cell::RefCell<Option<(Vec<String>, bool, std::rc::Rc<(Vec<String>, usize)>)>>,
    uid_cache: std::cell::RefCell<Option<(Option<String>, std::rc::Rc<(Vec<String>, usize)>)>>,
}

/// how a stored expiry is kept in a snapshot: in whole units relative to the snapshot time (the sub-unit drift of
/// the real clock is dropped: restoring behaves as if the whole path had run within one second, so a session with
/// 0 units left has expiry == now exactly), or absolute for the never-expiring ones
#[derive(Clone)]
enum Rel {
    None,
    Units(i64),
    Abs(u64),
}

#[derive(Clone)]
struct Snap {
    users: Vec<(User, Rel)>,
    uids: Vec<String>,
    toks: Vec<String>,
    clock: i64,
}

/// What a call returned, in the vocabulary of the property: `res` is ok / true / false / err (any AuthError) /
/// 200 (the route's handler ran) / rej (any other response of the route) / panic; `detail` keeps what the statement
/// of C17 does not fix (which AuthError, which status code) and `note` a difference seen only in the stored fields.
#[derive(Clone, Debug)]
struct Obs {
    res: String,
    ruid: i64,
    rtok: i64,
    detail: String,
    note: String,
}

fn obs(res: &str, ruid: i64, rtok: i64) -> Obs {
    Obs { res: res.to_string(), ruid, rtok, detail: String::new(), note: String::new() }
}

/// the spec's result names in the vocabulary above
fn norm_exp(res: &str) -> &str {
    match res {
        "UserNotFound" | "InvalidToken" | "SessionAlreadyExists" => "err",
        "401" => "rej",
        r => r,
    }
}

enum Agree {
    Yes,
    /// differs only in something the statement of C17 leaves open (reported as SPEC-DRIFT, never a violation)
    Drift(String),
    No(String),
}

/// FALSE-ALARM AUDIT: what gates is what the statement demands - whether a password verifies, whether a token
/// authenticates and whom, whether a session / refresh is granted or refused, that uids and tokens are fresh.
/// Not demanded and therefore only drift: WHICH AuthError a refusal carries, WHICH status a refused route request
/// gets, what `exists` says (not an operation of the property), what remove_user answers for a uid that is not there.
fn agree(got: &Obs, exp: &Obs, a: &Act) -> Agree {
    let same = got.res == norm_exp(&exp.res) && got.ruid == exp.ruid && got.rtok == exp.rtok;
    let free = a.op == "exists" || (a.op == "remove_user" && exp.res == "UserNotFound");
    if !same {
        let d = format!("returned {} {} (uid {}, token {}), spec expects {} (uid {}, token {})", got.res, got.detail, got.ruid, got.rtok, exp.res, exp.ruid, exp.rtok);
        return if free && got.res != "panic" { Agree::Drift(d) } else { Agree::No(d) };
    }
    if (got.res == "err" || got.res == "rej") && got.detail != exp.res {
        return Agree::Drift(format!("{} refused with {}, the code model says {}", a.op, got.detail, exp.res));
    }
    if !got.note.is_empty() {
        return Agree::Drift(got.note.clone());
    }
    Agree::Yes
}

#[derive(Clone, Debug)]
struct Act {
    op: String,
    u: i64,
    pw: i64,
    life: String,
    tok: i64,
    ck: String,
}

/// a = [op, u, pw, life, tok, ck, res, ruid, rtok]  (ARec in MC_Auth.tla)
fn act_of(v: &Value) -> Act {
    Act {
        op: v[0].as_str().unwrap_or("").to_string(),
        u: v[1].as_i64().unwrap_or(0),
        pw: v[2].as_i64().unwrap_or(0),
        life: v[3].as_str().unwrap_or("").to_string(),
        tok: v[4].as_i64().unwrap_or(0),
        ck: v[5].as_str().unwrap_or("").to_string(),
    }
}

fn act_json(v: &Value) -> Value {
    json!({"op": v[0], "u": v[1], "pw": v[2], "life": v[3], "tok": v[4], "cookie": v[5], "expected": {"res": v[6], "ruid": v[7], "rtok": v[8]}})
}

fn is_hex64(s: &str) -> bool {
    s.len() == 64 && s.bytes().all(|b| b.is_ascii_digit() || (b'a'..=b'f').contains(&b))
}

impl World {
    fn new(pepper: bool, pwmap: usize, lives: Lives) -> World {
        let db = Db(Arc::new(Mutex::new(Vec::new())));
        let mut cfg = AuthConfig::default()
            .with_default_lifetime(lives.default * UNIT)
            .with_default_refresh_lifetime(lives.refresh * UNIT);
        if pepper {
            cfg = cfg.with_pepper(b"verif-pepper-\xff\x00\x01");
        }
        let prov = AuthProvider::new(db.clone()).with_config(cfg);
        World {
            db,
            st: Arc::new(St { auth: Mutex::new(prov) }),
            uids: vec![],
            toks: vec![],
            clock: 0,
            pwmap,
            lives,
            bad_format: vec![],
            calls: 0,
            unk_tok_lens: HashSet::new(),
            lenient: std::env::var("VERIF_AUTH_LENIENT").map(|v| v == "1").unwrap_or(false),
            tok_cache: Default::default(),
            uid_cache: Default::default(),
        }
    }

    fn snapshot(&self) -> Snap {
        let n = now() as i128;
        Snap {
            users: self
                .db
                .g()
                .iter()
                .map(|u| {
                    let rel = match &u.session {
                        None => Rel::None,
                        Some(s) => {
                            let d = s.expiry as i128 - n;
                            if d >= INF_FROM { Rel::Abs(s.expiry) } else { Rel::Units((d + (UNIT as i128) / 2).div_euclid(UNIT as i128) as i64) }
                        }
                    };
                    (u.clone(), rel)
                })
                .collect(),
            uids: self.uids.clone(),
            toks: self.toks.clone(),
            clock: self.clock,
        }
    }

    fn restore(&mut self, s: &Snap) {
        let n = now() as i64;
        let mut v = self.db.g();
        v.clear();
        for (u, rel) in &s.users {
            let mut u = u.clone();
            if let Some(sess) = u.session.as_mut() {
                match rel {
                    Rel::Units(k) => sess.expiry = (n + k * UNIT as i64) as u64,
                    Rel::Abs(e) => sess.expiry = *e,
                    Rel::None => {}
                }
            }
            v.push(u);
        }
        drop(v);
        self.uids = s.uids.clone();
        self.toks = s.toks.clone();
        self.clock = s.clock;
    }

    fn uid_index(&self, s: &str) -> i64 {
        self.uids.iter().position(|x| x == s).map(|i| i as i64 + 1).unwrap_or(-1)
    }
    fn tok_index(&self, s: &str) -> i64 {
        self.toks.iter().position(|x| x == s).map(|i| i as i64 + 1).unwrap_or(-1)
    }

    /// projection of the real database: (uid, tok, exp) per stored user, in database order
    fn project(&self) -> Vec<(i64, i64, i64)> {
        let n = now() as i64;
        self.db
            .g()
            .iter()
            .map(|u| {
                let ui = self.uid_index(&u.uid);
                match &u.session {
                    None => (ui, 0, 0),
                    Some(s) => {
                        let d = s.expiry as i128 - n as i128;
                        if d >= INF_FROM {
                            (ui, self.tok_index(&s.token), INF)
                        } else {
                            let k = (d + (UNIT as i128) / 2).div_euclid(UNIT as i128) as i64;
                            (ui, self.tok_index(&s.token), self.clock + k)
                        }
                    }
                }
            })
            .collect()
    }

    /// strings standing for "a uid that was never handed out": (list, number of leading entries every edge tries;
    /// the rest - every proper prefix - is tried in rotation)
    fn unknown_uids(&self) -> std::rc::Rc<(Vec<String>, usize)> {
        let first = self.db.g().first().map(|u| u.uid.clone());
        if let Some((k, r)) = self.uid_cache.borrow().as_ref() {
            if *k == first {
                return r.clone();
            }
        }
        let r = std::rc::Rc::new(self.unknown_uids_build(first.clone()));
        *self.uid_cache.borrow_mut() = Some((first, r.clone()));
        r
    }

    fn unknown_uids_build(&self, first: Option<String>) -> (Vec<String>, usize) {
        if self.lenient {
            let mut v = vec![];
            if let Some(x) = first {
                let up = x.to_uppercase();
                if up != x {
                    v.push(up);
                }
                v.push(format!("{} ", x));
                v.push(format!(" {}", x));
                v.push(format!("{}\u{a0}", x));
                v.push(x.replacen('-', "\u{2010}", 1));
            }
            if v.is_empty() {
                v.push("".to_string());
            }
            let n = v.len();
            return (v, n);
        }
        let mut v = vec!["".to_string(), "00000000-0000-4000-8000-000000000000".to_string(), "*".to_string(), "-".to_string()];
        let mut rot = vec![];
        if let Some(x) = first {
            v.push(x[..x.len() - 1].to_string());
            v.push(x[1..].to_string());
            v.push(format!("{}0", x));
            v.push(format!("0{}", x));
            for l in 1..x.len() - 1 {
                rot.push(x[..l].to_string());
            }
        }
        let base = v.len();
        v.extend(rot);
        (v, base)
    }

    /// strings standing for "a token that was never issued": (list, number of leading entries every edge tries; the
    /// rest - every proper prefix and suffix of every stored token - is tried in rotation).  `cookie`: usable as a
    /// cookie value (Request::get_cookies trims values with the Unicode-aware str::trim, which is the request
    /// parser's business, so white-space padded variants are left out there)
    fn unknown_toks(&self, cookie: bool) -> std::rc::Rc<(Vec<String>, usize)> {
        let stored: Vec<String> = self.db.g().iter().filter_map(|u| u.session.as_ref().map(|s| s.token.clone())).collect();
        if let Some((k, c, r)) = self.tok_cache.borrow().as_ref() {
            if *c == cookie && *k == stored {
                return r.clone();
            }
        }
        let r = std::rc::Rc::new(self.unknown_toks_build(&stored, cookie));
        *self.tok_cache.borrow_mut() = Some((stored, cookie, r.clone()));
        r
    }

    fn unknown_toks_build(&self, stored: &[String], cookie: bool) -> (Vec<String>, usize) {
        if self.lenient {
            // same token up to case, padding, Unicode look-alike digits
            let mut v = vec![];
            for x in stored {
                if x.len() < 3 || !x.is_ascii() {
                    continue;
                }
                let up = x.to_uppercase();
                if up != *x {
                    v.push(up);
                    if let Some(i) = x.find(|c: char| c.is_ascii_lowercase()) {
                        let mut m = x.clone();
                        m.replace_range(i..i + 1, &x[i..i + 1].to_uppercase());
                        v.push(m);
                    }
                }
                let low = x.to_lowercase();
                if low != *x {
                    v.push(low);
                }
                if let Some(i) = x.find(|c: char| c.is_ascii_digit()) {
                    let d = x.as_bytes()[i] - b'0';
                    let mut m = x.clone();
                    m.replace_range(i..i + 1, &char::from_u32(0xFF10 + d as u32).unwrap().to_string());
                    v.push(m);
                }
                if !cookie {
                    v.push(format!("{} ", x));
                    v.push(format!(" {}", x));
                    v.push(format!("{}\n", x));
                    v.push(format!("\u{a0}{}", x));
                    v.push(format!("{}\u{2028}", x));
                }
            }
            v.retain(|s| !self.toks.contains(s));
            if v.is_empty() {
                v.push("".to_string());
            }
            let n = v.len();
            return (v, n);
        }
        // gating passes: strings that cannot denote an issued token under any normalisation
        let mut v = vec!["".to_string(), "0".repeat(64)];
        let mut rot = vec!["g".repeat(64), "*".to_string(), "0".to_string()];
        for x in stored {
            if x.len() < 3 || !x.is_ascii() {
                continue;
            }
            v.push(x[..x.len() - 1].to_string());
            v.push(x[1..].to_string());
            v.push(format!("{}0", x));
            rot.push(format!("0{}", x));
            if !cookie {
                rot.push(format!("{}\0", x));
            }
            for l in 1..x.len() - 1 {
                rot.push(x[..l].to_string());
                rot.push(x[x.len() - l..].to_string());
            }
        }
        v.retain(|s| !self.toks.contains(s));
        rot.retain(|s| !self.toks.contains(s));
        let base = v.len();
        v.extend(rot);
        (v, base)
    }

    fn uid_str(&self, u: i64) -> String {
        self.uids.get((u - 1) as usize).cloned().unwrap_or_else(|| "<unmapped-uid>".into())
    }
    fn tok_str(&self, t: i64) -> String {
        self.toks.get((t - 1) as usize).cloned().unwrap_or_else(|| "<unmapped-token>".into())
    }
    fn pw_str(&self, pw: i64) -> &'static str {
        PW_MAPS[self.pwmap % PW_MAPS.len()][((pw - 1).max(0) as usize) % 4]
    }

    fn pw_fam(fam: usize, pw: i64) -> &'static str {
        PW_MAPS[fam % PW_MAPS.len()][((pw - 1).max(0) as usize) % 4]
    }

    /// verify on a uid that is not in the database does not reach Argon2: such calls are tried with every password family
    fn verify_is_cheap(&self, a: &Act) -> bool {
        a.op == "verify" && (a.u == 0 || !self.db.g().iter().any(|x| x.uid == self.uid_str(a.u)))
    }

    /// (number of concretisations of this call, how many of them every graph edge tries)
    fn variants2(&self, a: &Act) -> (usize, usize) {
        let fams = PW_MAPS.len();
        match a.op.as_str() {
            "verify" if a.u == 0 => { let r = self.unknown_uids(); (r.0.len() * fams, r.1 * fams) }
            "verify" if self.verify_is_cheap(a) => (fams, fams),
            "create_session" if a.life == "huge" => (HUGE.len(), 0),
            "remove_user" | "exists" | "create_session" | "invalidate_user_session" if a.u == 0 => { let r = self.unknown_uids(); (r.0.len(), r.1) }
            "refresh_session" | "invalidate_session" | "get_uid_by_token" if a.tok == 0 => { let r = self.unknown_toks(false); (r.0.len(), r.1) }
            "auth_route" => match a.ck.as_str() {
                "none" => (2, 2),
                "wrongname" => (4, 4),
                _ if a.tok == 0 => { let r = self.unknown_toks(true); (r.0.len(), r.1) }
                _ => (1, 1),
            },
            _ => (1, 1),
        }
    }

    fn variants(&self, a: &Act) -> usize {
        self.variants2(a).0
    }

    /// the concretisations a graph edge executes: all the "always" ones and four of the rotating ones (`counter`
    /// = running edge number, so that over a run every prefix / suffix length is used many times); a state-changing
    /// call (huge lifetime) gets exactly one
    fn edge_variants(&self, a: &Act, counter: usize) -> Vec<usize> {
        let (n, b) = self.variants2(a);
        if a.op == "create_session" && a.life == "huge" {
            return vec![counter % n];
        }
        let fams = PW_MAPS.len();
        if a.op == "verify" && a.u == 0 {
            // index = uid variant * families + family: every "always" uid with one family (rotating), 4 rotating uids
            let (nu, bu) = (n / fams, b / fams);
            let mut v: Vec<usize> = (0..bu).map(|i| i * fams + (counter + i) % fams).collect();
            for j in 0..4 {
                if nu > bu {
                    v.push((bu + (counter * 4 + j) * 37 % (nu - bu)) * fams + (counter + j) % fams);
                }
            }
            return v;
        }
        let mut v: Vec<usize> = (0..b).collect();
        if n > b {
            for j in 0..6 {
                v.push(b + (counter * 6 + j) * 37 % (n - b));
            }
        }
        v
    }

    fn err(e: AuthError) -> String {
        format!("err:{:?}", e)
    }

    /// Executes one operation on the real system (variant selects the concrete string for argument 0).
    fn apply(&mut self, a: &Act, variant: usize) -> (Obs, String) {
        self.calls += 1;
        let cheap_verify = self.verify_is_cheap(a);
        let uid = if a.u == 0 {
            let r = self.unknown_uids();
            let i = if a.op == "verify" { variant / PW_MAPS.len() } else { variant };
            r.0[i % r.0.len()].clone()
        } else {
            self.uid_str(a.u)
        };
        let tok = if a.tok == 0 && matches!(a.op.as_str(), "refresh_session" | "invalidate_session" | "get_uid_by_token" | "auth_route") {
            let r = self.unknown_toks(a.op == "auth_route");
            let t = r.0[variant % r.0.len()].clone();
            self.unk_tok_lens.insert(t.chars().count());
            t
        } else if a.tok == 0 {
            String::new()
        } else {
            self.tok_str(a.tok)
        };
        let st = self.st.clone();
        let lives = self.lives;
        let pw = if cheap_verify { Self::pw_fam(variant % PW_MAPS.len(), a.pw).to_string() } else { self.pw_str(a.pw).to_string() };
        let life_secs: u64 = match a.life.as_str() {
            "zero" => 0,
            "default" => lives.default * UNIT,
            "long" => lives.long * UNIT,
            "huge" => HUGE[variant % HUGE.len()],
            _ => 0,
        };
        let n0 = now();
        let op = a.op.clone();
        let life = a.life.clone();
        let ck = a.ck.clone();
        let lenient = self.lenient;
        let mut concrete = String::new();
        let r = catch_unwind(AssertUnwindSafe(|| -> (String, Option<String>, Option<String>) {
            // (res, returned uid string, returned token string)
            match op.as_str() {
                "create_user" => match st.auth_provider().create_user(&pw) {
                    Ok(u) => ("ok".into(), Some(u), None),
                    Err(e) => (Self::err(e), None, None),
                },
                "remove_user" => match st.auth_provider().remove_user(&uid) {
                    Ok(()) => ("ok".into(), None, None),
                    Err(e) => (Self::err(e), None, None),
                },
                "verify" => (if st.auth_provider().verify(&uid, &pw) { "true" } else { "false" }.into(), None, None),
                "exists" => (if st.auth_provider().exists(&uid) { "true" } else { "false" }.into(), None, None),
                "create_session" => {
                    let r = match life.as_str() {
                        "default" => st.auth_provider().create_session(&uid),
                        "zero" => st.auth_provider().create_session_with_lifetime(&uid, 0),
                        _ => st.auth_provider().create_session_with_lifetime(&uid, life_secs),
                    };
                    match r {
                        Ok(t) => ("ok".into(), None, Some(t)),
                        Err(e) => (Self::err(e), None, None),
                    }
                }
                "refresh_session" => match st.auth_provider().refresh_session(&tok) {
                    Ok(()) => ("ok".into(), None, None),
                    Err(e) => (Self::err(e), None, None),
                },
                "invalidate_session" => {
                    st.auth_provider().invalidate_session(&tok);
                    ("ok".into(), None, None)
                }
                "invalidate_user_session" => {
                    st.auth_provider().invalidate_user_session(&uid);
                    ("ok".into(), None, None)
                }
                "get_uid_by_token" => match st.auth_provider().get_uid_by_token(&tok) {
                    Ok(u) => ("ok".into(), Some(u), None),
                    Err(e) => (Self::err(e), None, None),
                },
                "auth_route" => {
                    let header = match ck.as_str() {
                        "none" => if variant % 2 == 0 { String::new() } else { "Cookie: a=b; theme=dark\r\n".to_string() },
                        "tok" => format!("Cookie: HumphreyToken={}\r\n", tok),
                        "among" => format!("Cookie: a=b; HumphreyToken={}; theme=dark\r\n", tok),
                        _ if lenient => match variant % 4 {
                            // cookie names that differ from HumphreyToken in case only: whether names are case-sensitive is
                            // not part of C17 (growth pass, drift only)
                            0 => format!("Cookie: humphreytoken={}\r\n", tok),
                            1 => format!("Cookie: HUMPHREYTOKEN={}\r\n", tok),
                            2 => format!("Cookie: Humphreytoken={}\r\n", tok),
                            _ => format!("Cookie: humphreyToken={}\r\n", tok),
                        },
                        _ => match variant % 4 {
                            0 => format!("Cookie: Token={}\r\n", tok),
                            1 => format!("Cookie: HumphreyToke={}\r\n", tok),
                            2 => format!("Cookie: HumphreyToken2={}; XHumphreyToken={}\r\n", tok, tok),
                            _ => format!("X-Cookie: HumphreyToken={}\r\n", tok),
                        },
                    };
                    let raw = format!("GET /auth HTTP/1.1\r\nHost: localhost\r\n{}\r\n", header);
                    let req = match Request::from_stream(&mut Cursor::new(raw.into_bytes()), "127.0.0.1:4321".parse().unwrap()) {
                        Ok(r) => r,
                        Err(e) => return (format!("request-parse-error:{:?}", e), None, None),
                    };
                    let sub = SUBAPP.get().expect("route handler");
                    let rh = sub.routes.iter().find(|r| r.route == "/auth").expect("/auth route");
                    let resp = rh.handler.serve(req, st.clone());
                    // the handler registered by the harness answers "HANDLER:<uid>"; anything else is the wrapper refusing
                    let code: u16 = resp.status_code.clone().into();
                    let body = String::from_utf8_lossy(&resp.body).to_string();
                    match body.strip_prefix("HANDLER:") {
                        Some(u) => ("200".into(), Some(u.to_string()), None),
                        None => (format!("rej:{}", code), None, None),
                    }
                }
                other => (format!("harness-unknown-op:{}", other), None, None),
            }
        }));
        match a.op.as_str() {
            "remove_user" | "verify" | "exists" | "create_session" | "invalidate_user_session" => concrete = format!("uid={:?}", uid),
            "refresh_session" | "invalidate_session" | "get_uid_by_token" | "auth_route" => concrete = format!("token={:?} variant={}", tok, variant),
            _ => {}
        }
        if a.op == "verify" || a.op == "create_user" {
            concrete += &format!(" password={:?}", pw);
        }
        let n1 = now();
        let (res0, ru, rt) = match r {
            Ok(x) => x,
            Err(_) => ("panic".to_string(), None, None),
        };
        // res = class, detail = what the statement leaves open (error kind, status code)
        let (mut res, detail) = match res0.split_once(':') {
            Some((c, d)) => (c.to_string(), d.to_string()),
            None => (res0, String::new()),
        };
        // Expiry, judged in two levels.  The stored field should be now + lifetime for a `now` between the two clock reads
        // around the call (saturating).  The field is not part of the statement; what the statement demands is that the token
        // authenticates "only until it expires".  So when the field is off, the harness asks the API: it shifts the stored
        // expiry back by exactly the demanded lifetime and calls get_uid_by_token - a token that still authenticates then
        // OUTLIVES its lifetime (violation); shifted to 1000 s before the demanded end it must still authenticate, otherwise
        // it expires EARLY (violation).  Time only moves forward, so neither verdict depends on the load of the machine.
        // A field that is off by less than that is reported as drift.
        let mut note = String::new();
        if res == "ok" && (a.op == "create_session" || a.op == "refresh_session") {
            let (tokstr, l) = if a.op == "create_session" { (rt.clone().unwrap_or_default(), life_secs) } else { (tok.clone(), lives.refresh * UNIT) };
            let e = self.db.g().iter().find_map(|u| u.session.as_ref().filter(|s| s.token == tokstr).map(|s| s.expiry));
            let (lo, hi) = (n0.saturating_add(l), n1.saturating_add(l));
            match e {
                Some(e) if e >= lo && e <= hi => {}
                Some(e) if l < (1u64 << 31) => {
                    let set = |w: &World, v: u64| {
                        for u in w.db.g().iter_mut() {
                            if let Some(s) = u.session.as_mut() {
                                if s.token == tokstr { s.expiry = v; }
                            }
                        }
                    };
                    let auth = |w: &World| catch_unwind(AssertUnwindSafe(|| w.st.auth_provider().get_uid_by_token(&tokstr).is_ok())).unwrap_or(false);
                    set(self, e.saturating_sub(l).saturating_sub(1));     // the demanded lifetime (+ 1 s for an implementation that rounds the clock up) has passed
                    let outlives = auth(self);
                    set(self, e.saturating_sub(l.saturating_sub(1000)));  // 1000 s of the demanded lifetime are left
                    let early = l > 2000 && !auth(self);
                    set(self, e);
                    if outlives {
                        res = "ok!outlives-lifetime".to_string();
                    } else if early {
                        res = "ok!expires-early".to_string();
                    }
                    note = format!("stored expiry {} outside the demanded {}..={} (lifetime {} s)", e, lo, hi, l);
                }
                other => note = format!("stored expiry {:?} outside the demanded {}..={} (lifetime {} s)", other, lo, hi, l),
            }
        }
        if a.op == "create_session" {
            concrete += &format!(" lifetime={}s", life_secs);
        }
        let mut o = Obs { res, ruid: 0, rtok: 0, detail, note };
        if let Some(u) = ru {
            if a.op == "create_user" {
                // a repeated uid maps to the old number (and is thereby visible as a mismatch)
                let i = self.uid_index(&u);
                if i > 0 {
                    o.ruid = i;
                } else {
                    self.uids.push(u);
                    o.ruid = self.uids.len() as i64;
                }
            } else {
                o.ruid = self.uid_index(&u);
            }
        }
        if let Some(t) = rt {
            if !is_hex64(&t) {
                self.bad_format.push(t.clone());
            }
            let i = self.tok_index(&t);
            if i > 0 {
                o.rtok = i;
            } else {
                self.toks.push(t);
                o.rtok = self.toks.len() as i64;
            }
        }
        (o, concrete)
    }

    fn tick(&mut self) {
        for u in self.db.g().iter_mut() {
            if let Some(s) = u.session.as_mut() {
                s.expiry = s.expiry.saturating_sub(UNIT);
            }
        }
        self.clock += 1;
    }
}

// ------------------------------------------------------------------------------------------------
// graph replay
// ------------------------------------------------------------------------------------------------
struct Edge {
    a: Act,
    exp: Obs,
    t: usize, // state index
    raw_a: Value,
}

struct SpecState {
    c: i64,
    nu: usize,
    nt: usize,
    us: Vec<(i64, i64, i64)>, // pw, tok, exp per uid slot
}

/// s = [clock, nu, nt, [pw,tok,exp] per uid slot]  (SRec in MC_Auth.tla)
fn parse_state(v: &Value) -> SpecState {
    let a = v.as_array().unwrap();
    SpecState {
        c: a[0].as_i64().unwrap(),
        nu: a[1].as_u64().unwrap() as usize,
        nt: a[2].as_u64().unwrap() as usize,
        us: a[3..].iter().map(|x| (x[0].as_i64().unwrap(), x[1].as_i64().unwrap(), x[2].as_i64().unwrap())).collect(),
    }
}

/// compares the projected real state with the spec state; returns a description of the difference
fn diff_state(w: &World, t: &SpecState) -> Option<String> {
    let proj = w.project();
    let mut exp: Vec<(i64, i64, i64)> = vec![];
    for (i, (pw, tok, e)) in t.us.iter().enumerate() {
        if *pw != 0 {
            exp.push((i as i64 + 1, *tok, *e));
        }
    }
    if proj != exp {
        return Some(format!("database projects to (uid,tok,exp) {:?}, spec state has {:?}", proj, exp));
    }
    if w.clock != t.c {
        return Some(format!("clock {} vs {}", w.clock, t.c));
    }
    if w.uids.len() != t.nu || w.toks.len() != t.nt {
        return Some(format!("handed out {} uids / {} tokens, spec {} / {}", w.uids.len(), w.toks.len(), t.nu, t.nt));
    }
    None
}

/// After a call whose RESULT was right but which left the database in a state the code model does not predict (a stored
/// expiry, a slot cleared lazily, another order of the users ...): the stored fields are not part of the statement, so
/// this alone is only drift.  Whether it MATTERS is asked through the API: from the real state the harness follows the
/// spec's graph from `t` - at every clock value up to the end of the model's horizon every get_uid_by_token / refresh
/// refusal / create_session refusal of the spec state is compared (read-only calls and refusals only), then Tick.
/// Returns the first call whose result the statement does not allow, with the calls that led there.
fn tick_probe(w: &mut World, out: &[Vec<Edge>], t: usize, pepper: bool) -> Option<(String, Vec<Value>)> {
    let mut cur = t;
    let mut ops: Vec<Value> = vec![];
    for _ in 0..12 {
        for pe in &out[cur] {
            let readonly = pe.t == cur && pe.a.tok != 0 && matches!(pe.a.op.as_str(), "get_uid_by_token" | "auth_route");
            let refusal = pe.t == cur && norm_exp(&pe.exp.res) == "err" && matches!(pe.a.op.as_str(), "refresh_session" | "create_session") && (pe.a.tok != 0 || pe.a.u != 0);
            if !(readonly || refusal) || (pe.a.op == "auth_route" && pe.a.ck != "tok") {
                continue;
            }
            let (got, _) = w.apply(&pe.a, 0);
            ops.push(op_rec(&pe.a, 0, pepper));
            if let Agree::No(d) = agree(&got, &pe.exp, &pe.a) {
                return Some((format!("(after the unpredicted database state) {} {:?}: {}", pe.a.op, (pe.a.u, pe.a.tok), d), ops));
            }
            ops.pop();
        }
        match out[cur].iter().find(|pe| pe.a.op == "tick") {
            Some(te) => {
                w.tick();
                ops.push(op_rec(&te.a, 0, pepper));
                cur = te.t;
            }
            None => break,
        }
    }
    None
}

/// an edge counts as non-trivial when it changes the observable state or gives a positive answer
/// (verify/exists true, 200, Ok(uid), refresh Ok); the unit-returning calls on dead arguments do not count
fn nontrivial(e: &Edge, si: usize) -> bool {
    e.t != si
        || matches!(e.exp.res.as_str(), "true" | "200")
        || (e.exp.res == "ok" && matches!(e.a.op.as_str(), "get_uid_by_token" | "refresh_session"))
}

/// lifecycle classes of an edge (measured, required by the driver): calls exactly at the expiry second, a new session
/// over one that expired by itself, a refresh that shortens the remaining lifetime, huge lifetimes, create after remove
fn lifecycle_tags(e: &Edge, s: &SpecState, lives: Lives) -> Vec<String> {
    let mut v = vec![];
    let slot_u = if e.a.u > 0 { s.us.get((e.a.u - 1) as usize).cloned() } else { None };
    let slot_t = if e.a.tok > 0 { s.us.iter().find(|x| x.0 != 0 && x.1 == e.a.tok).cloned() } else { None };
    if let Some(x) = slot_t {
        if x.2 == s.c && matches!(e.a.op.as_str(), "get_uid_by_token" | "refresh_session" | "auth_route") {
            v.push(format!("{}:at-expiry", e.a.op));
        }
        if e.a.op == "refresh_session" && e.exp.res == "ok" && x.2 > s.c + lives.refresh as i64 {
            v.push("refresh_session:ok:shortens".to_string());
        }
    }
    if let Some(x) = slot_u {
        if e.a.op == "create_session" && e.exp.res == "ok" && x.1 != 0 {
            v.push(if x.2 == s.c { "create_session:ok:at-expiry" } else { "create_session:ok:over-expired" }.to_string());
        }
        if e.a.op == "create_session" && e.exp.res == "ok" && e.a.life == "huge" {
            v.push("create_session:ok:huge".to_string());
        }
    }
    if e.a.op == "create_user" && s.nu > s.us.iter().filter(|x| x.0 != 0).count() {
        v.push("create_user:ok:after-remove".to_string());
    }
    v
}

/// an operation in the log format of `trace` (result fields are filled in when it is executed)
fn op_rec(a: &Act, v: usize, pepper: bool) -> Value {
    json!({"op": a.op, "u": a.u, "pw": a.pw, "life": a.life, "tok": a.tok, "ck": a.ck, "v": v, "pepper": pepper})
}

/// the calls along the BFS tree from the initial state to `si`
fn path_ops(parent: &[Option<(usize, usize)>], out: &[Vec<Edge>], si: usize, pepper: bool) -> Vec<Value> {
    let mut rev = vec![];
    let mut cur = si;
    while let Some((p, ei)) = parent[cur] {
        rev.push(op_rec(&out[p][ei].a, 0, pepper));
        cur = p;
    }
    rev.push(op_rec(&Act { op: "reset".into(), u: 0, pw: 0, life: "".into(), tok: 0, ck: "".into() }, 0, pepper));
    rev.reverse();
    rev
}

fn graph(args: &[String]) {
    let pepper = args[0] == "1";
    let lives = Lives { default: args[1].parse().unwrap(), refresh: args[2].parse().unwrap(), long: args[3].parse().unwrap() };
    let argon_budget: usize = args[4].parse().unwrap(); // how many deferred Argon2 edges to execute (0 = all)
    let walks: usize = args[5].parse().unwrap();
    let walklen: usize = args[6].parse().unwrap();
    let max_states: usize = args.get(7).map(|s| s.parse().unwrap()).unwrap_or(usize::MAX);
    let mut rng = Rng::from_env();
    if let Err(e) = obtain_route_handler() {
        eprintln!("{}", e);
        std::process::exit(2);
    }

    // ---- load
    let mut index: HashMap<String, usize> = HashMap::new();
    let mut states: Vec<SpecState> = vec![];
    let mut out: Vec<Vec<Edge>> = vec![];
    let mut n_edges = 0u64;
    let mut intern = |v: &Value, states: &mut Vec<SpecState>, out: &mut Vec<Vec<Edge>>| -> usize {
        let k = v.to_string();
        if let Some(i) = index.get(&k) {
            return *i;
        }
        let i = states.len();
        index.insert(k, i);
        states.push(parse_state(v));
        out.push(vec![]);
        i
    };
    for line in stdin_lines() {
        let line = line.trim();
        if !line.starts_with("\"E") {
            continue;
        }
        let inner: String = match serde_json::from_str(line) { Ok(s) => s, Err(_) => continue };
        let v: Value = match serde_json::from_str(&inner[1..]) { Ok(v) => v, Err(_) => continue };
        let s = intern(&v[0], &mut states, &mut out);
        let t = if v[2].as_array().map(|x| x.is_empty()).unwrap_or(true) { s } else { intern(&v[2], &mut states, &mut out) };
        let a = &v[1];
        out[s].push(Edge {
            a: act_of(a),
            exp: obs(a[6].as_str().unwrap_or(""), a[7].as_i64().unwrap_or(0), a[8].as_i64().unwrap_or(0)),
            t,
            raw_a: act_json(a),
        });
        n_edges += 1;
    }
    let init = states.iter().position(|s| s.c == 0 && s.nu == 0 && s.nt == 0);
    let init = match init { Some(i) => i, None => { eprintln!("no initial state among the edges"); std::process::exit(2) } };

    // ---- breadth-first edge replay
    // password family: without pepper always the degenerate one ("" / " " / NUL / two blanks), with pepper by seed
    let mut w = World::new(pepper, if pepper { rng.below(PW_MAPS.len()) } else { 1 }, lives);
    let mut edge_counter = 0usize;
    let mut snaps: Vec<Option<Snap>> = (0..states.len()).map(|_| None).collect();
    let mut parent: Vec<Option<(usize, usize)>> = (0..states.len()).map(|_| None).collect(); // (state, edge index) of the BFS tree
    snaps[init] = Some(w.snapshot());
    let mut queue: VecDeque<usize> = VecDeque::new();
    queue.push_back(init);
    let mut reached = 1usize;
    let mut edges_run = 0u64;
    let mut argon_skipped = 0u64;
    let mut deferred: Vec<(usize, usize)> = vec![];
    let mut mism: Vec<Value> = vec![];
    let mut mism_rie: Vec<Value> = vec![];
    let mut n_mism = 0u64;
    let mut n_rie = 0u64;
    let mut n_eo = 0u64;
    let mut n_drift = 0u64; // results that differ only in what the statement leaves open
    let mut n_soft = 0u64; // right result, database state not predicted by the code model (and harmless when probed)
    let mut drifts: Vec<Value> = vec![];
    let mut soft: Vec<Value> = vec![];
    let mut argon_calls = 0u64;
    let mut edges_nontrivial = 0u64;
    let mut classes: BTreeMap<String, u64> = BTreeMap::new();
    let mut samples: Vec<Value> = vec![];
    let mut all_tokens: HashSet<String> = HashSet::new();
    let mut dup_tokens = 0u64;
    let mut bad_format = 0u64;
    let t_start = Instant::now();
    while let Some(si) = queue.pop_front() {
        // fail fast (a broken tree can also be a slow one): a hundred unexplained mismatches are enough
        if n_mism - n_rie - n_eo >= 100 {
            break;
        }
        let snap = snaps[si].clone().unwrap();
        for (ei, e) in out[si].iter().enumerate() {
            let needs_argon = e.a.op == "create_user" || (e.a.op == "verify" && e.a.u != 0 && states[si].us[(e.a.u - 1) as usize].0 != 0);
            if needs_argon && snaps[e.t].is_some() {
                // Argon2 edges (about 12 ms each) that do not discover a new state are self-contained: they are
                // collected and executed afterwards on several threads (all of them, or a strided sample).
                deferred.push((si, ei));
                continue;
            }
            if needs_argon { argon_calls += 1; }
            w.restore(&snap);
            edge_counter += 1;
            let mut ok_edge = true;
            for variant in w.edge_variants(&e.a, edge_counter) {
                let (got, concrete) = if e.a.op == "tick" { w.tick(); (obs("ok", 0, 0), String::new()) } else { w.apply(&e.a, variant) };
                // level 1: the result, in the vocabulary of the property (gates); level 2: the stored state (drift), probed
                let mut extra_ops: Vec<Value> = vec![];
                let d = match agree(&got, &e.exp, &e.a) {
                    Agree::No(d) => Some(d),
                    other => {
                        if let Agree::Drift(dd) = other {
                            n_drift += 1;
                            if drifts.len() < 12 && !drifts.iter().any(|x: &Value| x["what"].as_str().map(|w| w[..w.len().min(40)] == dd[..dd.len().min(40)]).unwrap_or(false)) {
                                drifts.push(json!({"what": dd, "call": e.raw_a, "concrete": concrete}));
                            }
                        }
                        match diff_state(&w, &states[e.t]) {
                            None => None,
                            Some(sd) => {
                                n_soft += 1;
                                if soft.len() < 8 {
                                    let s = &states[si];
                                    soft.push(json!({"what": sd, "call": e.raw_a, "concrete": concrete,
                                        "state": {"clock": s.c, "users_pw_tok_exp": s.us.iter().map(|x| json!([x.0, x.1, x.2])).collect::<Vec<_>>()}}));
                                }
                                let keep = w.snapshot();
                                let r = tick_probe(&mut w, &out, e.t, pepper);
                                w.restore(&keep);
                                match r {
                                    Some((pd, pops)) => { extra_ops = pops; Some(format!("{}; {}", sd, pd)) }
                                    None => None,
                                }
                            }
                        }
                    }
                };
                if let Some(d) = d {
                    ok_edge = false;
                    n_mism += 1;
                    let s = &states[si];
                    // the exact shape predicted by Dev = {RefreshIgnoresExpiry}
                    let rie = e.a.op == "refresh_session" && e.exp.res == "InvalidToken" && got.res == "ok"
                        && s.us.iter().any(|x| x.0 != 0 && x.1 == e.a.tok && x.2 <= s.c);
                    if rie { n_rie += 1; }
                    // the shape of ExpiryOverflow: a lifetime that overflows now + lifetime (u64::MAX) panics (overflow checks
                    // are on in this build) or yields a session that is already expired
                    let eo = e.a.op == "create_session" && e.a.life == "huge" && e.exp.res == "ok" && HUGE[variant % HUGE.len()] == u64::MAX;
                    if eo { n_eo += 1; }
                    let known = rie || eo;
                    if (known && mism_rie.len() < 8) || (!known && mism.len() < 30) {
                        let mut ops = path_ops(&parent, &out, si, pepper);
                        ops.push(op_rec(&e.a, variant, pepper));
                        ops.extend(extra_ops);
                        let m = json!({"pepper": pepper, "ops": ops, "state": {"clock": s.c, "users_pw_tok_exp": s.us.iter().map(|x| json!([x.0, x.1, x.2])).collect::<Vec<_>>()},
                            "call": e.raw_a, "concrete": concrete, "difference": d,
                            "class": if rie { "RefreshIgnoresExpiry" } else if eo { "ExpiryOverflow" } else { "" }});
                        if known { mism_rie.push(m) } else { mism.push(m) }
                    }
                    w.restore(&snap);
                    break;
                }
            }
            edges_run += 1;
            if nontrivial(e, si) { edges_nontrivial += 1; }
            *classes.entry(format!("{}:{}", e.a.op, e.exp.res)).or_insert(0) += 1;
            for t in lifecycle_tags(e, &states[si], lives) {
                *classes.entry(t).or_insert(0) += 1;
            }
            bad_format += w.bad_format.len() as u64;
            w.bad_format.clear();
            if ok_edge && e.a.op == "create_session" && e.exp.res == "ok" {
                if let Some(t) = w.toks.last() {
                    if !all_tokens.insert(t.clone()) {
                        dup_tokens += 1;
                    }
                }
            }
            if ok_edge && snaps[e.t].is_none() && reached < max_states {
                snaps[e.t] = Some(w.snapshot());
                parent[e.t] = Some((si, ei));
                reached += 1;
                queue.push_back(e.t);
            }
            if ok_edge && samples.len() < 4 && e.a.op == "refresh_session" && (samples.len() % 2 == 0) == (e.exp.res == "ok") {
                let s = &states[si];
                samples.push(json!({"state": {"clock": s.c, "users_pw_tok_exp": s.us.iter().map(|x| json!([x.0, x.1, x.2])).collect::<Vec<_>>()}, "call": e.raw_a}));
            }
        }
    }
    let bfs_s = t_start.elapsed().as_secs_f64();

    // ---- deferred Argon2 edges, in parallel (each: restore the snapshot of s, call, compare)
    let stride = if argon_budget == 0 || deferred.len() <= argon_budget { 1 } else { (deferred.len() + argon_budget - 1) / argon_budget };
    let selected: Vec<(usize, usize)> = if n_mism - n_rie - n_eo >= 100 { vec![] } else { deferred.iter().cloned().step_by(stride).collect() };
    argon_skipped += (deferred.len() - selected.len()) as u64;
    let threads = std::env::var("VERIF_AUTH_THREADS").ok().and_then(|x| x.parse::<usize>().ok()).unwrap_or(8).max(1);
    let pwmap = w.pwmap;
    let par: Vec<(u64, u64, Vec<Value>, BTreeMap<String, u64>, u64)> = std::thread::scope(|sc| {
        let mut hs = vec![];
        for th in 0..threads {
            let (selected, snaps, out, states, parent) = (&selected, &snaps, &out, &states, &parent);
            hs.push(sc.spawn(move || {
                let mut w = World::new(pepper, pwmap, lives);
                let (mut run, mut nm, mut ms, mut cl, mut nt) = (0u64, 0u64, vec![], BTreeMap::new(), 0u64);
                let mut i = th;
                while i < selected.len() {
                    let (si, ei) = selected[i];
                    let e = &out[si][ei];
                    let snap = snaps[si].as_ref().unwrap();
                    w.restore(snap);
                    let (got, concrete) = w.apply(&e.a, 0);
                    // (Argon2 edges: create_user / verify; the stored state after them is compared as drift by the main pass)
                    let d = match agree(&got, &e.exp, &e.a) { Agree::No(d) => Some(d), _ => None };
                    run += 1;
                    if nontrivial(e, si) { nt += 1; }
                    *cl.entry(format!("{}:{}", e.a.op, e.exp.res)).or_insert(0) += 1;
                    for t in lifecycle_tags(e, &states[si], lives) {
                        *cl.entry(t).or_insert(0) += 1;
                    }
                    if let Some(d) = d {
                        nm += 1;
                        if ms.len() < 5 {
                            let s = &states[si];
                            let mut ops = path_ops(parent, out, si, pepper);
                            ops.push(op_rec(&e.a, 0, pepper));
                            ms.push(json!({"pepper": pepper, "ops": ops, "state": {"clock": s.c, "users_pw_tok_exp": s.us.iter().map(|x| json!([x.0, x.1, x.2])).collect::<Vec<_>>()},
                                "call": e.raw_a, "concrete": concrete, "difference": d, "class": ""}));
                        }
                    }
                    i += threads;
                }
                (run, nm, ms, cl, nt + 0 * w.calls)
            }));
        }
        hs.into_iter().map(|h| h.join().unwrap()).collect()
    });
    for (run, nm, ms, cl, nt) in par {
        edges_run += run;
        argon_calls += run;
        n_mism += nm;
        edges_nontrivial += nt;
        for m in ms { if mism.len() < 30 { mism.push(m); } }
        for (k, v) in cl { *classes.entry(k).or_insert(0) += v; }
    }
    let argon_s = t_start.elapsed().as_secs_f64() - bfs_s;

    // ---- random walks along the graph, no restoring: the real object lives through the whole history
    let mut walk_steps = 0u64;
    let mut walk_mism = 0u64;
    let mut calls = w.calls + argon_calls;
    for wi in 0..walks {
        if n_mism - n_rie - n_eo >= 100 {
            break;
        }
        let mut w = World::new(pepper, wi % PW_MAPS.len(), lives);
        let mut cur = init;
        let mut hist: Vec<Value> = vec![];
        let mut ops: Vec<Value> = vec![op_rec(&Act { op: "reset".into(), u: 0, pw: 0, life: "".into(), tok: 0, ck: "".into() }, 0, pepper)];
        for _ in 0..walklen {
            if out[cur].is_empty() {
                break;
            }
            // prefer state-changing edges (most edges are self-loops), keep Argon2 calls rare
            let mut e = rng.pick(&out[cur]);
            for _ in 0..6 {
                let argon = e.a.op == "create_user" || e.a.op == "verify";
                if (e.t == cur && rng.chance(2, 3)) || (argon && rng.chance(3, 4)) {
                    e = rng.pick(&out[cur]);
                } else {
                    break;
                }
            }
            let variant = rng.below(w.variants(&e.a).max(1));
            let (got, concrete) = if e.a.op == "tick" { w.tick(); (obs("ok", 0, 0), String::new()) } else { w.apply(&e.a, variant) };
            hist.push(json!({"call": e.raw_a, "concrete": concrete}));
            ops.push(op_rec(&e.a, variant, pepper));
            walk_steps += 1;
            let d = match agree(&got, &e.exp, &e.a) {
                Agree::No(d) => Some(d),
                Agree::Drift(_) => { n_drift += 1; None }
                Agree::Yes => { if diff_state(&w, &states[e.t]).is_some() { n_soft += 1; } None }
            };
            if let Some(d) = d {
                walk_mism += 1;
                n_mism += 1;
                let s = &states[cur];
                let rie = e.a.op == "refresh_session" && e.exp.res == "InvalidToken" && got.res == "ok"
                    && s.us.iter().any(|x| x.0 != 0 && x.1 == e.a.tok && x.2 <= s.c);
                if rie { n_rie += 1; }
                if (rie && mism_rie.len() < 8) || (!rie && mism.len() < 30) {
                    let m = json!({"pepper": pepper, "ops": ops, "walk": hist, "difference": d, "class": if rie { "RefreshIgnoresExpiry" } else { "" }});
                    if rie { mism_rie.push(m) } else { mism.push(m) }
                }
                break;
            }
            cur = e.t;
        }
        bad_format += w.bad_format.len() as u64;
        calls += w.calls;
        for t in &w.toks {
            if !all_tokens.insert(t.clone()) {
                dup_tokens += 1;
            }
        }
    }
    out_line(&json!({"summary": true, "pepper": pepper, "edges_total": n_edges, "edges_run": edges_run, "argon_edges_skipped": argon_skipped,
        "states_total": states.len(), "states_reached": reached, "calls": calls, "mismatches": n_mism, "mismatches_refresh_ignores_expiry": n_rie, "mismatches_expiry_overflow": n_eo, "first": mism, "first_refresh_ignores_expiry": mism_rie,
        "unknown_token_lengths": w.unk_tok_lens.len(), "token_len_min": all_tokens.iter().map(|t| t.chars().count()).min().unwrap_or(0), "drift_results": n_drift, "drift_state": n_soft, "first_drift_results": drifts, "first_drift_state": soft, "argon_edges_run": argon_calls,
        "classes": classes, "samples": samples, "tokens_issued": all_tokens.len(), "token_dups": dup_tokens, "token_bad_format": bad_format,
        "walks": walks, "walk_steps": walk_steps, "walk_mismatches": walk_mism, "bfs_s": bfs_s, "argon_s": argon_s, "edges_nontrivial": edges_nontrivial}));
    std::process::exit(0);
}

// ------------------------------------------------------------------------------------------------
// random traces for TLC (Trace_Auth.tla)
// ------------------------------------------------------------------------------------------------
fn one_trace(seed: u64, idx: usize, maxlen: usize, lives: Lives) -> (Vec<String>, Vec<String>, u64) {
    let mut rng = Rng::new(seed.wrapping_mul(0x9E37_79B9).wrapping_add(idx as u64 * 7919 + 13));
    let pepper = idx % 2 == 1;
    let maxlive = 1 + idx % 5;
    let mut w = World::new(pepper, rng.below(PW_MAPS.len()), lives);
    let len = if rng.chance(1, 4) { rng.range(1, maxlen) } else { maxlen };
    let mut lines = vec![];
    let rec = |a: &Act, o: &Obs, w: &World, v: usize| -> String {
        let st: Vec<Value> = w.project().iter().map(|x| json!([x.0, x.1, x.2])).collect();
        json!({"op": a.op, "u": a.u, "pw": a.pw, "life": a.life, "tok": a.tok, "ck": a.ck, "res": o.res, "detail": o.detail, "note": o.note, "ruid": o.ruid, "rtok": o.rtok,
               "c": w.clock, "st": st, "v": v, "pepper": pepper}).to_string()
    };
    let blank = Act { op: "reset".into(), u: 0, pw: 0, life: "".into(), tok: 0, ck: "".into() };
    lines.push(rec(&blank, &obs("ok", 0, 0), &w, 0));
    let mut pws: Vec<i64> = vec![]; // password id per uid (harness bookkeeping for choosing arguments only)
    for _ in 0..len {
        let live: Vec<i64> = w.db.g().iter().map(|u| w.uid_index(&u.uid)).collect();
        let stored: Vec<i64> = w.db.g().iter().filter_map(|u| u.session.as_ref().map(|s| w.tok_index(&s.token))).collect();
        let pick_u = |rng: &mut Rng| -> i64 {
            let r = rng.below(100);
            if r < 70 && !live.is_empty() { *rng.pick(&live) } else if r < 88 && !w.uids.is_empty() { 1 + rng.below(w.uids.len()) as i64 } else { 0 }
        };
        let pick_t = |rng: &mut Rng| -> i64 {
            let r = rng.below(100);
            if r < 55 && !stored.is_empty() { *rng.pick(&stored) } else if r < 85 && !w.toks.is_empty() { 1 + rng.below(w.toks.len()) as i64 } else { 0 }
        };
        let mut a = blank.clone();
        let r = rng.below(100);
        if live.is_empty() && r < 50 || (r < 5 && live.len() < maxlive) {
            a.op = "create_user".into();
            a.pw = 1 + rng.below(2) as i64;
        } else if r < 9 {
            a.op = "remove_user".into();
            a.u = pick_u(&mut rng);
        } else if r < 11 {
            a.op = "exists".into();
            a.u = pick_u(&mut rng);
        } else if r < 16 {
            a.op = "verify".into();
            a.u = pick_u(&mut rng);
            // right / wrong / another user's password
            a.pw = if a.u > 0 && rng.chance(1, 2) { pws[(a.u - 1) as usize] } else { 1 + rng.below(2) as i64 };
        } else if r < 37 {
            a.op = "create_session".into();
            a.u = pick_u(&mut rng);
            a.life = (*rng.pick(&["zero", "default", "default", "long", "huge"])).to_string();
        } else if r < 50 {
            a.op = "refresh_session".into();
            a.tok = pick_t(&mut rng);
        } else if r < 57 {
            a.op = "invalidate_session".into();
            a.tok = pick_t(&mut rng);
        } else if r < 62 {
            a.op = "invalidate_user_session".into();
            a.u = pick_u(&mut rng);
        } else if r < 74 {
            a.op = "get_uid_by_token".into();
            a.tok = pick_t(&mut rng);
        } else if r < 86 {
            a.op = "auth_route".into();
            a.ck = (*rng.pick(&["none", "tok", "tok", "tok", "among", "wrongname"])).to_string();
            a.tok = if a.ck == "none" { 0 } else { pick_t(&mut rng) };
            if a.ck == "wrongname" && a.tok == 0 {
                a.ck = "tok".into();
            }
        } else {
            a.op = "tick".into();
        }
        let v = rng.below(w.variants(&a).max(1));
        let o = if a.op == "tick" { w.tick(); obs("ok", 0, 0) } else { w.apply(&a, v).0 };
        if a.op == "create_user" && o.res == "ok" {
            pws.push(a.pw);
        }
        lines.push(rec(&a, &o, &w, v));
    }
    let toks = w.toks.clone();
    let bad = w.bad_format.len() as u64;
    (lines, toks, bad)
}

fn trace(args: &[String]) {
    let n: usize = args[0].parse().unwrap();
    let maxlen: usize = args[1].parse().unwrap();
    let lives = Lives { default: args[2].parse().unwrap(), refresh: args[3].parse().unwrap(), long: args[4].parse().unwrap() };
    let threads: usize = args.get(5).map(|s| s.parse().unwrap()).unwrap_or(8).max(1);
    if let Err(e) = obtain_route_handler() {
        eprintln!("{}", e);
        std::process::exit(2);
    }
    let seed = seed_from_env();
    let results: Mutex<Vec<Option<(Vec<String>, Vec<String>, u64)>>> = Mutex::new((0..n).map(|_| None).collect());
    std::thread::scope(|s| {
        for th in 0..threads {
            let results = &results;
            s.spawn(move || {
                let mut i = th;
                while i < n {
                    let r = one_trace(seed, i, maxlen, lives);
                    results.lock().unwrap()[i] = Some(r);
                    i += threads;
                }
            });
        }
    });
    let mut all: HashSet<String> = HashSet::new();
    let mut dups = 0u64;
    let mut bad = 0u64;
    let mut events = 0u64;
    let mut sample_token = String::new();
    for r in results.into_inner().unwrap().into_iter() {
        let (lines, toks, b) = r.unwrap();
        bad += b;
        for t in toks {
            if sample_token.is_empty() {
                sample_token = t.clone();
            }
            if !all.insert(t) {
                dups += 1;
            }
        }
        events += lines.len() as u64;
        let stdout = std::io::stdout();
        let mut l = stdout.lock();
        use std::io::Write;
        for x in lines {
            let _ = writeln!(l, "{}", x);
        }
    }
    eprintln!("{}", json!({"summary": true, "traces": n, "events": events, "tokens_issued": all.len(), "token_dups": dups, "token_bad_format": bad, "sample_token": sample_token}));
    std::process::exit(0);
}

/// Re-executes logged operations (only op/u/pw/life/tok/ck/v/pepper are read) on fresh real providers and logs
/// them again in the `trace` format: used for replay files and for paths of graph mismatches.
fn rerun(args: &[String]) {
    let lives = Lives { default: args[0].parse().unwrap(), refresh: args[1].parse().unwrap(), long: args[2].parse().unwrap() };
    if let Err(e) = obtain_route_handler() {
        eprintln!("{}", e);
        std::process::exit(2);
    }
    let mut w = World::new(false, 0, lives);
    let mut pepper = false;
    for line in stdin_lines() {
        let v: Value = match serde_json::from_str(&line) { Ok(v) => v, Err(_) => continue };
        let a = Act {
            op: v["op"].as_str().unwrap_or("").to_string(),
            u: v["u"].as_i64().unwrap_or(0),
            pw: v["pw"].as_i64().unwrap_or(0),
            life: v["life"].as_str().unwrap_or("").to_string(),
            tok: v["tok"].as_i64().unwrap_or(0),
            ck: v["ck"].as_str().unwrap_or("").to_string(),
        };
        let variant = v["v"].as_u64().unwrap_or(0) as usize;
        let o = if a.op == "reset" {
            pepper = v["pepper"].as_bool().unwrap_or(false);
            w = World::new(pepper, 0, lives);
            obs("ok", 0, 0)
        } else if a.op == "tick" {
            w.tick();
            obs("ok", 0, 0)
        } else {
            w.apply(&a, variant).0
        };
        let st: Vec<Value> = w.project().iter().map(|x| json!([x.0, x.1, x.2])).collect();
        out_line(&json!({"op": a.op, "u": a.u, "pw": a.pw, "life": a.life, "tok": a.tok, "ck": a.ck, "res": o.res, "detail": o.detail, "note": o.note, "ruid": o.ruid, "rtok": o.rtok,
               "c": w.clock, "st": st, "v": variant, "pepper": pepper}));
    }
    std::process::exit(0);
}

/// Issues `n` tokens through the public API of a real provider (one user; sessions with lifetime 0, the default
/// lifetime followed by invalidate_session / invalidate_user_session, and an explicit lifetime followed by a Tick
/// past it) and prints each as {"t": token, "d": [its characters as hex digits 0..15, -1 = not [0-9a-f]]} for
/// TokenShape.tla.
fn tokens(args: &[String]) {
    let n: usize = args[0].parse().unwrap();
    let pepper = args.get(1).map(|s| s == "1").unwrap_or(false);
    let lives = Lives { default: 1, refresh: 2, long: 3 };
    let st = {
        let w = World::new(pepper, 0, lives);
        w.st.clone()
    };
    let uid = match catch_unwind(AssertUnwindSafe(|| st.auth_provider().create_user("token-shape"))) {
        Ok(Ok(u)) => u,
        other => { eprintln!("create_user failed: {:?}", other.map(|r| r.map_err(|e| format!("{:?}", e)))); std::process::exit(2) }
    };
    for i in 0..n {
        let r = catch_unwind(AssertUnwindSafe(|| {
            let mut p = st.auth_provider();
            // whatever the previous round left is cleared first, so that only the issuing itself is exercised
            p.invalidate_user_session(&uid);
            match i % 3 {
                0 => p.create_session_with_lifetime(&uid, 0),
                1 => { let t = p.create_session(&uid); if let Ok(t) = &t { p.invalidate_session(t); } t }
                _ => { let t = p.create_session_with_lifetime(&uid, 5); p.invalidate_user_session(&uid); t }
            }
        }));
        let t = match r {
            Ok(Ok(t)) => t,
            // no token, nothing to judge here (the functional passes judge refusals and panics)
            Ok(Err(e)) => { eprintln!("create_session refused while issuing tokens: {:?}", e); std::process::exit(3) }
            Err(_) => { eprintln!("create_session panicked while issuing tokens"); std::process::exit(3) }
        };
        let d: Vec<i64> = t.chars().map(|c| c.to_digit(16).filter(|_| c.is_ascii()).map(|x| x as i64).unwrap_or(-1)).collect();
        let c: Vec<i64> = t.chars().map(|c| c as i64).collect();
        out_line(&json!({"t": t, "d": d, "c": c}));
    }
    std::process::exit(0);
}

fn timing() {
    let mut w = World::new(false, 0, Lives { default: 1, refresh: 1, long: 1 });
    let a = Act { op: "create_user".into(), u: 0, pw: 1, life: "".into(), tok: 0, ck: "".into() };
    let t0 = Instant::now();
    for _ in 0..5 {
        w.apply(&a, 0);
    }
    let c = t0.elapsed().as_secs_f64() / 5.0;
    let v = Act { op: "verify".into(), u: 1, pw: 2, life: "".into(), tok: 0, ck: "".into() };
    let t0 = Instant::now();
    for _ in 0..5 {
        w.apply(&v, 0);
    }
    out_line(&json!({"create_user_s": c, "verify_s": t0.elapsed().as_secs_f64() / 5.0}));
}

/// `auth removed`: what "removed" means for ANY identifier, the issued uid or a string that differs from it by case / padding /
/// look-alike characters: when remove_user(x) answers Ok, x is gone - exists(x) is false, verify(x, password) is false - and so is
/// whoever x stood for: if x was accepted as the user before (exists(x) or verify(x, password) answered true), that user's token no
/// longer authenticates.  When remove_user(x) answers Err, nothing changed.  (Auth.tla: after Act_RemoveUser(u) ok, u \notin users,
/// the session of u is gone; a refused call leaves the state alone.)  Added after a seeded case-insensitive lookup with an exact
/// removal was missed (round 8): remove_user(UPPER) answered Ok and removed nothing.
fn removed() {
    let mut bad: Vec<Value> = vec![];
    let mut cases = 0u64;
    for pepper in [false, true] {
        for variant in 0..7usize {
            let db = Db(Arc::new(Mutex::new(Vec::new())));
            let mut cfg = humphrey_auth::config::AuthConfig::default();
            if pepper { cfg = cfg.with_pepper(b"verif-pepper-\xff\x00\x01"); }
            let mut prov = AuthProvider::new(db.clone()).with_config(cfg);
            let _other = prov.create_user("other-pw").unwrap_or_default();
            let uid = match prov.create_user("pw-1") { Ok(u) => u, Err(_) => continue };
            let _third = prov.create_user("third-pw").unwrap_or_default();
            let tok = prov.create_session(&uid).unwrap_or_default();
            let x = match variant {
                0 => uid.clone(),
                1 => uid.to_uppercase(),
                2 => format!("{} ", uid),
                3 => format!(" {}", uid),
                4 => format!("{}\u{a0}", uid),
                5 => uid.replacen('-', "\u{2010}", 1),
                _ => { let mut m = uid.clone(); if let Some(i) = m.find(|c: char| c.is_ascii_lowercase()) { let u = m[i..i + 1].to_uppercase(); m.replace_range(i..i + 1, &u); } m }
            };
            cases += 1;
            let r = std::panic::catch_unwind(std::panic::AssertUnwindSafe(|| {
                let accepted_before = prov.exists(&x) || prov.verify(&x, "pw-1");
                let res = prov.remove_user(&x).is_ok();
                let exists_after = prov.exists(&x);
                let verify_after = prov.verify(&x, "pw-1");
                let tok_after = prov.get_uid_by_token(&tok).is_ok();
                let orig_exists = prov.exists(&uid);
                let orig_verify = prov.verify(&uid, "pw-1");
                (accepted_before, res, exists_after, verify_after, tok_after, orig_exists, orig_verify)
            }));
            match r {
                Err(_) => bad.push(json!({"variant": variant, "pepper": pepper, "what": "panic"})),
                Ok((acc, res, ex, ver, tk, oe, ov)) => {
                    let mut what = vec![];
                    if res && ex { what.push("remove_user(x) = Ok but exists(x) is still true"); }
                    if res && ver { what.push("remove_user(x) = Ok but verify(x, password) is still true"); }
                    if res && acc && tk { what.push("x was accepted as the user, remove_user(x) = Ok, but the user's token still authenticates"); }
                    if !res && !(oe && ov && tk) { what.push("remove_user(x) = Err but the user is no longer intact"); }
                    if variant == 0 && !res { what.push("remove_user(uid) of an existing user refused"); }
                    const NAMES: [&str; 7] = ["the uid", "upper case", "trailing blank", "leading blank", "trailing NBSP", "U+2010 for the first hyphen", "one letter upper case"];
                    if !what.is_empty() {
                        bad.push(json!({"variant": variant, "pepper": pepper, "x_is": NAMES[variant],
                            "accepted_before": acc, "remove_ok": res, "exists_after": ex, "verify_after": ver, "token_after": tk, "uid_exists_after": oe, "uid_verifies_after": ov, "what": what}));
                    }
                }
            }
        }
    }
    out_line(&json!({"summary": true, "cases": cases, "bad": bad}));
}

fn main() {
    quiet_panics();
    let a: Vec<String> = std::env::args().collect();
    match a.get(1).map(|s| s.as_str()) {
        Some("graph") if a.len() >= 9 => graph(&a[2..]),
        Some("trace") if a.len() >= 7 => trace(&a[2..]),
        Some("rerun") if a.len() >= 5 => rerun(&a[2..]),
        Some("tokens") if a.len() >= 3 => tokens(&a[2..]),
        Some("timing") => timing(),
        Some("removed") => removed(),
        _ => {
            eprintln!("usage: auth graph <pepper> <lifeDefault> <lifeRefresh> <lifeLong> <argon_budget> <walks> <walklen> [max_states] | trace <n> <maxlen> <lD> <lR> <lL> [threads] | timing");
            std::process::exit(2)
        }
    }
}
