//! C03 harness: no input can crash, wedge or exhaust a parser.
//!
//! Three modes, one binary (main.rs = supervisor, input plan, the parsers; worker.rs = the worker side, shared
//! with the tokio twin /verif/harness-tokio/src/bin/parsefuzz.rs):
//!
//! * `parsefuzz run ...`   SUPERVISOR. Reads the input families printed by TLC (spec/mutants, JSON lines),
//!   expands them (short-string groups, seeds for the seeded random generator), feeds every input under every
//!   delivery to isolated WORKER processes (one process per shard, restarted after every death), attributes an
//!   abort / kill / stack overflow to the input in flight (the first unanswered one), restarts the worker and
//!   continues.  Writes one ndjson record per (input, delivery): the outcome log that TLC validates with
//!   Trace_Mutants.tla.  The protocol (pipelined window, attribution, restart) is the one modelled in
//!   spec/mutants/ParseSup.tla.  `--worker-exe` selects another worker binary (the tokio twin serves `reqtk`).
//! * `parsefuzz worker ...` WORKER.  RLIMIT_AS, counting #[global_allocator] (peak and largest single request
//!   during each call), catch_unwind, a watchdog thread; the parser runs on a thread with a 2 MiB stack (the
//!   size Rust gives to the handler threads the real server parses on).
//! * `parsefuzz probe <parser> <delivery> <hex>` runs one input in-process (no limits) and prints the record;
//!   used for reproducing by hand.
//!
//! Parsers (real code from /repo): req = humphrey::http::Request::from_stream, resp = Response::from_stream,
//! wsframe = humphrey_ws frame decoder (Frame::from_stream through humphrey_ws::verif::decode),
//! wsmsg / wsmsgnb = WebsocketStream::recv / recv_nonblocking (Message::from_stream[_nonblocking]) over a
//! socketpair, json = humphrey_json::Value::parse, conf = humphrey_server::config::tree::parse_conf.
//! `selftest` is not a parser: a stand-in that panics / aborts / overflows the stack / exhausts memory / hangs on
//! demand, with which the check proves that every kind of misbehaviour is observed and attributed.
//!
//! Deliveries: `w` all-at-once and `b` one byte per read() through a scripted `Read` (req, resp, wsframe);
//! wsmsg: `w` (all bytes written before the peer goes on reading) and `d` (the peer drips single bytes: best effort,
//! the exact byte-by-byte schedule is exercised on the frame decoder, which is the same code); json / conf take a
//! complete &str: `s` (the bytes are valid UTF-8) or `l` (invalid UTF-8: the type system keeps such input away
//! from the parser; what a caller can pass is the lossy conversion, and that is what is parsed).
//!
//! Nothing here decides the property: the records are judged by TLC (Trace_Mutants.tla, operator ParseGuard).

mod worker;

use std::collections::VecDeque;
use std::io::{BufRead, BufReader, Read, Write};
use std::time::{Duration, Instant};

use hv::util::Rng;
use serde_json::{json, Value as J};
use worker::{hex_decode, hex_encode, install_panic_capture, measured_call, Script, KIB_SAT};

// ------------------------------------------------------------------------------------------------
// the parsers under test
// ------------------------------------------------------------------------------------------------

const PARSERS: [&str; 7] = ["req", "resp", "wsframe", "wsmsg", "wsmsgnb", "json", "conf"];

fn deliveries(p: &str, bytes: &[u8]) -> Vec<&'static str> {
    match p {
        "req" | "reqtk" | "resp" | "wsframe" => vec!["w", "b"],
        "wsmsg" => vec!["w", "d"],
        "wsmsgnb" => vec!["w"],
        _ => {
            if std::str::from_utf8(bytes).is_ok() {
                vec!["s"]
            } else {
                vec!["l"]
            }
        }
    }
}

/// Scripted reader: `step == 0` hands out as much as the caller's buffer takes, otherwise at most `step`
/// bytes per read(); after the data: EOF (Ok(0)) for ever.
enum Peer {
    Held(std::os::unix::net::UnixStream),
    Feeder(std::thread::JoinHandle<()>),
}

fn ws_stream_with(bytes: &[u8], drip: bool) -> (humphrey_ws::WebsocketStream, Peer) {
    use std::os::unix::io::FromRawFd;
    let mut fds = [0 as libc::c_int; 2];
    let rc = unsafe { libc::socketpair(libc::AF_UNIX, libc::SOCK_STREAM, 0, fds.as_mut_ptr()) };
    assert!(rc == 0, "socketpair");
    // The decoder's end: humphrey's Stream wraps a TcpStream; a TcpStream is a file descriptor on which
    // read/write/fcntl are issued, which a stream socketpair supports identically.
    let ours = unsafe { std::net::TcpStream::from_raw_fd(fds[0]) };
    let mut peer = unsafe { std::os::unix::net::UnixStream::from_raw_fd(fds[1]) };
    // The decoder answers pings and closes on the same socket.  A peer that never reads would eventually block
    // it (socket buffers are accounted per write, ~200 small replies fill them): that is TCP back-pressure, not a
    // wedged parser.  So the peer is a client that reads while it writes, except for inputs too short to matter.
    let keep = if !drip && bytes.len() <= 256 {
        let _ = peer.write_all(bytes);
        let _ = peer.shutdown(std::net::Shutdown::Write);
        Peer::Held(peer)
    } else {
        let data = bytes.to_vec();
        let step = if drip { 1 } else { 16384 };
        Peer::Feeder(std::thread::spawn(move || {
            use std::os::unix::io::AsRawFd;
            let fd = peer.as_raw_fd();
            let _ = peer.set_nonblocking(true);
            let mut pos = 0usize;
            let mut open = true;
            let mut sink = [0u8; 4096];
            loop {
                let mut pfd = libc::pollfd { fd, events: libc::POLLIN | if pos < data.len() { libc::POLLOUT } else { 0 }, revents: 0 };
                let rc = unsafe { libc::poll(&mut pfd, 1, 1000) };
                if rc < 0 {
                    break;
                }
                if pfd.revents & (libc::POLLIN | libc::POLLHUP | libc::POLLERR) != 0 {
                    match peer.read(&mut sink) {
                        Ok(0) => break, // the decoder dropped its end
                        Ok(_) => {}
                        Err(e) if e.kind() == std::io::ErrorKind::WouldBlock => {}
                        Err(_) => break,
                    }
                }
                if pos < data.len() && pfd.revents & libc::POLLOUT != 0 {
                    let end = (pos + step).min(data.len());
                    match peer.write(&data[pos..end]) {
                        Ok(n) => pos += n,
                        Err(e) if e.kind() == std::io::ErrorKind::WouldBlock => {}
                        Err(_) => pos = data.len(),
                    }
                    if drip {
                        std::thread::yield_now();
                    }
                }
                if pos >= data.len() && open {
                    let _ = peer.shutdown(std::net::Shutdown::Write);
                    open = false;
                }
            }
        }))
    };
    (humphrey_ws::WebsocketStream::new(humphrey::stream::Stream::Tcp(ours)), keep)
}

/// Runs one parser call. Returns "ok" / "err" (+ a detail used only for humans).
fn run_parser(p: &str, d: &str, bytes: &[u8]) -> (&'static str, &'static str) {
    let step = if d == "b" { 1 } else { 0 };
    match p {
        "req" => {
            let mut s = Script { data: bytes, pos: 0, step };
            let addr = std::net::SocketAddr::from(([127, 0, 0, 1], 4321));
            match humphrey::http::Request::from_stream(&mut s, addr) {
                Ok(_) => ("ok", ""),
                Err(_) => ("err", ""),
            }
        }
        "resp" => {
            let mut s = Script { data: bytes, pos: 0, step };
            match humphrey::http::Response::from_stream(&mut s) {
                Ok(_) => ("ok", ""),
                Err(_) => ("err", ""),
            }
        }
        "wsframe" => {
            let mut s = Script { data: bytes, pos: 0, step };
            match humphrey_ws::verif::decode(&mut s) {
                Ok(_) => ("ok", ""),
                Err(_) => ("err", ""),
            }
        }
        "wsmsg" | "wsmsgnb" => {
            let (mut ws, feeder) = ws_stream_with(bytes, d == "d");
            let r = if p == "wsmsg" {
                match ws.recv() {
                    Ok(_) => ("ok", ""),
                    Err(_) => ("err", ""),
                }
            } else {
                match ws.recv_nonblocking() {
                    humphrey_ws::restion::Restion::Ok(_) => ("ok", ""),
                    humphrey_ws::restion::Restion::None => ("ok", "none"),
                    humphrey_ws::restion::Restion::Err(_) => ("err", ""),
                }
            };
            drop(ws);
            match feeder {
                Peer::Held(p) => drop(p),
                Peer::Feeder(f) => {
                    let _ = f.join();
                }
            }
            r
        }
        "json" => {
            let text = String::from_utf8_lossy(bytes);
            match humphrey_json::Value::parse(text.as_ref()) {
                Ok(_) => ("ok", ""),
                Err(_) => ("err", ""),
            }
        }
        "conf" => {
            // The server parses its configuration on the main thread (8 MiB stack on this platform), not on a 2 MiB
            // handler thread: "never overflows the stack" is judged against the stack the call really gets.
            let text = String::from_utf8_lossy(bytes);
            let text: &str = text.as_ref();
            std::thread::scope(|sc| {
                let h = std::thread::Builder::new()
                    .stack_size(8 << 20)
                    .spawn_scoped(sc, move || match humphrey_server::config::tree::parse_conf(text, "fuzz.conf") {
                        Ok(_) => ("ok", ""),
                        Err(_) => ("err", ""),
                    })
                    .expect("spawn conf thread");
                match h.join() {
                    Ok(r) => r,
                    Err(e) => std::panic::resume_unwind(e), // a panic of the parser stays a panic of this call
                }
            })
        }
        // Not a parser of /repo: a stand-in that misbehaves on demand, used by the check to prove that the worker and
        // the supervisor observe and attribute every kind of misbehaviour (first byte selects it).
        "selftest" => selftest_behaviour(bytes),
        _ => ("err", "unknown-parser"),
    }
}

#[inline(never)]
fn selftest_recurse(n: u64, acc: &mut [u8; 256]) -> u64 {
    let mut local = [0u8; 256];
    local[(n % 256) as usize] = acc[(n % 7) as usize].wrapping_add(1);
    if n == u64::MAX {
        return 0;
    }
    selftest_recurse(n + 1, &mut local) + local[3] as u64
}

fn selftest_behaviour(bytes: &[u8]) -> (&'static str, &'static str) {
    match bytes.first() {
        Some(b'p') => {
            let v: Vec<u8> = Vec::new();
            let i = bytes.len() + 5;
            if v[i] == 1 {
                return ("ok", "");
            }
            ("ok", "")
        }
        Some(b'a') => std::process::abort(),
        Some(b's') => {
            let mut a = [1u8; 256];
            if selftest_recurse(0, &mut a) == 1 {
                return ("ok", "");
            }
            ("err", "")
        }
        Some(b'm') => {
            let v = vec![0u8; 1usize << 42];
            if v[bytes.len()] == 1 {
                return ("ok", "");
            }
            ("err", "")
        }
        Some(b'M') => {
            let v = vec![1u8; 100 << 20];
            if v[bytes.len()] == 2 {
                return ("err", "");
            }
            ("ok", "")
        }
        Some(b'h') => loop {
            std::thread::sleep(Duration::from_millis(50));
        },
        Some(b'e') => ("err", ""),
        _ => ("ok", ""),
    }
}

// ------------------------------------------------------------------------------------------------
// input plan (what TLC printed + the seeded random generator)
// ------------------------------------------------------------------------------------------------

#[derive(Clone)]
struct Case {
    id: u64,
    p: &'static str,
    fam: String,
    bytes: Vec<u8>,
}

fn intern_parser(p: &str) -> Option<&'static str> {
    if p == "selftest" {
        return Some("selftest");
    }
    if p == "reqtk" {
        return Some("reqtk"); // the tokio copy of the request parser (served by the harness-tokio worker)
    }
    PARSERS.iter().find(|x| **x == p).copied()
}

fn bytes_of(v: &J) -> Vec<u8> {
    v.as_array().map(|a| a.iter().map(|x| x.as_u64().unwrap_or(0) as u8).collect()).unwrap_or_default()
}

/// One line printed by TLC (Gen_Mutants*.cfg).
enum Group {
    /// `{"k":"alpha","p":..,"syms":[[..],..]}` alphabet of a parser (token = byte string)
    Alpha,
    /// `{"k":"short","p":..,"w":[i,..],"g":G}`: the word w over the alphabet, and (G>0) every extension of it
    /// by 1..G symbols.  TLC visits each of those words as a state; it prints them grouped by stem.
    Short { p: &'static str, w: Vec<usize>, g: usize },
    /// `{"k":"in","p":..,"fam":..,"b":[..]}` one input
    One { p: &'static str, fam: String, b: Vec<u8> },
}

struct Plan {
    groups: Vec<Group>,
    alpha: std::collections::HashMap<&'static str, Vec<Vec<u8>>>,
    seeds: std::collections::HashMap<&'static str, Vec<Vec<u8>>>,
    /// `uni` of the alphabet lines: one multi-byte representative per Unicode class that Rust's char predicates and
    /// case mappings distinguish (Mutants.tla UniVals); the random generator draws from it too
    uni: Vec<Vec<u8>>,
    random: u64,
    random_maxlen: usize,
    deep: Vec<usize>,
    big: bool,
    seed: u64,
}

impl Plan {
    fn load(path: &str) -> Plan {
        let f = std::fs::File::open(path).expect("cases file");
        let mut plan = Plan {
            groups: Vec::new(),
            alpha: Default::default(),
            seeds: Default::default(),
            uni: Vec::new(),
            random: 0,
            random_maxlen: 64,
            deep: Vec::new(),
            big: false,
            seed: hv::util::seed_from_env(),
        };
        for line in BufReader::new(f).lines() {
            let line = line.expect("read");
            if !line.starts_with('{') {
                continue;
            }
            let v: J = match serde_json::from_str(&line) {
                Ok(v) => v,
                Err(e) => panic!("bad case line {}: {}", line, e),
            };
            let p = match v["p"].as_str().and_then(intern_parser) {
                Some(p) => p,
                None => panic!("unknown parser in {}", line),
            };
            match v["k"].as_str().unwrap_or("") {
                "alpha" => {
                    let syms: Vec<Vec<u8>> = v["syms"].as_array().expect("syms").iter().map(bytes_of).collect();
                    plan.alpha.insert(p, syms);
                    if let Some(u) = v["uni"].as_array() {
                        plan.uni = u.iter().map(bytes_of).collect();
                    }
                    plan.groups.push(Group::Alpha);
                }
                "short" => {
                    let w: Vec<usize> = v["w"].as_array().expect("w").iter().map(|x| x.as_u64().unwrap() as usize).collect();
                    plan.groups.push(Group::Short { p, w, g: v["g"].as_u64().unwrap_or(0) as usize });
                }
                "in" => {
                    let fam = v["fam"].as_str().unwrap_or("").to_string();
                    let b = bytes_of(&v["b"]);
                    if let Some(l) = v["len"].as_u64() {
                        // the length TLC computed for the input it printed: decoding must agree
                        assert!(l as usize == b.len(), "length mismatch on line {}", line);
                    }
                    if fam == "seed" {
                        plan.seeds.entry(p).or_default().push(b.clone());
                    }
                    plan.groups.push(Group::One { p, fam, b });
                }
                k => panic!("unknown line kind {:?}", k),
            }
        }
        plan
    }

    /// Calls `f` for every input of the plan in a fixed order; ids are consecutive from 0.
    fn for_each(&self, f: &mut dyn FnMut(Case) -> bool) {
        let mut id: u64 = 0;
        let mut emit = |p: &'static str, fam: &str, bytes: Vec<u8>, id: &mut u64| -> bool {
            let c = Case { id: *id, p, fam: fam.to_string(), bytes };
            *id += 1;
            f(c)
        };
        for g in &self.groups {
            match g {
                Group::Alpha => {}
                Group::One { p, fam, b } => {
                    if !emit(p, fam, b.clone(), &mut id) {
                        return;
                    }
                }
                Group::Short { p, w, g } => {
                    let syms = self.alpha.get(p).expect("alphabet line must precede short lines");
                    let stem: Vec<u8> = w.iter().flat_map(|i| syms[*i - 1].iter().copied()).collect();
                    // the stem, then all extensions by 1..g symbols, in lexicographic order
                    let mut stack: Vec<(Vec<u8>, usize)> = vec![(stem, 0)];
                    while let Some((cur, depth)) = stack.pop() {
                        if depth < *g {
                            for s in syms.iter().rev() {
                                let mut n = cur.clone();
                                n.extend_from_slice(s);
                                stack.push((n, depth + 1));
                            }
                        }
                        if !emit(p, "short", cur, &mut id) {
                            return;
                        }
                    }
                }
            }
        }
        // ---- Rust-side seeded generator: what TLC should not enumerate ----
        let mut rng = Rng::new(self.seed ^ 0xC03);
        let parsers: Vec<&'static str> = PARSERS.iter().copied().filter(|p| self.alpha.contains_key(p)).collect();
        for n in 0..self.random {
            let p = parsers[(n as usize) % parsers.len().max(1)];
            let (fam, bytes) = match n % 3 {
                0 => {
                    // unstructured bytes, lengths biased to short
                    let len = if rng.chance(1, 8) { rng.range(0, self.random_maxlen) } else { rng.range(0, 24.min(self.random_maxlen)) };
                    ("rand-bytes", rng.bytes(len))
                }
                1 => {
                    // token soup over the TLC alphabet of the parser
                    let syms = &self.alpha[p];
                    let k = rng.range(5, 40);
                    let mut b = Vec::new();
                    for _ in 0..k {
                        let t: &Vec<u8> = if !self.uni.is_empty() && rng.chance(1, 6) { rng.pick(&self.uni[..]) } else { rng.pick(&syms[..]) };
                        b.extend_from_slice(t);
                    }
                    ("rand-alpha", b)
                }
                _ => {
                    // multi-site random mutation of a TLC seed
                    let empty: Vec<Vec<u8>> = vec![Vec::new()];
                    let seeds = self.seeds.get(p).unwrap_or(&empty);
                    let mut b: Vec<u8> = rng.pick(&seeds[..]).clone();
                    let syms = &self.alpha[p];
                    for _ in 0..rng.range(1, 6) {
                        let at = if b.is_empty() { 0 } else { rng.below(b.len() + 1) };
                        match rng.below(6) {
                            0 if !b.is_empty() => {
                                let a = at.min(b.len() - 1);
                                b.remove(a);
                            }
                            1 => b.insert(at, rng.byte()),
                            2 if !b.is_empty() => {
                                let a = at.min(b.len() - 1);
                                b[a] = rng.byte();
                            }
                            3 => {
                                let t: Vec<u8> = if !self.uni.is_empty() && rng.chance(1, 2) { rng.pick(&self.uni[..]).clone() } else { rng.pick(&syms[..]).clone() };
                                for (k, x) in t.iter().enumerate() {
                                    b.insert(at + k, *x);
                                }
                            }
                            4 if !b.is_empty() => {
                                let a = at.min(b.len() - 1);
                                b.truncate(a);
                            }
                            _ => {
                                if !b.is_empty() {
                                    let a = rng.below(b.len());
                                    let e = (a + rng.range(1, 16)).min(b.len());
                                    let seg: Vec<u8> = b[a..e].to_vec();
                                    for (k, x) in seg.iter().enumerate() {
                                        b.insert(at.min(b.len()).min(a + k + seg.len()), *x);
                                    }
                                }
                            }
                        }
                    }
                    ("rand-mut", b)
                }
            };
            if !emit(p, fam, bytes, &mut id) {
                return;
            }
        }
        // nesting far beyond the bound TLC enumerates
        for n in &self.deep {
            let n = *n;
            let mut v: Vec<(&'static str, &str, Vec<u8>)> = Vec::new();
            v.push(("json", "deep-array-open", b"[".repeat(n)));
            let mut closed = b"[".repeat(n);
            closed.extend(b"]".repeat(n));
            v.push(("json", "deep-array", closed));
            v.push(("json", "deep-object-open", b"{\"a\":".repeat(n)));
            let mut c = b"server {\n".to_vec();
            c.extend(b"s {\n".repeat(n));
            v.push(("conf", "deep-section-open", c.clone()));
            c.extend(b"}\n".repeat(n + 1));
            v.push(("conf", "deep-section", c));
            // every container kind by itself and mixed (a depth counter that forgets one kind shows only there)
            let mut o = b"{\"a\":".repeat(n);
            o.push(b'1');
            o.extend(b"}".repeat(n));
            v.push(("json", "deep-object", o));
            v.push(("json", "deep-mixed-open", b"[{\"a\":".repeat(n)));
            for (fam, unit, per) in [("deep-host", &b"host a {\n"[..], 1usize), ("deep-route", &b"route /a {\n"[..], 1), ("deep-mixed", &b"s {\nhost \"h\" {\nroute /* {\n"[..], 3)] {
                let mut c = b"server {\n".to_vec();
                c.extend(unit.repeat(n));
                v.push(("conf", if per == 1 && fam == "deep-host" { "deep-host-open" } else if fam == "deep-route" { "deep-route-open" } else { "deep-mixed-open" }, c.clone()));
                c.extend(b"}\n".repeat(per * n + 1));
                v.push(("conf", fam, c));
            }
            for (p, fam, b) in v {
                if self.alpha.contains_key(p) && !emit(p, fam, b, &mut id) {
                    return;
                }
            }
        }
        // repetition of a unit that the grammar lets repeat or a lenient parser may skip (interim responses, blank lines,
        // folded lines, empty fragments, white space), far beyond what TLC enumerates: a parser that handles "one more"
        // by calling itself is total on every short input and dies on a long run (added after the seeded change
        // `C03-r5-http-response-parser-skips-100-continue` - unbounded recursion over 100 Continue - was missed)
        for n in &self.deep {
            let n = *n;
            let mut v: Vec<(&'static str, String, Vec<u8>)> = Vec::new();
            for (code, phrase) in [("100", "Continue"), ("102", "Processing"), ("103", "Early Hints"), ("199", "X")] {
                let unit = format!("HTTP/1.1 {} {}\r\n\r\n", code, phrase).into_bytes();
                let mut r = unit.repeat(n);
                v.push(("resp", format!("repeat-interim-{}-open", code), r.clone()));
                r.extend_from_slice(b"HTTP/1.1 200 OK\r\nContent-Length: 2\r\n\r\nok");
                v.push(("resp", format!("repeat-interim-{}", code), r));
            }
            for (p, first) in [("req", &b"GET / HTTP/1.1\r\n"[..]), ("resp", &b"HTTP/1.1 200 OK\r\n"[..])] {
                let mut r = b"\r\n".repeat(n);
                r.extend_from_slice(first);
                r.extend_from_slice(b"Host: a\r\n\r\n");
                v.push((p, "repeat-leading-crlf".into(), r));
                let mut r = first.to_vec();
                r.extend_from_slice(b"X-A: b\r\n");
                r.extend(b" c\r\n".repeat(n));
                r.extend_from_slice(b"\r\n");
                v.push((p, "repeat-folded-lines".into(), r));
                let mut r = first.to_vec();
                r.extend(b"A: b\r\n".repeat(n));
                r.extend_from_slice(b"\r\n");
                v.push((p, "repeat-same-header".into(), r));
            }
            let mut r = b"HTTP/1.1 200 OK\r\nTransfer-Encoding: chunked\r\n\r\n".to_vec();
            r.extend(b"1\r\na\r\n".repeat(n));
            v.push(("resp", "repeat-chunks-open".into(), r.clone()));
            r.extend_from_slice(b"0\r\n");
            r.extend(b"T: v\r\n".repeat(n));
            r.extend_from_slice(b"\r\n");
            v.push(("resp", "repeat-chunks-trailers".into(), r));
            let mut m = vec![0x01u8, 0x00];
            m.extend([0x00u8, 0x00].repeat(n));
            v.push(("wsmsg", "repeat-empty-fragments-open".into(), m.clone()));
            m.extend_from_slice(&[0x80, 0x00]);
            v.push(("wsmsg", "repeat-empty-fragments".into(), m));
            let mut m = [0x8au8, 0x00].repeat(n);
            m.extend_from_slice(&[0x81, 0x01, b'a']);
            v.push(("wsmsg", "repeat-pongs-then-text".into(), m));
            let mut m = [0x89u8, 0x00].repeat(n);
            m.extend_from_slice(&[0x81, 0x01, b'a']);
            v.push(("wsmsg", "repeat-pings-then-text".into(), m));
            for ws in [&b" "[..], &b"\n"[..], &b"\r\n\t"[..]] {
                let mut j = ws.repeat(n);
                j.extend_from_slice(b"[1,");
                j.extend(ws.repeat(n));
                j.extend_from_slice(b"2]");
                j.extend(ws.repeat(n));
                v.push(("json", "repeat-whitespace".into(), j));
            }
            let mut j = b"[".to_vec();
            j.extend(b"[],".repeat(n));
            j.extend_from_slice(b"0]");
            v.push(("json", "repeat-empty-siblings".into(), j));
            let mut j = b"\"".to_vec();
            j.extend(b"\\n".repeat(n));
            j.push(b'"');
            v.push(("json", "repeat-escapes".into(), j));
            for unit in [&b"\n"[..], &b"# c\n"[..], &b"   \n"[..], &b"k v\n"[..]] {
                let mut c = unit.repeat(n);
                c.extend_from_slice(b"server {\n");
                c.extend(unit.repeat(n));
                c.extend_from_slice(b"}\n");
                c.extend(unit.repeat(n));
                v.push(("conf", "repeat-lines".into(), c));
            }
            let mut c = b"server {\n".to_vec();
            c.extend(b"s {\n}\n".repeat(n));
            c.extend_from_slice(b"}\n");
            v.push(("conf", "repeat-sibling-sections".into(), c));
            for (p, fam, b) in v {
                if self.alpha.contains_key(p) && !emit(p, &fam, b, &mut id) {
                    return;
                }
            }
        }
        // complete control frames (Close, Ping, Pong) whose payload sits around the 125-byte limit RFC 6455 gives them and around
        // the length-form boundaries, unmasked and masked, each followed by a text frame: the frame decoder does not enforce the
        // limit, so whatever echoes or stores such a payload (the Pong / Close reply) meets more than 125 bytes.  Always on.
        // Added after a seeded fixed 127-byte reply buffer was missed (round 7): control frames only came empty or 3 bytes long.
        {
            let mut v: Vec<(&'static str, String, Vec<u8>)> = Vec::new();
            for (op, name) in [(0x88u8, "close"), (0x89, "ping"), (0x8a, "pong")] {
                for len in [0usize, 1, 2, 124, 125, 126, 127, 128, 300, 65535, 65536, 70000] {
                    for masked in [false, true] {
                        let mut f = vec![op];
                        let mb = if masked { 0x80u8 } else { 0 };
                        if len < 126 { f.push(mb | len as u8); }
                        else if len < 65536 { f.push(mb | 126); f.extend_from_slice(&(len as u16).to_be_bytes()); }
                        else { f.push(mb | 127); f.extend_from_slice(&(len as u64).to_be_bytes()); }
                        let key = [0x11u8, 0x22, 0x33, 0x44];
                        if masked { f.extend_from_slice(&key); }
                        // a Close payload starts with a status code (1000); the rest is filler
                        let mut pl: Vec<u8> = (0..len).map(|i| b'a' + (i % 23) as u8).collect();
                        if op == 0x88 && len >= 2 { pl[0] = 0x03; pl[1] = 0xe8; }
                        if masked { for (i, b) in pl.iter_mut().enumerate() { *b ^= key[i % 4]; } }
                        f.extend(pl);
                        f.extend_from_slice(&[0x81, 0x01, b'a']);
                        let fam = format!("ctl-{}-{}{}", name, len, if masked { "-masked" } else { "" });
                        for p in ["wsframe", "wsmsg", "wsmsgnb"] {
                            v.push((p, fam.clone(), f.clone()));
                        }
                    }
                }
            }
            for (p, fam, b) in v {
                if self.alpha.contains_key(p) && !emit(p, &fam, b, &mut id) {
                    return;
                }
            }
        }
        if self.big {
            let mut v: Vec<(&'static str, &str, Vec<u8>)> = Vec::new();
            let r64k = rng.bytes(65536);
            for p in ["req", "resp", "wsframe", "wsmsg", "json", "conf"] {
                v.push((p, "big-random-64k", r64k.clone()));
                v.push((p, "big-a-64k", vec![b'a'; 65536]));
            }
            // long lines / long tokens actually supplied (memory proportional to what is supplied is fine)
            let mut r = b"GET /".to_vec();
            r.extend(vec![b'a'; 60000]);
            r.extend_from_slice(b" HTTP/1.1\r\nHost: a\r\n\r\n");
            v.push(("req", "big-long-uri", r));
            let mut r = b"GET / HTTP/1.1\r\n".to_vec();
            for i in 0..2000 {
                r.extend_from_slice(format!("X-H{}: v{}\r\n", i, i).as_bytes());
            }
            r.extend_from_slice(b"\r\n");
            v.push(("req", "big-2000-headers", r.clone()));
            let mut r2 = b"HTTP/1.1 200 OK\r\n".to_vec();
            r2.extend_from_slice(&r[16..]);
            v.push(("resp", "big-2000-headers", r2));
            let mut r = b"HTTP/1.1 200 OK\r\nTransfer-Encoding: chunked\r\n\r\n".to_vec();
            for _ in 0..3000 {
                r.extend_from_slice(b"5\r\nhello\r\n");
            }
            r.extend_from_slice(b"0\r\n\r\n");
            v.push(("resp", "big-3000-chunks", r));
            let mut r = b"POST / HTTP/1.1\r\nContent-Length: 60000\r\n\r\n".to_vec();
            r.extend(vec![b'x'; 60000]);
            v.push(("req", "big-body-60000", r));
            let mut m = Vec::new();
            for _ in 0..5000 {
                m.extend_from_slice(&[0x01, 0x03, b'a', b'b', b'c']);
            }
            m.extend_from_slice(&[0x80, 0x00]);
            v.push(("wsmsg", "big-5000-fragments", m));
            let mut m = Vec::new();
            for _ in 0..5000 {
                m.extend_from_slice(&[0x89, 0x03, b'a', b'b', b'c']);
            }
            v.push(("wsmsg", "big-5000-pings", m));
            let mut j = b"[".to_vec();
            for i in 0..10000 {
                j.extend_from_slice(format!("{},", i).as_bytes());
            }
            j.extend_from_slice(b"0]");
            v.push(("json", "big-10000-elements", j));
            let mut j = b"\"".to_vec();
            j.extend(vec![b'x'; 65000]);
            j.push(b'"');
            v.push(("json", "big-string", j));
            let mut c = b"server {\n".to_vec();
            for i in 0..5000 {
                c.extend_from_slice(format!("key{} {}\n", i, i).as_bytes());
            }
            c.extend_from_slice(b"}\n");
            v.push(("conf", "big-5000-keys", c));
            for (p, fam, b) in v {
                if self.alpha.contains_key(p) && !emit(p, fam, b, &mut id) {
                    return;
                }
            }
        }
    }
}

// ------------------------------------------------------------------------------------------------
// supervisor
// ------------------------------------------------------------------------------------------------

struct Item {
    case: std::sync::Arc<Case>,
    d: &'static str,
    limit_ms: u64,
    retried: u8,
}

struct WorkerProc {
    child: std::process::Child,
    stdin: Option<std::process::ChildStdin>,
    stdout: BufReader<std::process::ChildStdout>,
    stderr: Option<std::thread::JoinHandle<String>>,
}

/// `--worker-exe`: the binary that serves as worker (default: this one; the tokio twin for `reqtk`)
static WORKER_EXE: std::sync::OnceLock<std::path::PathBuf> = std::sync::OnceLock::new();

fn spawn_worker(rlimit_mb: u64, stack_kib: usize, cwd: &str) -> WorkerProc {
    let exe = WORKER_EXE.get().cloned().unwrap_or_else(|| std::env::current_exe().expect("current_exe"));
    let mut child = std::process::Command::new(exe)
        .arg("worker")
        .arg(rlimit_mb.to_string())
        .arg(stack_kib.to_string())
        .current_dir(cwd)
        .stdin(std::process::Stdio::piped())
        .stdout(std::process::Stdio::piped())
        .stderr(std::process::Stdio::piped())
        .spawn()
        .expect("spawn worker");
    let stdin = child.stdin.take();
    let stdout = BufReader::new(child.stdout.take().unwrap());
    let mut err = child.stderr.take().unwrap();
    let stderr = Some(std::thread::spawn(move || {
        let mut s = String::new();
        let mut buf = [0u8; 4096];
        while let Ok(n) = err.read(&mut buf) {
            if n == 0 {
                break;
            }
            if s.len() < 16384 {
                s.push_str(&String::from_utf8_lossy(&buf[..n]));
            }
        }
        s
    }));
    WorkerProc { child, stdin, stdout, stderr }
}

/// How the worker process ended, as seen by the supervisor.
fn classify_exit(st: &std::process::ExitStatus, stderr: &str) -> &'static str {
    use std::os::unix::process::ExitStatusExt;
    if let Some(sig) = st.signal() {
        if stderr.contains("has overflowed its stack") {
            return "stack";
        }
        return match sig {
            libc::SIGABRT => "abort",
            libc::SIGSEGV | libc::SIGBUS => "segv",
            libc::SIGKILL => "kill",
            _ => "abort",
        };
    }
    match st.code() {
        Some(0) => "clean",
        Some(97) => "self-timeout",
        Some(99) => "self-oom",
        _ => "abort",
    }
}

/// Fail-fast bookkeeping, shared by all shards: confirmed hangs and deaths per (parser, delivery).
/// On a healthy tree both stay 0 and nothing below ever triggers.  Once a (parser, delivery) has HANG_LIMIT logged
/// timeouts (or DEATH_LIMIT logged aborts / stack overflows / allocation failures), its remaining inputs are not
/// run (they are counted as `skipped`): the violation is established and reported with the inputs found so far, and
/// every further hang would cost a watchdog period.  The first hang of a (parser, delivery) is confirmed with the
/// full escalation (5 s, 15 s, 30 s); later ones count after the first watchdog step.
static FATALS: std::sync::Mutex<Option<std::collections::HashMap<(&'static str, &'static str), (u64, u64)>>> = std::sync::Mutex::new(None);
const HANG_LIMIT: u64 = 5;
const DEATH_LIMIT: u64 = 50;

fn fatals_of(p: &'static str, d: &'static str) -> (u64, u64) {
    FATALS.lock().ok().and_then(|g| g.as_ref().and_then(|m| m.get(&(p, d)).copied())).unwrap_or((0, 0))
}
fn note_fatal(p: &'static str, d: &'static str, hang: bool) {
    if let Ok(mut g) = FATALS.lock() {
        let e = g.get_or_insert_with(Default::default).entry((p, d)).or_insert((0, 0));
        if hang {
            e.0 += 1;
        } else {
            e.1 += 1;
        }
    }
}
fn given_up(p: &'static str, d: &'static str) -> bool {
    let (h, k) = fatals_of(p, d);
    h >= HANG_LIMIT || k >= DEATH_LIMIT
}

struct ShardOut {
    skipped: std::collections::BTreeMap<String, u64>,
    records: u64,
    restarts: u64,
    by_outcome: std::collections::BTreeMap<String, u64>,
    max_kib_over_len: (u64, u64, u64),
    not_total: Vec<J>,
    max_us: u64,
    ok_hashes: std::collections::HashSet<u64>,
}

fn case_hash(p: &str, bytes: &[u8]) -> u64 {
    hv::util::fnv64(bytes) ^ hv::util::fnv64(p.as_bytes()).rotate_left(17)
}

#[allow(clippy::too_many_arguments)]
fn run_shard(
    shard: usize,
    rx: std::sync::mpsc::Receiver<Item>,
    log_path: String,
    rlimit_mb: u64,
    stack_kib: usize,
    cwd: String,
    window: usize,
    keep: usize,
) -> ShardOut {
    let mut log = std::io::BufWriter::with_capacity(1 << 20, std::fs::File::create(&log_path).expect("log file"));
    let mut out = ShardOut { skipped: Default::default(), records: 0, restarts: 0, by_outcome: Default::default(), max_kib_over_len: (0, 0, 0), not_total: Vec::new(), max_us: 0, ok_hashes: Default::default() };
    let mut pending: VecDeque<Item> = VecDeque::new(); // sent to the current worker, unanswered (front = in flight)
    let mut resend: VecDeque<Item> = VecDeque::new(); // must be sent again to the next worker
    let mut gen: u64 = 0; // worker generation of this shard
    let mut n: u64 = 0; // sequence number of the record within this shard
    let mut input_done = false;
    let mut w: Option<WorkerProc> = None;
    let mut last_terminal = false;
    let mut retry_item: Option<Item> = None; // a timed-out case waiting for its longer second / third attempt
    let mut fatal_logged = false; // the death of the current worker is accounted for by a logged record

    let mut rt: u64 = 0; // restarts of the worker that no logged record accounts for (retried timeouts)
    let mut write_rec = |it: &Item, o: &str, kibv: u64, big: u64, cls: &str, at: &str, us: u64, src: &str, gen: u64, rt: u64, n: &mut u64, out: &mut ShardOut| {
        let (file, line) = match at.rsplit_once(':') {
            Some((f, l)) if l.parse::<u64>().is_ok() => (f, l.parse::<u64>().unwrap()),
            _ => ("", 0),
        };
        let rec = json!({
            "id": it.case.id, "p": it.case.p, "d": it.d, "o": o, "kib": kibv, "big": big, "len": it.case.bytes.len(),
            "cls": cls, "file": file, "line": line, "fam": it.case.fam, "sh": shard, "g": gen, "n": *n, "rt": rt, "src": src,
        });
        *n += 1;
        out.records += 1;
        *out.by_outcome.entry(o.to_string()).or_insert(0) += 1;
        if o == "ok" {
            out.ok_hashes.insert(case_hash(it.case.p, &it.case.bytes));
        }
        if us > out.max_us {
            out.max_us = us;
        }
        let len = it.case.bytes.len() as u64;
        // bookkeeping for the evidence only (the verdict is TLC's): largest peak relative to the bound
        let bound = len + 65536;
        if kibv * out.max_kib_over_len.1.max(1) > out.max_kib_over_len.0 * bound || out.max_kib_over_len.1 == 0 {
            out.max_kib_over_len = (kibv, bound, it.case.id);
        }
        if (o != "ok" && o != "err") || kibv > bound {
            if out.not_total.len() < keep {
                let mut r = rec.clone();
                r["hex"] = J::String(hex_encode(&it.case.bytes[..it.case.bytes.len().min(4096)]));
                r["us"] = json!(us);
                if src == "sup" {
                    r["stderr"] = J::String(at.to_string());
                }
                out.not_total.push(r);
            }
        }
        let _ = writeln!(log, "{}", rec);
    };

    loop {
        // (re)start
        if w.is_none() {
            if resend.is_empty() && pending.is_empty() && input_done {
                break;
            }
            if resend.is_empty() && pending.is_empty() {
                // peek: anything left at all?
                match rx.recv() {
                    Ok(it) => resend.push_back(it),
                    Err(_) => {
                        input_done = true;
                        continue;
                    }
                }
            }
            w = Some(spawn_worker(rlimit_mb, stack_kib, &cwd));
            last_terminal = false;
            fatal_logged = false;
        }
        let wp = w.as_mut().unwrap();
        // fill the window (Sup_Send)
        let mut broken = false;
        while pending.len() < window && wp.stdin.is_some() {
            let it = if let Some(it) = resend.pop_front() {
                it
            } else if input_done {
                break;
            } else {
                match rx.recv() {
                    Ok(it) => it,
                    Err(_) => {
                        input_done = true;
                        break;
                    }
                }
            };
            if it.retried == 0 && given_up(it.case.p, it.d) {
                *out.skipped.entry(format!("{}/{}", it.case.p, it.d)).or_insert(0) += 1;
                continue;
            }
            let line = format!("{} {} {} {} {}\n", it.case.id, it.case.p, it.d, it.limit_ms, hex_encode(&it.case.bytes));
            let ok = wp.stdin.as_mut().unwrap().write_all(line.as_bytes()).is_ok();
            pending.push_back(it);
            if !ok {
                broken = true;
                break;
            }
        }
        if broken || (input_done && resend.is_empty()) {
            // Sup_CloseStdin: the worker exits cleanly after the last case (Wrk_Eof) / is already dead
            wp.stdin = None;
        }
        // read one result (Sup_Read) or EOF (Sup_Reap)
        let mut line = String::new();
        let got = wp.stdout.read_line(&mut line).unwrap_or(0);
        if got > 0 {
            let v: J = serde_json::from_str(line.trim_end()).unwrap_or(J::Null);
            let id = v["id"].as_u64();
            let front_ok = pending.front().map(|it| Some(it.case.id) == id).unwrap_or(false);
            if !front_ok {
                eprintln!("parsefuzz: shard {} unexpected worker line {:?}", shard, line);
                std::process::exit(3);
            }
            let it = pending.pop_front().unwrap();
            let o = v["o"].as_str().unwrap_or("?").to_string();
            last_terminal = o == "timeout" || o == "oom";
            fatal_logged = last_terminal;
            if o == "timeout" && it.retried < 2 && fatals_of(it.case.p, it.d).0 == 0 {
                // escalating waits (5 s, 15 s, 30 s): run it again at the head of a fresh worker with a longer limit;
                // only the third timeout is logged (the restarts in between are declared in the log as `rt`).  Once
                // this (parser, delivery) has a confirmed hang, later timeouts count after the first step.
                let factor = if it.retried == 0 { 3 } else { 2 };
                retry_item = Some(Item { case: it.case.clone(), d: it.d, limit_ms: it.limit_ms * factor, retried: it.retried + 1 });
                fatal_logged = false;
                continue;
            }
            if o == "timeout" || o == "oom" {
                note_fatal(it.case.p, it.d, o == "timeout");
            }
            write_rec(&it, &o, v["kib"].as_u64().unwrap_or(0), v["big"].as_u64().unwrap_or(0), v["cls"].as_str().unwrap_or(""),
                      v["at"].as_str().unwrap_or(""), v["us"].as_u64().unwrap_or(0), "worker", gen, rt, &mut n, &mut out);
            continue;
        }
        // EOF: the worker is gone. Reap it.
        let mut wp = w.take().unwrap();
        wp.stdin = None;
        let st = wp.child.wait().expect("wait");
        let stderr = wp.stderr.take().map(|h| h.join().unwrap_or_default()).unwrap_or_default();
        let how = classify_exit(&st, &stderr);
        if how == "clean" && pending.is_empty() {
            gen += 1;
            continue;
        }
        out.restarts += 1;
        if !last_terminal && how != "clean" {
            // attribution: the first unanswered case was in flight when the process died
            // SIGKILL is never sent by the code under test; on a loaded machine it is the kernel's OOM killer picking a
            // victim.  The case in flight is run again in a fresh worker (twice at most) before a kill is believed.
            if how == "kill" && pending.front().map(|it| it.retried < 2).unwrap_or(false) {
                let it = pending.pop_front().unwrap();
                retry_item = Some(Item { case: it.case.clone(), d: it.d, limit_ms: it.limit_ms, retried: it.retried + 1 });
            } else if let Some(it) = pending.pop_front() {
                let o = match how {
                    "self-timeout" | "self-oom" => "abort", // exit code without its record: treat as death
                    x => x,
                };
                note_fatal(it.case.p, it.d, false);
                write_rec(&it, o, KIB_SAT, KIB_SAT, "", stderr.lines().last().unwrap_or(""), 0, "sup", gen, rt, &mut n, &mut out);
                fatal_logged = true;
            }
        } else if how == "clean" && !pending.is_empty() {
            eprintln!("parsefuzz: shard {} worker exited cleanly with {} unanswered cases", shard, pending.len());
            std::process::exit(3);
        }
        gen += 1;
        if !fatal_logged {
            rt += 1;
        }
        fatal_logged = false;
        // everything else that was sent must be sent again, in order, before new input
        while let Some(it) = pending.pop_back() {
            resend.push_front(it);
        }
        if let Some(it) = retry_item.take() {
            resend.push_front(it); // the retried case runs first, at the head of the fresh worker
        }
    }
    let _ = log.flush();
    out
}

fn arg_val<'a>(args: &'a [String], name: &str) -> Option<&'a str> {
    args.iter().position(|a| a == name).and_then(|i| args.get(i + 1)).map(|s| s.as_str())
}

/// `parsefuzz run --cases F --log-prefix P [--shards N] [--rlimit-mb M] [--stack-kib K] [--watchdog-ms T]
///                [--random N] [--random-maxlen L] [--deep a,b,c] [--big]
///                [--worker-exe PATH] [--only-parser p [--as-parser q]]`
fn supervisor(args: &[String]) {
    let cases = arg_val(args, "--cases").expect("--cases");
    let prefix = arg_val(args, "--log-prefix").expect("--log-prefix").to_string();
    let shards: usize = arg_val(args, "--shards").and_then(|s| s.parse().ok()).unwrap_or(4);
    let rlimit_mb: u64 = arg_val(args, "--rlimit-mb").and_then(|s| s.parse().ok()).unwrap_or(1024);
    let stack_kib: usize = arg_val(args, "--stack-kib").and_then(|s| s.parse().ok()).unwrap_or(2048);
    let watchdog: u64 = arg_val(args, "--watchdog-ms").and_then(|s| s.parse().ok()).unwrap_or(5000);
    if let Some(x) = arg_val(args, "--worker-exe") {
        let _ = WORKER_EXE.set(std::path::PathBuf::from(x));
    }
    // `--only-parser p`: run only the inputs of parser p; `--as-parser q`: ... and hand them to the worker as parser q
    let only: Option<&'static str> = arg_val(args, "--only-parser").and_then(intern_parser);
    let rename: Option<&'static str> = arg_val(args, "--as-parser").and_then(intern_parser);
    let mut plan = Plan::load(cases);
    plan.random = arg_val(args, "--random").and_then(|s| s.parse().ok()).unwrap_or(0);
    plan.random_maxlen = arg_val(args, "--random-maxlen").and_then(|s| s.parse().ok()).unwrap_or(64);
    plan.deep = arg_val(args, "--deep").map(|s| s.split(',').filter_map(|x| x.parse().ok()).collect()).unwrap_or_default();
    plan.big = args.iter().any(|a| a == "--big");
    let cwd = format!("{}.cwd", prefix);
    let _ = std::fs::create_dir_all(&cwd);

    let t0 = Instant::now();
    let mut txs = Vec::new();
    let mut handles = Vec::new();
    for s in 0..shards {
        let (tx, rx) = std::sync::mpsc::sync_channel::<Item>(4096);
        txs.push(tx);
        let lp = format!("{}.{}.ndjson", prefix, s);
        let cwd = cwd.clone();
        handles.push(std::thread::spawn(move || run_shard(s, rx, lp, rlimit_mb, stack_kib, cwd, 32, 40)));
    }
    let mut inputs: u64 = 0;
    let mut items: u64 = 0;
    let mut by_family: std::collections::BTreeMap<String, u64> = Default::default();
    let mut samples: Vec<J> = Vec::new();
    let mut distinct: std::collections::HashSet<u64> = Default::default();
    let mut structured: std::collections::HashSet<u64> = Default::default();
    let mut maxlen = 0usize;
    plan.for_each(&mut |mut c: Case| {
        if let Some(o) = only {
            if c.p != o {
                return true;
            }
            if let Some(q) = rename {
                c.p = q;
            }
        }
        inputs += 1;
        *by_family.entry(format!("{}/{}", c.p, c.fam)).or_insert(0) += 1;
        maxlen = maxlen.max(c.bytes.len());
        let h = case_hash(c.p, &c.bytes);
        distinct.insert(h);
        if c.fam != "short" && c.fam != "rand-bytes" && c.fam != "rand-alpha" {
            structured.insert(h);
        }
        if samples.len() < 6 && c.fam != "short" && c.fam != "seed" && c.id % 977 == 5 {
            samples.push(json!({"p": c.p, "fam": c.fam, "hex": hex_encode(&c.bytes[..c.bytes.len().min(48)])}));
        }
        let limit = if c.bytes.len() <= 65536 { watchdog } else { watchdog * 4 };
        let c = std::sync::Arc::new(c);
        for d in deliveries(c.p, &c.bytes) {
            let sh = (items as usize) % shards;
            items += 1;
            if txs[sh].send(Item { case: c.clone(), d, limit_ms: limit, retried: 0 }).is_err() {
                return false;
            }
        }
        true
    });
    drop(txs);
    let mut records = 0;
    let mut restarts = 0;
    let mut by_outcome: std::collections::BTreeMap<String, u64> = Default::default();
    let mut not_total: Vec<J> = Vec::new();
    let mut worst = (0u64, 1u64, 0u64);
    let mut max_us = 0;
    let mut accepted: u64 = 0;
    let mut skipped: std::collections::BTreeMap<String, u64> = Default::default();
    for h in handles {
        let o = h.join().expect("shard thread");
        records += o.records;
        restarts += o.restarts;
        for (k, v) in o.by_outcome {
            *by_outcome.entry(k).or_insert(0) += v;
        }
        for (k, v) in o.skipped {
            *skipped.entry(k).or_insert(0) += v;
        }
        not_total.extend(o.not_total);
        accepted += o.ok_hashes.len() as u64;
        structured.extend(o.ok_hashes);
        if o.max_kib_over_len.0 * worst.1 > worst.0 * o.max_kib_over_len.1 {
            worst = o.max_kib_over_len;
        }
        max_us = max_us.max(o.max_us);
    }
    let skipped_total: u64 = skipped.values().sum();
    let _ = std::fs::remove_dir_all(&cwd);
    hv::util::out_line(&json!({
        "summary": true, "inputs": inputs, "distinct_inputs": distinct.len(), "distinct_nontrivial": structured.len(),
        "accepted_by_shard_sum": accepted, "items": items, "records": records,
        "worker_restarts": restarts, "skipped": skipped, "skipped_total": skipped_total, "by_outcome": by_outcome, "by_family": by_family, "not_total": not_total,
        "worst_kib": {"kib": worst.0, "bound_kib": worst.1, "id": worst.2}, "max_call_us": max_us, "max_input_len": maxlen,
        "shards": shards, "rlimit_mb": rlimit_mb, "stack_kib": stack_kib, "watchdog_ms": watchdog,
        "wall_s": t0.elapsed().as_secs_f64(), "samples": samples,
    }));
}

fn main() {
    let args: Vec<String> = std::env::args().skip(1).collect();
    match args.first().map(|s| s.as_str()) {
        Some("worker") => worker::worker(&args[1..], run_parser),
        Some("run") => supervisor(&args[1..]),
        Some("probe") => {
            install_panic_capture();
            let p = args.get(1).expect("parser").clone();
            let d = args.get(2).expect("delivery").clone();
            let bytes = hex_decode(args.get(3).map(|s| s.as_str()).unwrap_or(""));
            let th = std::thread::Builder::new().stack_size(2048 << 10).spawn(move || {
                let o = measured_call(run_parser, &p, &d, &bytes);
                hv::util::out_line(&json!({"p": p, "d": d, "o": o.o, "kib": o.kib, "big": o.big, "len": bytes.len(), "cls": o.cls, "at": o.at, "us": o.us}));
            });
            let _ = th.expect("spawn").join();
        }
        _ => {
            eprintln!("usage: parsefuzz run|worker|probe ...");
            std::process::exit(2);
        }
    }
}

