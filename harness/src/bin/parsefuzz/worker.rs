//! Worker side of the C03 harness (shared by harness/src/bin/parsefuzz and its tokio twin in harness-tokio):
//! counting #[global_allocator], panic capture, the measured call, the worker loop with its watchdog, and the
//! scripted reader.  The parsers themselves are supplied by the binary as a `RunFn`.
#![allow(dead_code)]

use std::alloc::{GlobalAlloc, Layout, System};
use std::io::{BufRead, Read};
use std::sync::atomic::{AtomicBool, AtomicU64, AtomicUsize, Ordering::SeqCst};
use std::sync::Mutex;
use std::time::{Duration, Instant};

use serde_json::json;

/// One parser call: (parser, delivery, bytes) -> ("ok" | "err", detail for humans)
pub type RunFn = fn(&str, &str, &[u8]) -> (&'static str, &'static str);

// ------------------------------------------------------------------------------------------------
// counting allocator
// ------------------------------------------------------------------------------------------------

pub struct Counting;
pub static CUR: AtomicUsize = AtomicUsize::new(0);
pub static PEAK: AtomicUsize = AtomicUsize::new(0);
pub static BIG: AtomicUsize = AtomicUsize::new(0);
/// id+1 of the case in flight (0 = none). Whoever swaps it back to 0 owns the right to write the record.
pub static CASE: AtomicU64 = AtomicU64::new(0);
pub static CASE_START_MS: AtomicU64 = AtomicU64::new(0);
pub static CASE_LIMIT_MS: AtomicU64 = AtomicU64::new(0);
pub static CASE_BASE: AtomicUsize = AtomicUsize::new(0);
pub static IS_WORKER: AtomicBool = AtomicBool::new(false);

#[inline]
pub fn note(size: usize) {
    BIG.fetch_max(size, SeqCst);
}
#[inline]
pub fn add(size: usize) {
    let c = CUR.fetch_add(size, SeqCst) + size;
    PEAK.fetch_max(c, SeqCst);
}

unsafe impl GlobalAlloc for Counting {
    unsafe fn alloc(&self, l: Layout) -> *mut u8 {
        note(l.size());
        let p = System.alloc(l);
        if p.is_null() {
            alloc_failed(l.size());
        } else {
            add(l.size());
        }
        p
    }
    unsafe fn alloc_zeroed(&self, l: Layout) -> *mut u8 {
        note(l.size());
        let p = System.alloc_zeroed(l);
        if p.is_null() {
            alloc_failed(l.size());
        } else {
            add(l.size());
        }
        p
    }
    unsafe fn dealloc(&self, p: *mut u8, l: Layout) {
        System.dealloc(p, l);
        CUR.fetch_sub(l.size(), SeqCst);
    }
    unsafe fn realloc(&self, p: *mut u8, l: Layout, new: usize) -> *mut u8 {
        note(new);
        let q = System.realloc(p, l, new);
        if q.is_null() {
            alloc_failed(new);
        } else if new >= l.size() {
            add(new - l.size());
        } else {
            CUR.fetch_sub(l.size() - new, SeqCst);
        }
        q
    }
}

#[global_allocator]
pub static ALLOC: Counting = Counting;

pub const KIB_SAT: u64 = 2147483647;
pub fn kib(bytes: usize) -> u64 {
    let k = (bytes as u64 >> 10) + if bytes & 1023 != 0 { 1 } else { 0 };
    k.min(KIB_SAT)
}

/// The allocator returned null (address-space limit hit): the process is about to abort in
/// handle_alloc_error. In the worker, claim the case in flight, write its record without allocating and exit.
pub fn alloc_failed(size: usize) {
    if !IS_WORKER.load(SeqCst) {
        return;
    }
    let c = CASE.swap(0, SeqCst);
    if c == 0 {
        return;
    }
    let base = CASE_BASE.load(SeqCst);
    let cur = CUR.load(SeqCst).saturating_sub(base).saturating_add(size);
    let mut buf = [0u8; 200];
    let n = fmt_record(&mut buf, c - 1, b"oom", kib(cur.max(PEAK.load(SeqCst).saturating_sub(base))), kib(size));
    unsafe {
        libc::write(1, buf.as_ptr() as *const libc::c_void, n);
        libc::_exit(99);
    }
}

pub fn put(buf: &mut [u8], at: &mut usize, s: &[u8]) {
    for b in s {
        if *at < buf.len() {
            buf[*at] = *b;
            *at += 1;
        }
    }
}
pub fn put_num(buf: &mut [u8], at: &mut usize, mut v: u64) {
    let mut d = [0u8; 20];
    let mut n = 0;
    if v == 0 {
        d[0] = b'0';
        n = 1;
    }
    while v > 0 {
        d[n] = b'0' + (v % 10) as u8;
        v /= 10;
        n += 1;
    }
    while n > 0 {
        n -= 1;
        put(buf, at, &d[n..n + 1]);
    }
}
/// allocation-free rendering of a minimal worker record
pub fn fmt_record(buf: &mut [u8], id: u64, o: &[u8], kibv: u64, big: u64) -> usize {
    let mut at = 0;
    put(buf, &mut at, b"{\"id\":");
    put_num(buf, &mut at, id);
    put(buf, &mut at, b",\"o\":\"");
    put(buf, &mut at, o);
    put(buf, &mut at, b"\",\"kib\":");
    put_num(buf, &mut at, kibv);
    put(buf, &mut at, b",\"big\":");
    put_num(buf, &mut at, big);
    put(buf, &mut at, b",\"cls\":\"\",\"at\":\"\",\"us\":0}\n");
    at
}


pub struct Script<'a> {
    pub data: &'a [u8],
    pub pos: usize,
    pub step: usize,
}
impl Read for Script<'_> {
    fn read(&mut self, buf: &mut [u8]) -> std::io::Result<usize> {
        let mut n = buf.len().min(self.data.len() - self.pos);
        if self.step > 0 {
            n = n.min(self.step);
        }
        buf[..n].copy_from_slice(&self.data[self.pos..self.pos + n]);
        self.pos += n;
        Ok(n)
    }
}

/// What keeps the peer end of the socketpair alive while the decoder runs.

// ------------------------------------------------------------------------------------------------
// panic capture
// ------------------------------------------------------------------------------------------------

pub static LAST_PANIC: Mutex<Option<(String, String)>> = Mutex::new(None);

pub fn install_panic_capture() {
    std::panic::set_hook(Box::new(|info| {
        let msg = if let Some(s) = info.payload().downcast_ref::<&str>() {
            s.to_string()
        } else if let Some(s) = info.payload().downcast_ref::<String>() {
            s.clone()
        } else {
            "?".to_string()
        };
        let at = info
            .location()
            .map(|l| {
                let f = l.file();
                // path relative to the checkout (/repo or a VERIF_REPO worktree): from the crate directory on
                let f = f.find("/humphrey").map(|i| &f[i + 1..]).unwrap_or(f);
                format!("{}:{}", f, l.line())
            })
            .unwrap_or_default();
        if let Ok(mut g) = LAST_PANIC.lock() {
            *g = Some((msg, at));
        }
    }));
}

/// Coarse class of a panic message (the trace spec's deviation predicates speak about classes, not texts).
pub fn panic_class(msg: &str) -> &'static str {
    if msg.contains("is not a char boundary") {
        "char_boundary"
    } else if msg.contains("attempt to multiply with overflow") {
        "mul_overflow"
    } else if msg.contains("attempt to") && msg.contains("overflow") {
        "arith_overflow"
    } else if msg.contains("slice index starts at") || msg.contains("begin <= end") || msg.contains("begin > end") {
        "slice_order"
    } else if msg.contains("out of range for slice") || msg.contains("index out of bounds") || msg.contains("out of bounds") {
        "index_oob"
    } else if msg.contains("capacity overflow") {
        "capacity_overflow"
    } else if msg.contains("Option::unwrap()") {
        "unwrap_none"
    } else if msg.contains("Result::unwrap()") {
        "unwrap_err"
    } else {
        "other"
    }
}

pub struct Outcome {
    pub o: &'static str,
    pub kib: u64,
    pub big: u64,
    pub cls: String,
    pub at: String,
    pub us: u64,
}

pub fn measured_call(run: RunFn, p: &str, d: &str, bytes: &[u8]) -> Outcome {
    if let Ok(mut g) = LAST_PANIC.lock() {
        *g = None;
    }
    let base = CUR.load(SeqCst);
    CASE_BASE.store(base, SeqCst);
    PEAK.store(base, SeqCst);
    BIG.store(0, SeqCst);
    let t0 = Instant::now();
    let r = std::panic::catch_unwind(std::panic::AssertUnwindSafe(|| run(p, d, bytes)));
    let us = t0.elapsed().as_micros() as u64;
    let peak = PEAK.load(SeqCst).saturating_sub(base);
    let big = BIG.load(SeqCst);
    match r {
        Ok((o, detail)) => Outcome { o, kib: kib(peak), big: kib(big), cls: detail.to_string(), at: String::new(), us },
        Err(_) => {
            let (msg, at) = LAST_PANIC.lock().ok().and_then(|mut g| g.take()).unwrap_or_default();
            Outcome { o: "panic", kib: kib(peak), big: kib(big), cls: panic_class(&msg).to_string(), at, us }
        }
    }
}

pub fn hex_decode(s: &str) -> Vec<u8> {
    let b = s.as_bytes();
    let mut out = Vec::with_capacity(b.len() / 2);
    let v = |c: u8| -> u8 {
        match c {
            b'0'..=b'9' => c - b'0',
            b'a'..=b'f' => c - b'a' + 10,
            b'A'..=b'F' => c - b'A' + 10,
            _ => 0,
        }
    };
    let mut i = 0;
    while i + 1 < b.len() {
        out.push(v(b[i]) << 4 | v(b[i + 1]));
        i += 2;
    }
    out
}
pub fn hex_encode(b: &[u8]) -> String {
    const H: &[u8; 16] = b"0123456789abcdef";
    let mut s = String::with_capacity(b.len() * 2);
    for x in b {
        s.push(H[(x >> 4) as usize] as char);
        s.push(H[(x & 15) as usize] as char);
    }
    s
}


// ------------------------------------------------------------------------------------------------
// worker
// ------------------------------------------------------------------------------------------------

pub fn now_ms(t0: &Instant) -> u64 {
    t0.elapsed().as_millis() as u64 + 1
}

pub fn raw_out(s: &[u8]) {
    let mut off = 0;
    while off < s.len() {
        let n = unsafe { libc::write(1, s[off..].as_ptr() as *const libc::c_void, s.len() - off) };
        if n <= 0 {
            unsafe { libc::_exit(96) };
        }
        off += n as usize;
    }
}

/// `parsefuzz worker <rlimit_mb> <stack_kib>`; stdin lines: `<id> <parser> <delivery> <limit_ms> <hex>`.
pub fn worker(args: &[String], run: RunFn) {
    let rlimit_mb: u64 = args.first().and_then(|s| s.parse().ok()).unwrap_or(1024);
    let stack_kib: usize = args.get(1).and_then(|s| s.parse().ok()).unwrap_or(2048);
    unsafe {
        let lim = libc::rlimit { rlim_cur: rlimit_mb << 20, rlim_max: rlimit_mb << 20 };
        if libc::setrlimit(libc::RLIMIT_AS, &lim) != 0 {
            eprintln!("setrlimit failed");
            std::process::exit(95);
        }
        let core = libc::rlimit { rlim_cur: 0, rlim_max: 0 };
        libc::setrlimit(libc::RLIMIT_CORE, &core);
    }
    install_panic_capture();
    IS_WORKER.store(true, SeqCst);
    let t0 = Instant::now();
    let done = std::sync::Arc::new(AtomicBool::new(false));
    let done2 = done.clone();
    let th = std::thread::Builder::new()
        .name("parser".into())
        .stack_size(stack_kib << 10)
        .spawn(move || {
            let stdin = std::io::stdin();
            let mut line = String::new();
            let mut lock = stdin.lock();
            loop {
                line.clear();
                match lock.read_line(&mut line) {
                    Ok(0) | Err(_) => break,
                    Ok(_) => {}
                }
                let mut it = line.trim_end().splitn(5, ' ');
                let id: u64 = it.next().and_then(|s| s.parse().ok()).unwrap_or(0);
                let p = it.next().unwrap_or("").to_string();
                let d = it.next().unwrap_or("").to_string();
                let limit: u64 = it.next().and_then(|s| s.parse().ok()).unwrap_or(5000);
                let bytes = hex_decode(it.next().unwrap_or(""));
                CASE_LIMIT_MS.store(limit, SeqCst);
                CASE_START_MS.store(now_ms(&t0), SeqCst);
                CASE.store(id + 1, SeqCst);
                let out = measured_call(run, &p, &d, &bytes);
                // claim the record; if the watchdog (or the allocator) claimed it first it has written one
                // and is terminating the process
                if CASE.swap(0, SeqCst) != id + 1 {
                    loop {
                        std::thread::sleep(Duration::from_secs(1));
                    }
                }
                let rec = json!({"id": id, "o": out.o, "kib": out.kib, "big": out.big, "cls": out.cls, "at": out.at, "us": out.us});
                let mut s = rec.to_string();
                s.push('\n');
                raw_out(s.as_bytes());
            }
            done2.store(true, SeqCst);
        })
        .expect("spawn parser thread");
    // watchdog
    while !done.load(SeqCst) {
        std::thread::sleep(Duration::from_millis(20));
        let c = CASE.load(SeqCst);
        if c != 0 {
            let start = CASE_START_MS.load(SeqCst);
            let limit = CASE_LIMIT_MS.load(SeqCst);
            if now_ms(&t0) > start + limit && CASE.load(SeqCst) == c && CASE_START_MS.load(SeqCst) == start {
                if CASE.compare_exchange(c, 0, SeqCst, SeqCst).is_ok() {
                    let base = CASE_BASE.load(SeqCst);
                    let mut buf = [0u8; 200];
                    let n = fmt_record(&mut buf, c - 1, b"timeout", kib(PEAK.load(SeqCst).saturating_sub(base)), kib(BIG.load(SeqCst)));
                    raw_out(&buf[..n]);
                    unsafe { libc::_exit(97) };
                }
            }
        }
    }
    let _ = th.join();
}

