//! C03 harness: no input can crash, wedge or exhaust a parser.
//!
//! Three modes, one binary:
//!
//! * `parsefuzz run ...`   SUPERVISOR. Reads the input families printed by TLC (spec/mutants, JSON lines),
//!   expands them (short-string groups, seeds for the seeded random generator), feeds every input under every
//!   delivery to isolated WORKER processes (one process per shard, restarted after every death), attributes an
//!   abort / kill / stack overflow to the input in flight (the first unanswered one), restarts the worker and
//!   continues.  Writes one ndjson record per (input, delivery): the outcome log that TLC validates with
//!   Trace_Mutants.tla.  The protocol (pipelined window, attribution, restart) is the one modelled in
//!   spec/mutants/ParseSup.tla.
//! * `parsefuzz worker ...` WORKER.  RLIMIT_AS, counting #[global_allocator] (peak and largest single request
//!   during each call), catch_unwind, a watchdog thread; the parser runs on a thread with a 2 MiB stack (the
//!   size Rust gives to the handler threads the real server parses on).
//! * `parsefuzz probe <parser> <delivery> <hex>` runs one input in-process (no limits) and prints the record;
//!   used for reproducing by hand.
//!
//! Parsers (real code from /repo): req = humphrey::http::Request::from_stream, resp = Response::from_stream,
//! wsframe = humphrey_ws frame decoder (Frame::from_stream through humphrey_ws::verif::decode),
//! wsmsg / wsmsgnb = WebsocketStream::recv / recv_nonblocking (Message::from_stream[_nonblocking]) over a
//! socketpair, json = humphrey_json::Value::parse, conf = humphrey_server::config::tree::parse_conf.
//!
//! Deliveries: `w` all-at-once and `b` one byte per read() through a scripted `Read` (req, resp, wsframe);
//! wsmsg: `w` (all bytes in the socket before the call) and `d` (a feeder thread drips single bytes: best effort,
//! the exact byte-by-byte schedule is exercised on the frame decoder, which is the same code); json / conf take a
//! complete &str: `s` (the bytes are valid UTF-8) or `l` (invalid UTF-8: the type system keeps such input away
//! from the parser; what a caller can pass is the lossy conversion, and that is what is parsed).
//!
//! Nothing here decides the property: the records are judged by TLC (Trace_Mutants.tla, operator ParseGuard).

use std::alloc::{GlobalAlloc, Layout, System};
use std::collections::VecDeque;
use std::io::{BufRead, BufReader, Read, Write};
use std::sync::atomic::{AtomicBool, AtomicU64, AtomicUsize, Ordering::SeqCst};
use std::sync::Mutex;
use std::time::{Duration, Instant};

use hv::util::Rng;
use serde_json::{json, Value as J};

// ------------------------------------------------------------------------------------------------
// counting allocator
// ------------------------------------------------------------------------------------------------

struct Counting;
static CUR: AtomicUsize = AtomicUsize::new(0);
static PEAK: AtomicUsize = AtomicUsize::new(0);
static BIG: AtomicUsize = AtomicUsize::new(0);
/// id+1 of the case in flight (0 = none). Whoever swaps it back to 0 owns the right to write the record.
static CASE: AtomicU64 = AtomicU64::new(0);
static CASE_START_MS: AtomicU64 = AtomicU64::new(0);
static CASE_LIMIT_MS: AtomicU64 = AtomicU64::new(0);
static CASE_BASE: AtomicUsize = AtomicUsize::new(0);
static IS_WORKER: AtomicBool = AtomicBool::new(false);

#[inline]
fn note(size: usize) {
    BIG.fetch_max(size, SeqCst);
}
#[inline]
fn add(size: usize) {
    let c = CUR.fetch_add(size, SeqCst) + size;
    PEAK.fetch_max(c, SeqCst);
}

unsafe impl GlobalAlloc for Counting {
    unsafe fn alloc(&self, l: Layout) -> *mut u8 {
        note(l.size());
        let p = System.alloc(l);
        if p.is_null() {
            alloc_failed(l.size());
        } else {
            add(l.size());
        }
        p
    }
    unsafe fn alloc_zeroed(&self, l: Layout) -> *mut u8 {
        note(l.size());
        let p = System.alloc_zeroed(l);
        if p.is_null() {
            alloc_failed(l.size());
        } else {
            add(l.size());
        }
        p
    }
    unsafe fn dealloc(&self, p: *mut u8, l: Layout) {
        System.dealloc(p, l);
        CUR.fetch_sub(l.size(), SeqCst);
    }
    unsafe fn realloc(&self, p: *mut u8, l: Layout, new: usize) -> *mut u8 {
        note(new);
        let q = System.realloc(p, l, new);
        if q.is_null() {
            alloc_failed(new);
        } else if new >= l.size() {
            add(new - l.size());
        } else {
            CUR.fetch_sub(l.size() - new, SeqCst);
        }
        q
    }
}

#[global_allocator]
static ALLOC: Counting = Counting;

const KIB_SAT: u64 = 2147483647;
fn kib(bytes: usize) -> u64 {
    let k = (bytes as u64 >> 10) + if bytes & 1023 != 0 { 1 } else { 0 };
    k.min(KIB_SAT)
}

/// The allocator returned null (address-space limit hit): the process is about to abort in
/// handle_alloc_error. In the worker, claim the case in flight, write its record without allocating and exit.
fn alloc_failed(size: usize) {
    if !IS_WORKER.load(SeqCst) {
        return;
    }
    let c = CASE.swap(0, SeqCst);
    if c == 0 {
        return;
    }
    let base = CASE_BASE.load(SeqCst);
    let cur = CUR.load(SeqCst).saturating_sub(base).saturating_add(size);
    let mut buf = [0u8; 200];
    let n = fmt_record(&mut buf, c - 1, b"oom", kib(cur.max(PEAK.load(SeqCst).saturating_sub(base))), kib(size));
    unsafe {
        libc::write(1, buf.as_ptr() as *const libc::c_void, n);
        libc::_exit(99);
    }
}

fn put(buf: &mut [u8], at: &mut usize, s: &[u8]) {
    for b in s {
        if *at < buf.len() {
            buf[*at] = *b;
            *at += 1;
        }
    }
}
fn put_num(buf: &mut [u8], at: &mut usize, mut v: u64) {
    let mut d = [0u8; 20];
    let mut n = 0;
    if v == 0 {
        d[0] = b'0';
        n = 1;
    }
    while v > 0 {
        d[n] = b'0' + (v % 10) as u8;
        v /= 10;
        n += 1;
    }
    while n > 0 {
        n -= 1;
        put(buf, at, &d[n..n + 1]);
    }
}
/// allocation-free rendering of a minimal worker record
fn fmt_record(buf: &mut [u8], id: u64, o: &[u8], kibv: u64, big: u64) -> usize {
    let mut at = 0;
    put(buf, &mut at, b"{\"id\":");
    put_num(buf, &mut at, id);
    put(buf, &mut at, b",\"o\":\"");
    put(buf, &mut at, o);
    put(buf, &mut at, b"\",\"kib\":");
    put_num(buf, &mut at, kibv);
    put(buf, &mut at, b",\"big\":");
    put_num(buf, &mut at, big);
    put(buf, &mut at, b",\"cls\":\"\",\"at\":\"\",\"us\":0}\n");
    at
}

// ------------------------------------------------------------------------------------------------
// the parsers under test
// ------------------------------------------------------------------------------------------------

const PARSERS: [&str; 7] = ["req", "resp", "wsframe", "wsmsg", "wsmsgnb", "json", "conf"];

fn deliveries(p: &str, bytes: &[u8]) -> Vec<&'static str> {
    match p {
        "req" | "resp" | "wsframe" => vec!["w", "b"],
        "wsmsg" => vec!["w", "d"],
        "wsmsgnb" => vec!["w"],
        _ => {
            if std::str::from_utf8(bytes).is_ok() {
                vec!["s"]
            } else {
                vec!["l"]
            }
        }
    }
}

/// Scripted reader: `step == 0` hands out as much as the caller's buffer takes, otherwise at most `step`
/// bytes per read(); after the data: EOF (Ok(0)) for ever.
struct Script<'a> {
    data: &'a [u8],
    pos: usize,
    step: usize,
}
impl Read for Script<'_> {
    fn read(&mut self, buf: &mut [u8]) -> std::io::Result<usize> {
        let mut n = buf.len().min(self.data.len() - self.pos);
        if self.step > 0 {
            n = n.min(self.step);
        }
        buf[..n].copy_from_slice(&self.data[self.pos..self.pos + n]);
        self.pos += n;
        Ok(n)
    }
}

/// What keeps the peer end of the socketpair alive while the decoder runs.
enum Peer {
    Held(std::os::unix::net::UnixStream),
    Feeder(std::thread::JoinHandle<()>),
}

fn ws_stream_with(bytes: &[u8], drip: bool) -> (humphrey_ws::WebsocketStream, Peer) {
    use std::os::unix::io::FromRawFd;
    let mut fds = [0 as libc::c_int; 2];
    let rc = unsafe { libc::socketpair(libc::AF_UNIX, libc::SOCK_STREAM, 0, fds.as_mut_ptr()) };
    assert!(rc == 0, "socketpair");
    // The decoder's end: humphrey's Stream wraps a TcpStream; a TcpStream is a file descriptor on which
    // read/write/fcntl are issued, which a stream socketpair supports identically.
    let ours = unsafe { std::net::TcpStream::from_raw_fd(fds[0]) };
    let mut peer = unsafe { std::os::unix::net::UnixStream::from_raw_fd(fds[1]) };
    // The decoder answers pings and closes on the same socket.  A peer that never reads would eventually block
    // it (socket buffers are accounted per write, ~200 small replies fill them): that is TCP back-pressure, not a
    // wedged parser.  So the peer is a client that reads while it writes, except for inputs too short to matter.
    let keep = if !drip && bytes.len() <= 256 {
        let _ = peer.write_all(bytes);
        let _ = peer.shutdown(std::net::Shutdown::Write);
        Peer::Held(peer)
    } else {
        let data = bytes.to_vec();
        let step = if drip { 1 } else { 16384 };
        Peer::Feeder(std::thread::spawn(move || {
            use std::os::unix::io::AsRawFd;
            let fd = peer.as_raw_fd();
            let _ = peer.set_nonblocking(true);
            let mut pos = 0usize;
            let mut open = true;
            let mut sink = [0u8; 4096];
            loop {
                let mut pfd = libc::pollfd { fd, events: libc::POLLIN | if pos < data.len() { libc::POLLOUT } else { 0 }, revents: 0 };
                let rc = unsafe { libc::poll(&mut pfd, 1, 1000) };
                if rc < 0 {
                    break;
                }
                if pfd.revents & (libc::POLLIN | libc::POLLHUP | libc::POLLERR) != 0 {
                    match peer.read(&mut sink) {
                        Ok(0) => break, // the decoder dropped its end
                        Ok(_) => {}
                        Err(e) if e.kind() == std::io::ErrorKind::WouldBlock => {}
                        Err(_) => break,
                    }
                }
                if pos < data.len() && pfd.revents & libc::POLLOUT != 0 {
                    let end = (pos + step).min(data.len());
                    match peer.write(&data[pos..end]) {
                        Ok(n) => pos += n,
                        Err(e) if e.kind() == std::io::ErrorKind::WouldBlock => {}
                        Err(_) => pos = data.len(),
                    }
                    if drip {
                        std::thread::yield_now();
                    }
                }
                if pos >= data.len() && open {
                    let _ = peer.shutdown(std::net::Shutdown::Write);
                    open = false;
                }
            }
        }))
    };
    (humphrey_ws::WebsocketStream::new(humphrey::stream::Stream::Tcp(ours)), keep)
}

/// Runs one parser call. Returns "ok" / "err" (+ a detail used only for humans).
fn run_parser(p: &str, d: &str, bytes: &[u8]) -> (&'static str, &'static str) {
    let step = if d == "b" { 1 } else { 0 };
    match p {
        "req" => {
            let mut s = Script { data: bytes, pos: 0, step };
            let addr = std::net::SocketAddr::from(([127, 0, 0, 1], 4321));
            match humphrey::http::Request::from_stream(&mut s, addr) {
                Ok(_) => ("ok", ""),
                Err(_) => ("err", ""),
            }
        }
        "resp" => {
            let mut s = Script { data: bytes, pos: 0, step };
            match humphrey::http::Response::from_stream(&mut s) {
                Ok(_) => ("ok", ""),
                Err(_) => ("err", ""),
            }
        }
        "wsframe" => {
            let mut s = Script { data: bytes, pos: 0, step };
            match humphrey_ws::verif::decode(&mut s) {
                Ok(_) => ("ok", ""),
                Err(_) => ("err", ""),
            }
        }
        "wsmsg" | "wsmsgnb" => {
            let (mut ws, feeder) = ws_stream_with(bytes, d == "d");
            let r = if p == "wsmsg" {
                match ws.recv() {
                    Ok(_) => ("ok", ""),
                    Err(_) => ("err", ""),
                }
            } else {
                match ws.recv_nonblocking() {
                    humphrey_ws::restion::Restion::Ok(_) => ("ok", ""),
                    humphrey_ws::restion::Restion::None => ("ok", "none"),
                    humphrey_ws::restion::Restion::Err(_) => ("err", ""),
                }
            };
            drop(ws);
            match feeder {
                Peer::Held(p) => drop(p),
                Peer::Feeder(f) => {
                    let _ = f.join();
                }
            }
            r
        }
        "json" => {
            let text = String::from_utf8_lossy(bytes);
            match humphrey_json::Value::parse(text.as_ref()) {
                Ok(_) => ("ok", ""),
                Err(_) => ("err", ""),
            }
        }
        "conf" => {
            let text = String::from_utf8_lossy(bytes);
            match humphrey_server::config::tree::parse_conf(text.as_ref(), "fuzz.conf") {
                Ok(_) => ("ok", ""),
                Err(_) => ("err", ""),
            }
        }
        // Not a parser of /repo: a stand-in that misbehaves on demand, used by the check to prove that the worker and
        // the supervisor observe and attribute every kind of misbehaviour (first byte selects it).
        "selftest" => selftest_behaviour(bytes),
        _ => ("err", "unknown-parser"),
    }
}

#[inline(never)]
fn selftest_recurse(n: u64, acc: &mut [u8; 256]) -> u64 {
    let mut local = [0u8; 256];
    local[(n % 256) as usize] = acc[(n % 7) as usize].wrapping_add(1);
    if n == u64::MAX {
        return 0;
    }
    selftest_recurse(n + 1, &mut local) + local[3] as u64
}

fn selftest_behaviour(bytes: &[u8]) -> (&'static str, &'static str) {
    match bytes.first() {
        Some(b'p') => {
            let v: Vec<u8> = Vec::new();
            let i = bytes.len() + 5;
            if v[i] == 1 {
                return ("ok", "");
            }
            ("ok", "")
        }
        Some(b'a') => std::process::abort(),
        Some(b's') => {
            let mut a = [1u8; 256];
            if selftest_recurse(0, &mut a) == 1 {
                return ("ok", "");
            }
            ("err", "")
        }
        Some(b'm') => {
            let v = vec![0u8; 1usize << 42];
            if v[bytes.len()] == 1 {
                return ("ok", "");
            }
            ("err", "")
        }
        Some(b'M') => {
            let v = vec![1u8; 100 << 20];
            if v[bytes.len()] == 2 {
                return ("err", "");
            }
            ("ok", "")
        }
        Some(b'h') => loop {
            std::thread::sleep(Duration::from_millis(50));
        },
        Some(b'e') => ("err", ""),
        _ => ("ok", ""),
    }
}

// ------------------------------------------------------------------------------------------------
// panic capture
// ------------------------------------------------------------------------------------------------

static LAST_PANIC: Mutex<Option<(String, String)>> = Mutex::new(None);

fn install_panic_capture() {
    std::panic::set_hook(Box::new(|info| {
        let msg = if let Some(s) = info.payload().downcast_ref::<&str>() {
            s.to_string()
        } else if let Some(s) = info.payload().downcast_ref::<String>() {
            s.clone()
        } else {
            "?".to_string()
        };
        let at = info
            .location()
            .map(|l| {
                let f = l.file();
                let f = f.strip_prefix("/repo/").unwrap_or(f);
                format!("{}:{}", f, l.line())
            })
            .unwrap_or_default();
        if let Ok(mut g) = LAST_PANIC.lock() {
            *g = Some((msg, at));
        }
    }));
}

/// Coarse class of a panic message (the trace spec's deviation predicates speak about classes, not texts).
fn panic_class(msg: &str) -> &'static str {
    if msg.contains("is not a char boundary") {
        "char_boundary"
    } else if msg.contains("attempt to multiply with overflow") {
        "mul_overflow"
    } else if msg.contains("attempt to") && msg.contains("overflow") {
        "arith_overflow"
    } else if msg.contains("slice index starts at") || msg.contains("begin <= end") || msg.contains("begin > end") {
        "slice_order"
    } else if msg.contains("out of range for slice") || msg.contains("index out of bounds") || msg.contains("out of bounds") {
        "index_oob"
    } else if msg.contains("capacity overflow") {
        "capacity_overflow"
    } else if msg.contains("Option::unwrap()") {
        "unwrap_none"
    } else if msg.contains("Result::unwrap()") {
        "unwrap_err"
    } else {
        "other"
    }
}

struct Outcome {
    o: &'static str,
    kib: u64,
    big: u64,
    cls: String,
    at: String,
    us: u64,
}

fn measured_call(p: &str, d: &str, bytes: &[u8]) -> Outcome {
    if let Ok(mut g) = LAST_PANIC.lock() {
        *g = None;
    }
    let base = CUR.load(SeqCst);
    CASE_BASE.store(base, SeqCst);
    PEAK.store(base, SeqCst);
    BIG.store(0, SeqCst);
    let t0 = Instant::now();
    let r = std::panic::catch_unwind(std::panic::AssertUnwindSafe(|| run_parser(p, d, bytes)));
    let us = t0.elapsed().as_micros() as u64;
    let peak = PEAK.load(SeqCst).saturating_sub(base);
    let big = BIG.load(SeqCst);
    match r {
        Ok((o, detail)) => Outcome { o, kib: kib(peak), big: kib(big), cls: detail.to_string(), at: String::new(), us },
        Err(_) => {
            let (msg, at) = LAST_PANIC.lock().ok().and_then(|mut g| g.take()).unwrap_or_default();
            Outcome { o: "panic", kib: kib(peak), big: kib(big), cls: panic_class(&msg).to_string(), at, us }
        }
    }
}

fn hex_decode(s: &str) -> Vec<u8> {
    let b = s.as_bytes();
    let mut out = Vec::with_capacity(b.len() / 2);
    let v = |c: u8| -> u8 {
        match c {
            b'0'..=b'9' => c - b'0',
            b'a'..=b'f' => c - b'a' + 10,
            b'A'..=b'F' => c - b'A' + 10,
            _ => 0,
        }
    };
    let mut i = 0;
    while i + 1 < b.len() {
        out.push(v(b[i]) << 4 | v(b[i + 1]));
        i += 2;
    }
    out
}
fn hex_encode(b: &[u8]) -> String {
    const H: &[u8; 16] = b"0123456789abcdef";
    let mut s = String::with_capacity(b.len() * 2);
    for x in b {
        s.push(H[(x >> 4) as usize] as char);
        s.push(H[(x & 15) as usize] as char);
    }
    s
}

// ------------------------------------------------------------------------------------------------
// worker
// ------------------------------------------------------------------------------------------------

fn now_ms(t0: &Instant) -> u64 {
    t0.elapsed().as_millis() as u64 + 1
}

fn raw_out(s: &[u8]) {
    let mut off = 0;
    while off < s.len() {
        let n = unsafe { libc::write(1, s[off..].as_ptr() as *const libc::c_void, s.len() - off) };
        if n <= 0 {
            unsafe { libc::_exit(96) };
        }
        off += n as usize;
    }
}

/// `parsefuzz worker <rlimit_mb> <stack_kib>`; stdin lines: `<id> <parser> <delivery> <limit_ms> <hex>`.
fn worker(args: &[String]) {
    let rlimit_mb: u64 = args.first().and_then(|s| s.parse().ok()).unwrap_or(1024);
    let stack_kib: usize = args.get(1).and_then(|s| s.parse().ok()).unwrap_or(2048);
    unsafe {
        let lim = libc::rlimit { rlim_cur: rlimit_mb << 20, rlim_max: rlimit_mb << 20 };
        if libc::setrlimit(libc::RLIMIT_AS, &lim) != 0 {
            eprintln!("setrlimit failed");
            std::process::exit(95);
        }
        let core = libc::rlimit { rlim_cur: 0, rlim_max: 0 };
        libc::setrlimit(libc::RLIMIT_CORE, &core);
    }
    install_panic_capture();
    IS_WORKER.store(true, SeqCst);
    let t0 = Instant::now();
    let done = std::sync::Arc::new(AtomicBool::new(false));
    let done2 = done.clone();
    let th = std::thread::Builder::new()
        .name("parser".into())
        .stack_size(stack_kib << 10)
        .spawn(move || {
            let stdin = std::io::stdin();
            let mut line = String::new();
            let mut lock = stdin.lock();
            loop {
                line.clear();
                match lock.read_line(&mut line) {
                    Ok(0) | Err(_) => break,
                    Ok(_) => {}
                }
                let mut it = line.trim_end().splitn(5, ' ');
                let id: u64 = it.next().and_then(|s| s.parse().ok()).unwrap_or(0);
                let p = it.next().unwrap_or("").to_string();
                let d = it.next().unwrap_or("").to_string();
                let limit: u64 = it.next().and_then(|s| s.parse().ok()).unwrap_or(5000);
                let bytes = hex_decode(it.next().unwrap_or(""));
                CASE_LIMIT_MS.store(limit, SeqCst);
                CASE_START_MS.store(now_ms(&t0), SeqCst);
                CASE.store(id + 1, SeqCst);
                let out = measured_call(&p, &d, &bytes);
                // claim the record; if the watchdog (or the allocator) claimed it first it has written one
                // and is terminating the process
                if CASE.swap(0, SeqCst) != id + 1 {
                    loop {
                        std::thread::sleep(Duration::from_secs(1));
                    }
                }
                let rec = json!({"id": id, "o": out.o, "kib": out.kib, "big": out.big, "cls": out.cls, "at": out.at, "us": out.us});
                let mut s = rec.to_string();
                s.push('\n');
                raw_out(s.as_bytes());
            }
            done2.store(true, SeqCst);
        })
        .expect("spawn parser thread");
    // watchdog
    while !done.load(SeqCst) {
        std::thread::sleep(Duration::from_millis(20));
        let c = CASE.load(SeqCst);
        if c != 0 {
            let start = CASE_START_MS.load(SeqCst);
            let limit = CASE_LIMIT_MS.load(SeqCst);
            if now_ms(&t0) > start + limit && CASE.load(SeqCst) == c && CASE_START_MS.load(SeqCst) == start {
                if CASE.compare_exchange(c, 0, SeqCst, SeqCst).is_ok() {
                    let base = CASE_BASE.load(SeqCst);
                    let mut buf = [0u8; 200];
                    let n = fmt_record(&mut buf, c - 1, b"timeout", kib(PEAK.load(SeqCst).saturating_sub(base)), kib(BIG.load(SeqCst)));
                    raw_out(&buf[..n]);
                    unsafe { libc::_exit(97) };
                }
            }
        }
    }
    let _ = th.join();
}

// ------------------------------------------------------------------------------------------------
// input plan (what TLC printed + the seeded random generator)
// ------------------------------------------------------------------------------------------------

#[derive(Clone)]
struct Case {
    id: u64,
    p: &'static str,
    fam: String,
    bytes: Vec<u8>,
}

fn intern_parser(p: &str) -> Option<&'static str> {
    if p == "selftest" {
        return Some("selftest");
    }
    PARSERS.iter().find(|x| **x == p).copied()
}

fn bytes_of(v: &J) -> Vec<u8> {
    v.as_array().map(|a| a.iter().map(|x| x.as_u64().unwrap_or(0) as u8).collect()).unwrap_or_default()
}

/// One line printed by TLC (Gen_Mutants*.cfg).
enum Group {
    /// `{"k":"alpha","p":..,"syms":[[..],..]}` alphabet of a parser (token = byte string)
    Alpha,
    /// `{"k":"short","p":..,"w":[i,..],"g":G}`: the word w over the alphabet, and (G>0) every extension of it
    /// by 1..G symbols.  TLC visits each of those words as a state; it prints them grouped by stem.
    Short { p: &'static str, w: Vec<usize>, g: usize },
    /// `{"k":"in","p":..,"fam":..,"b":[..]}` one input
    One { p: &'static str, fam: String, b: Vec<u8> },
}

struct Plan {
    groups: Vec<Group>,
    alpha: std::collections::HashMap<&'static str, Vec<Vec<u8>>>,
    seeds: std::collections::HashMap<&'static str, Vec<Vec<u8>>>,
    random: u64,
    random_maxlen: usize,
    deep: Vec<usize>,
    big: bool,
    seed: u64,
}

impl Plan {
    fn load(path: &str) -> Plan {
        let f = std::fs::File::open(path).expect("cases file");
        let mut plan = Plan {
            groups: Vec::new(),
            alpha: Default::default(),
            seeds: Default::default(),
            random: 0,
            random_maxlen: 64,
            deep: Vec::new(),
            big: false,
            seed: hv::util::seed_from_env(),
        };
        for line in BufReader::new(f).lines() {
            let line = line.expect("read");
            if !line.starts_with('{') {
                continue;
            }
            let v: J = match serde_json::from_str(&line) {
                Ok(v) => v,
                Err(e) => panic!("bad case line {}: {}", line, e),
            };
            let p = match v["p"].as_str().and_then(intern_parser) {
                Some(p) => p,
                None => panic!("unknown parser in {}", line),
            };
            match v["k"].as_str().unwrap_or("") {
                "alpha" => {
                    let syms: Vec<Vec<u8>> = v["syms"].as_array().expect("syms").iter().map(bytes_of).collect();
                    plan.alpha.insert(p, syms);
                    plan.groups.push(Group::Alpha);
                }
                "short" => {
                    let w: Vec<usize> = v["w"].as_array().expect("w").iter().map(|x| x.as_u64().unwrap() as usize).collect();
                    plan.groups.push(Group::Short { p, w, g: v["g"].as_u64().unwrap_or(0) as usize });
                }
                "in" => {
                    let fam = v["fam"].as_str().unwrap_or("").to_string();
                    let b = bytes_of(&v["b"]);
                    if let Some(l) = v["len"].as_u64() {
                        // the length TLC computed for the input it printed: decoding must agree
                        assert!(l as usize == b.len(), "length mismatch on line {}", line);
                    }
                    if fam == "seed" {
                        plan.seeds.entry(p).or_default().push(b.clone());
                    }
                    plan.groups.push(Group::One { p, fam, b });
                }
                k => panic!("unknown line kind {:?}", k),
            }
        }
        plan
    }

    /// Calls `f` for every input of the plan in a fixed order; ids are consecutive from 0.
    fn for_each(&self, f: &mut dyn FnMut(Case) -> bool) {
        let mut id: u64 = 0;
        let mut emit = |p: &'static str, fam: &str, bytes: Vec<u8>, id: &mut u64| -> bool {
            let c = Case { id: *id, p, fam: fam.to_string(), bytes };
            *id += 1;
            f(c)
        };
        for g in &self.groups {
            match g {
                Group::Alpha => {}
                Group::One { p, fam, b } => {
                    if !emit(p, fam, b.clone(), &mut id) {
                        return;
                    }
                }
                Group::Short { p, w, g } => {
                    let syms = self.alpha.get(p).expect("alphabet line must precede short lines");
                    let stem: Vec<u8> = w.iter().flat_map(|i| syms[*i - 1].iter().copied()).collect();
                    // the stem, then all extensions by 1..g symbols, in lexicographic order
                    let mut stack: Vec<(Vec<u8>, usize)> = vec![(stem, 0)];
                    while let Some((cur, depth)) = stack.pop() {
                        if depth < *g {
                            for s in syms.iter().rev() {
                                let mut n = cur.clone();
                                n.extend_from_slice(s);
                                stack.push((n, depth + 1));
                            }
                        }
                        if !emit(p, "short", cur, &mut id) {
                            return;
                        }
                    }
                }
            }
        }
        // ---- Rust-side seeded generator: what TLC should not enumerate ----
        let mut rng = Rng::new(self.seed ^ 0xC03);
        let parsers: Vec<&'static str> = PARSERS.iter().copied().filter(|p| self.alpha.contains_key(p)).collect();
        for n in 0..self.random {
            let p = parsers[(n as usize) % parsers.len().max(1)];
            let (fam, bytes) = match n % 3 {
                0 => {
                    // unstructured bytes, lengths biased to short
                    let len = if rng.chance(1, 8) { rng.range(0, self.random_maxlen) } else { rng.range(0, 24.min(self.random_maxlen)) };
                    ("rand-bytes", rng.bytes(len))
                }
                1 => {
                    // token soup over the TLC alphabet of the parser
                    let syms = &self.alpha[p];
                    let k = rng.range(5, 40);
                    let mut b = Vec::new();
                    for _ in 0..k {
                        let t: &Vec<u8> = rng.pick(&syms[..]);
                        b.extend_from_slice(t);
                    }
                    ("rand-alpha", b)
                }
                _ => {
                    // multi-site random mutation of a TLC seed
                    let empty: Vec<Vec<u8>> = vec![Vec::new()];
                    let seeds = self.seeds.get(p).unwrap_or(&empty);
                    let mut b: Vec<u8> = rng.pick(&seeds[..]).clone();
                    let syms = &self.alpha[p];
                    for _ in 0..rng.range(1, 6) {
                        let at = if b.is_empty() { 0 } else { rng.below(b.len() + 1) };
                        match rng.below(6) {
                            0 if !b.is_empty() => {
                                let a = at.min(b.len() - 1);
                                b.remove(a);
                            }
                            1 => b.insert(at, rng.byte()),
                            2 if !b.is_empty() => {
                                let a = at.min(b.len() - 1);
                                b[a] = rng.byte();
                            }
                            3 => {
                                let t: Vec<u8> = rng.pick(&syms[..]).clone();
                                for (k, x) in t.iter().enumerate() {
                                    b.insert(at + k, *x);
                                }
                            }
                            4 if !b.is_empty() => {
                                let a = at.min(b.len() - 1);
                                b.truncate(a);
                            }
                            _ => {
                                if !b.is_empty() {
                                    let a = rng.below(b.len());
                                    let e = (a + rng.range(1, 16)).min(b.len());
                                    let seg: Vec<u8> = b[a..e].to_vec();
                                    for (k, x) in seg.iter().enumerate() {
                                        b.insert(at.min(b.len()).min(a + k + seg.len()), *x);
                                    }
                                }
                            }
                        }
                    }
                    ("rand-mut", b)
                }
            };
            if !emit(p, fam, bytes, &mut id) {
                return;
            }
        }
        // nesting far beyond the bound TLC enumerates
        for n in &self.deep {
            let n = *n;
            let mut v: Vec<(&'static str, &str, Vec<u8>)> = Vec::new();
            v.push(("json", "deep-array-open", b"[".repeat(n)));
            let mut closed = b"[".repeat(n);
            closed.extend(b"]".repeat(n));
            v.push(("json", "deep-array", closed));
            v.push(("json", "deep-object-open", b"{\"a\":".repeat(n)));
            let mut c = b"server {\n".to_vec();
            c.extend(b"s {\n".repeat(n));
            v.push(("conf", "deep-section-open", c.clone()));
            c.extend(b"}\n".repeat(n + 1));
            v.push(("conf", "deep-section", c));
            for (p, fam, b) in v {
                if self.alpha.contains_key(p) && !emit(p, fam, b, &mut id) {
                    return;
                }
            }
        }
        if self.big {
            let mut v: Vec<(&'static str, &str, Vec<u8>)> = Vec::new();
            let r64k = rng.bytes(65536);
            for p in ["req", "resp", "wsframe", "wsmsg", "json", "conf"] {
                v.push((p, "big-random-64k", r64k.clone()));
                v.push((p, "big-a-64k", vec![b'a'; 65536]));
            }
            // long lines / long tokens actually supplied (memory proportional to what is supplied is fine)
            let mut r = b"GET /".to_vec();
            r.extend(vec![b'a'; 60000]);
            r.extend_from_slice(b" HTTP/1.1\r\nHost: a\r\n\r\n");
            v.push(("req", "big-long-uri", r));
            let mut r = b"GET / HTTP/1.1\r\n".to_vec();
            for i in 0..2000 {
                r.extend_from_slice(format!("X-H{}: v{}\r\n", i, i).as_bytes());
            }
            r.extend_from_slice(b"\r\n");
            v.push(("req", "big-2000-headers", r.clone()));
            let mut r2 = b"HTTP/1.1 200 OK\r\n".to_vec();
            r2.extend_from_slice(&r[16..]);
            v.push(("resp", "big-2000-headers", r2));
            let mut r = b"HTTP/1.1 200 OK\r\nTransfer-Encoding: chunked\r\n\r\n".to_vec();
            for _ in 0..3000 {
                r.extend_from_slice(b"5\r\nhello\r\n");
            }
            r.extend_from_slice(b"0\r\n\r\n");
            v.push(("resp", "big-3000-chunks", r));
            let mut r = b"POST / HTTP/1.1\r\nContent-Length: 60000\r\n\r\n".to_vec();
            r.extend(vec![b'x'; 60000]);
            v.push(("req", "big-body-60000", r));
            let mut m = Vec::new();
            for _ in 0..5000 {
                m.extend_from_slice(&[0x01, 0x03, b'a', b'b', b'c']);
            }
            m.extend_from_slice(&[0x80, 0x00]);
            v.push(("wsmsg", "big-5000-fragments", m));
            let mut m = Vec::new();
            for _ in 0..5000 {
                m.extend_from_slice(&[0x89, 0x03, b'a', b'b', b'c']);
            }
            v.push(("wsmsg", "big-5000-pings", m));
            let mut j = b"[".to_vec();
            for i in 0..10000 {
                j.extend_from_slice(format!("{},", i).as_bytes());
            }
            j.extend_from_slice(b"0]");
            v.push(("json", "big-10000-elements", j));
            let mut j = b"\"".to_vec();
            j.extend(vec![b'x'; 65000]);
            j.push(b'"');
            v.push(("json", "big-string", j));
            let mut c = b"server {\n".to_vec();
            for i in 0..5000 {
                c.extend_from_slice(format!("key{} {}\n", i, i).as_bytes());
            }
            c.extend_from_slice(b"}\n");
            v.push(("conf", "big-5000-keys", c));
            for (p, fam, b) in v {
                if self.alpha.contains_key(p) && !emit(p, fam, b, &mut id) {
                    return;
                }
            }
        }
    }
}

// ------------------------------------------------------------------------------------------------
// supervisor
// ------------------------------------------------------------------------------------------------

struct Item {
    case: std::sync::Arc<Case>,
    d: &'static str,
    limit_ms: u64,
    retried: u8,
}

struct WorkerProc {
    child: std::process::Child,
    stdin: Option<std::process::ChildStdin>,
    stdout: BufReader<std::process::ChildStdout>,
    stderr: Option<std::thread::JoinHandle<String>>,
}

fn spawn_worker(rlimit_mb: u64, stack_kib: usize, cwd: &str) -> WorkerProc {
    let exe = std::env::current_exe().expect("current_exe");
    let mut child = std::process::Command::new(exe)
        .arg("worker")
        .arg(rlimit_mb.to_string())
        .arg(stack_kib.to_string())
        .current_dir(cwd)
        .stdin(std::process::Stdio::piped())
        .stdout(std::process::Stdio::piped())
        .stderr(std::process::Stdio::piped())
        .spawn()
        .expect("spawn worker");
    let stdin = child.stdin.take();
    let stdout = BufReader::new(child.stdout.take().unwrap());
    let mut err = child.stderr.take().unwrap();
    let stderr = Some(std::thread::spawn(move || {
        let mut s = String::new();
        let mut buf = [0u8; 4096];
        while let Ok(n) = err.read(&mut buf) {
            if n == 0 {
                break;
            }
            if s.len() < 16384 {
                s.push_str(&String::from_utf8_lossy(&buf[..n]));
            }
        }
        s
    }));
    WorkerProc { child, stdin, stdout, stderr }
}

/// How the worker process ended, as seen by the supervisor.
fn classify_exit(st: &std::process::ExitStatus, stderr: &str) -> &'static str {
    use std::os::unix::process::ExitStatusExt;
    if let Some(sig) = st.signal() {
        if stderr.contains("has overflowed its stack") {
            return "stack";
        }
        return match sig {
            libc::SIGABRT => "abort",
            libc::SIGSEGV | libc::SIGBUS => "segv",
            libc::SIGKILL => "kill",
            _ => "abort",
        };
    }
    match st.code() {
        Some(0) => "clean",
        Some(97) => "self-timeout",
        Some(99) => "self-oom",
        _ => "abort",
    }
}

struct ShardOut {
    records: u64,
    restarts: u64,
    by_outcome: std::collections::BTreeMap<String, u64>,
    max_kib_over_len: (u64, u64, u64),
    not_total: Vec<J>,
    max_us: u64,
    ok_hashes: std::collections::HashSet<u64>,
}

fn case_hash(p: &str, bytes: &[u8]) -> u64 {
    hv::util::fnv64(bytes) ^ hv::util::fnv64(p.as_bytes()).rotate_left(17)
}

#[allow(clippy::too_many_arguments)]
fn run_shard(
    shard: usize,
    rx: std::sync::mpsc::Receiver<Item>,
    log_path: String,
    rlimit_mb: u64,
    stack_kib: usize,
    cwd: String,
    window: usize,
    keep: usize,
) -> ShardOut {
    let mut log = std::io::BufWriter::with_capacity(1 << 20, std::fs::File::create(&log_path).expect("log file"));
    let mut out = ShardOut { records: 0, restarts: 0, by_outcome: Default::default(), max_kib_over_len: (0, 0, 0), not_total: Vec::new(), max_us: 0, ok_hashes: Default::default() };
    let mut pending: VecDeque<Item> = VecDeque::new(); // sent to the current worker, unanswered (front = in flight)
    let mut resend: VecDeque<Item> = VecDeque::new(); // must be sent again to the next worker
    let mut gen: u64 = 0; // worker generation of this shard
    let mut n: u64 = 0; // sequence number of the record within this shard
    let mut input_done = false;
    let mut w: Option<WorkerProc> = None;
    let mut last_terminal = false;
    let mut retry_item: Option<Item> = None; // a timed-out case waiting for its longer second / third attempt
    let mut fatal_logged = false; // the death of the current worker is accounted for by a logged record

    let mut rt: u64 = 0; // restarts of the worker that no logged record accounts for (retried timeouts)
    let mut write_rec = |it: &Item, o: &str, kibv: u64, big: u64, cls: &str, at: &str, us: u64, src: &str, gen: u64, rt: u64, n: &mut u64, out: &mut ShardOut| {
        let (file, line) = match at.rsplit_once(':') {
            Some((f, l)) if l.parse::<u64>().is_ok() => (f, l.parse::<u64>().unwrap()),
            _ => ("", 0),
        };
        let rec = json!({
            "id": it.case.id, "p": it.case.p, "d": it.d, "o": o, "kib": kibv, "big": big, "len": it.case.bytes.len(),
            "cls": cls, "file": file, "line": line, "fam": it.case.fam, "sh": shard, "g": gen, "n": *n, "rt": rt, "src": src,
        });
        *n += 1;
        out.records += 1;
        *out.by_outcome.entry(o.to_string()).or_insert(0) += 1;
        if o == "ok" {
            out.ok_hashes.insert(case_hash(it.case.p, &it.case.bytes));
        }
        if us > out.max_us {
            out.max_us = us;
        }
        let len = it.case.bytes.len() as u64;
        // bookkeeping for the evidence only (the verdict is TLC's): largest peak relative to the bound
        let bound = len + 65536;
        if kibv * out.max_kib_over_len.1.max(1) > out.max_kib_over_len.0 * bound || out.max_kib_over_len.1 == 0 {
            out.max_kib_over_len = (kibv, bound, it.case.id);
        }
        if (o != "ok" && o != "err") || kibv > bound {
            if out.not_total.len() < keep {
                let mut r = rec.clone();
                r["hex"] = J::String(hex_encode(&it.case.bytes[..it.case.bytes.len().min(4096)]));
                r["us"] = json!(us);
                if src == "sup" {
                    r["stderr"] = J::String(at.to_string());
                }
                out.not_total.push(r);
            }
        }
        let _ = writeln!(log, "{}", rec);
    };

    loop {
        // (re)start
        if w.is_none() {
            if resend.is_empty() && pending.is_empty() && input_done {
                break;
            }
            if resend.is_empty() && pending.is_empty() {
                // peek: anything left at all?
                match rx.recv() {
                    Ok(it) => resend.push_back(it),
                    Err(_) => {
                        input_done = true;
                        continue;
                    }
                }
            }
            w = Some(spawn_worker(rlimit_mb, stack_kib, &cwd));
            last_terminal = false;
            fatal_logged = false;
        }
        let wp = w.as_mut().unwrap();
        // fill the window (Sup_Send)
        let mut broken = false;
        while pending.len() < window && wp.stdin.is_some() {
            let it = if let Some(it) = resend.pop_front() {
                it
            } else if input_done {
                break;
            } else {
                match rx.recv() {
                    Ok(it) => it,
                    Err(_) => {
                        input_done = true;
                        break;
                    }
                }
            };
            let line = format!("{} {} {} {} {}\n", it.case.id, it.case.p, it.d, it.limit_ms, hex_encode(&it.case.bytes));
            let ok = wp.stdin.as_mut().unwrap().write_all(line.as_bytes()).is_ok();
            pending.push_back(it);
            if !ok {
                broken = true;
                break;
            }
        }
        if broken || (input_done && resend.is_empty()) {
            // Sup_CloseStdin: the worker exits cleanly after the last case (Wrk_Eof) / is already dead
            wp.stdin = None;
        }
        // read one result (Sup_Read) or EOF (Sup_Reap)
        let mut line = String::new();
        let got = wp.stdout.read_line(&mut line).unwrap_or(0);
        if got > 0 {
            let v: J = serde_json::from_str(line.trim_end()).unwrap_or(J::Null);
            let id = v["id"].as_u64();
            let front_ok = pending.front().map(|it| Some(it.case.id) == id).unwrap_or(false);
            if !front_ok {
                eprintln!("parsefuzz: shard {} unexpected worker line {:?}", shard, line);
                std::process::exit(3);
            }
            let it = pending.pop_front().unwrap();
            let o = v["o"].as_str().unwrap_or("?").to_string();
            last_terminal = o == "timeout" || o == "oom";
            fatal_logged = last_terminal;
            if o == "timeout" && it.retried < 2 {
                // escalating waits (5 s, 20 s, 60 s): run it again at the head of a fresh worker with a longer limit;
                // only the third timeout is logged (the restarts in between are declared in the log as `rt`)
                let factor = if it.retried == 0 { 4 } else { 3 };
                retry_item = Some(Item { case: it.case.clone(), d: it.d, limit_ms: it.limit_ms * factor, retried: it.retried + 1 });
                fatal_logged = false;
                continue;
            }
            write_rec(&it, &o, v["kib"].as_u64().unwrap_or(0), v["big"].as_u64().unwrap_or(0), v["cls"].as_str().unwrap_or(""),
                      v["at"].as_str().unwrap_or(""), v["us"].as_u64().unwrap_or(0), "worker", gen, rt, &mut n, &mut out);
            continue;
        }
        // EOF: the worker is gone. Reap it.
        let mut wp = w.take().unwrap();
        wp.stdin = None;
        let st = wp.child.wait().expect("wait");
        let stderr = wp.stderr.take().map(|h| h.join().unwrap_or_default()).unwrap_or_default();
        let how = classify_exit(&st, &stderr);
        if how == "clean" && pending.is_empty() {
            gen += 1;
            continue;
        }
        out.restarts += 1;
        if !last_terminal && how != "clean" {
            // attribution: the first unanswered case was in flight when the process died
            if let Some(it) = pending.pop_front() {
                let o = match how {
                    "self-timeout" | "self-oom" => "abort", // exit code without its record: treat as death
                    x => x,
                };
                write_rec(&it, o, KIB_SAT, KIB_SAT, "", stderr.lines().last().unwrap_or(""), 0, "sup", gen, rt, &mut n, &mut out);
                fatal_logged = true;
            }
        } else if how == "clean" && !pending.is_empty() {
            eprintln!("parsefuzz: shard {} worker exited cleanly with {} unanswered cases", shard, pending.len());
            std::process::exit(3);
        }
        gen += 1;
        if !fatal_logged {
            rt += 1;
        }
        fatal_logged = false;
        // everything else that was sent must be sent again, in order, before new input
        while let Some(it) = pending.pop_back() {
            resend.push_front(it);
        }
        if let Some(it) = retry_item.take() {
            resend.push_front(it); // the retried case runs first, at the head of the fresh worker
        }
    }
    let _ = log.flush();
    out
}

fn arg_val<'a>(args: &'a [String], name: &str) -> Option<&'a str> {
    args.iter().position(|a| a == name).and_then(|i| args.get(i + 1)).map(|s| s.as_str())
}

/// `parsefuzz run --cases F --log-prefix P [--shards N] [--rlimit-mb M] [--stack-kib K] [--watchdog-ms T]
///                [--random N] [--random-maxlen L] [--deep a,b,c] [--big] [--only-parser p]`
fn supervisor(args: &[String]) {
    let cases = arg_val(args, "--cases").expect("--cases");
    let prefix = arg_val(args, "--log-prefix").expect("--log-prefix").to_string();
    let shards: usize = arg_val(args, "--shards").and_then(|s| s.parse().ok()).unwrap_or(4);
    let rlimit_mb: u64 = arg_val(args, "--rlimit-mb").and_then(|s| s.parse().ok()).unwrap_or(1024);
    let stack_kib: usize = arg_val(args, "--stack-kib").and_then(|s| s.parse().ok()).unwrap_or(2048);
    let watchdog: u64 = arg_val(args, "--watchdog-ms").and_then(|s| s.parse().ok()).unwrap_or(5000);
    let mut plan = Plan::load(cases);
    plan.random = arg_val(args, "--random").and_then(|s| s.parse().ok()).unwrap_or(0);
    plan.random_maxlen = arg_val(args, "--random-maxlen").and_then(|s| s.parse().ok()).unwrap_or(64);
    plan.deep = arg_val(args, "--deep").map(|s| s.split(',').filter_map(|x| x.parse().ok()).collect()).unwrap_or_default();
    plan.big = args.iter().any(|a| a == "--big");
    let cwd = format!("{}.cwd", prefix);
    let _ = std::fs::create_dir_all(&cwd);

    let t0 = Instant::now();
    let mut txs = Vec::new();
    let mut handles = Vec::new();
    for s in 0..shards {
        let (tx, rx) = std::sync::mpsc::sync_channel::<Item>(4096);
        txs.push(tx);
        let lp = format!("{}.{}.ndjson", prefix, s);
        let cwd = cwd.clone();
        handles.push(std::thread::spawn(move || run_shard(s, rx, lp, rlimit_mb, stack_kib, cwd, 32, 40)));
    }
    let mut inputs: u64 = 0;
    let mut items: u64 = 0;
    let mut by_family: std::collections::BTreeMap<String, u64> = Default::default();
    let mut samples: Vec<J> = Vec::new();
    let mut distinct: std::collections::HashSet<u64> = Default::default();
    let mut structured: std::collections::HashSet<u64> = Default::default();
    let mut maxlen = 0usize;
    plan.for_each(&mut |c: Case| {
        inputs += 1;
        *by_family.entry(format!("{}/{}", c.p, c.fam)).or_insert(0) += 1;
        maxlen = maxlen.max(c.bytes.len());
        let h = case_hash(c.p, &c.bytes);
        distinct.insert(h);
        if c.fam != "short" && c.fam != "rand-bytes" && c.fam != "rand-alpha" {
            structured.insert(h);
        }
        if samples.len() < 6 && c.fam != "short" && c.fam != "seed" && c.id % 977 == 5 {
            samples.push(json!({"p": c.p, "fam": c.fam, "hex": hex_encode(&c.bytes[..c.bytes.len().min(48)])}));
        }
        let limit = if c.bytes.len() <= 65536 { watchdog } else { watchdog * 4 };
        let c = std::sync::Arc::new(c);
        for d in deliveries(c.p, &c.bytes) {
            let sh = (items as usize) % shards;
            items += 1;
            if txs[sh].send(Item { case: c.clone(), d, limit_ms: limit, retried: 0 }).is_err() {
                return false;
            }
        }
        true
    });
    drop(txs);
    let mut records = 0;
    let mut restarts = 0;
    let mut by_outcome: std::collections::BTreeMap<String, u64> = Default::default();
    let mut not_total: Vec<J> = Vec::new();
    let mut worst = (0u64, 1u64, 0u64);
    let mut max_us = 0;
    let mut accepted: u64 = 0;
    for h in handles {
        let o = h.join().expect("shard thread");
        records += o.records;
        restarts += o.restarts;
        for (k, v) in o.by_outcome {
            *by_outcome.entry(k).or_insert(0) += v;
        }
        not_total.extend(o.not_total);
        accepted += o.ok_hashes.len() as u64;
        structured.extend(o.ok_hashes);
        if o.max_kib_over_len.0 * worst.1 > worst.0 * o.max_kib_over_len.1 {
            worst = o.max_kib_over_len;
        }
        max_us = max_us.max(o.max_us);
    }
    let _ = std::fs::remove_dir_all(&cwd);
    hv::util::out_line(&json!({
        "summary": true, "inputs": inputs, "distinct_inputs": distinct.len(), "distinct_nontrivial": structured.len(),
        "accepted_by_shard_sum": accepted, "items": items, "records": records,
        "worker_restarts": restarts, "by_outcome": by_outcome, "by_family": by_family, "not_total": not_total,
        "worst_kib": {"kib": worst.0, "bound_kib": worst.1, "id": worst.2}, "max_call_us": max_us, "max_input_len": maxlen,
        "shards": shards, "rlimit_mb": rlimit_mb, "stack_kib": stack_kib, "watchdog_ms": watchdog,
        "wall_s": t0.elapsed().as_secs_f64(), "samples": samples,
    }));
}

fn main() {
    let args: Vec<String> = std::env::args().skip(1).collect();
    match args.first().map(|s| s.as_str()) {
        Some("worker") => worker(&args[1..]),
        Some("run") => supervisor(&args[1..]),
        Some("probe") => {
            install_panic_capture();
            let p = args.get(1).expect("parser").clone();
            let d = args.get(2).expect("delivery").clone();
            let bytes = hex_decode(args.get(3).map(|s| s.as_str()).unwrap_or(""));
            let th = std::thread::Builder::new().stack_size(2048 << 10).spawn(move || {
                let o = measured_call(&p, &d, &bytes);
                hv::util::out_line(&json!({"p": p, "d": d, "o": o.o, "kib": o.kib, "big": o.big, "len": bytes.len(), "cls": o.cls, "at": o.at, "us": o.us}));
            });
            let _ = th.expect("spawn").join();
        }
        _ => {
            eprintln!("usage: parsefuzz run|worker|probe ...");
            std::process::exit(2);
        }
    }
}
