//! C05 conformance: humphrey::krauss::wildcard_match against vectors produced by TLC from Glob.tla
//! (method A), and a random generator whose log is validated by TLC (method C direction).
//!
//!   glob replay <maxT> <textsyms: e.g. ab or a*>   stdin: {"p":[..],"m":[[..],..]} per pattern
//!   glob random <n> <maxlen>                       stdout: {"p":[..],"t":[..],"got":bool}
use hv::util::*;
use humphrey::krauss::wildcard_match;
use humphrey::route::Route;
use serde_json::{json, Value};
use std::collections::HashSet;

fn conc(sym: &str, map: usize) -> &str {
    match (sym, map) {
        ("*", _) => "*",
        ("a", 0) => "a",
        ("a", 1) => "é",
        ("a", 2) => "😀",
        ("a", 3) => "?",
        ("b", 3) => ".",
        // NUL and a C0 control as ordinary characters (a seeded index-based rewrite used 0 as its end-of-string sentinel)
        ("a", 4) => "\u{0}",
        ("b", 5) => "\u{0}",
        ("a", 5) => "\u{1}",
        ("b", _) => "b",
        (s, _) => s,
    }
}

fn render(seq: &[String], map: usize) -> String {
    seq.iter().map(|s| conc(s, map)).collect()
}

fn all_texts(syms: &[String], max: usize) -> Vec<Vec<String>> {
    let mut out = vec![vec![]];
    let mut layer: Vec<Vec<String>> = vec![vec![]];
    for _ in 0..max {
        let mut next = vec![];
        for t in &layer {
            for s in syms {
                let mut n = t.clone();
                n.push(s.clone());
                next.push(n);
            }
        }
        out.extend(next.iter().cloned());
        layer = next;
    }
    out
}

fn call(p: &str, t: &str, via_route: bool) -> Result<bool, String> {
    let p2 = p.to_string();
    let t2 = t.to_string();
    std::panic::catch_unwind(move || if via_route { p2.route_matches(&t2) } else { wildcard_match(&p2, &t2) })
        .map_err(|_| "panic".to_string())
}

fn replay(max_t: usize, syms: Vec<String>) {
    let texts = all_texts(&syms, max_t);
    let mut patterns = 0u64;
    let mut evals = 0u64;
    let mut nontrivial = 0u64; // distinct (p,t) pairs with a star in p that match, or literal-only mismatches after a partial match
    let mut mism = 0u64;
    let mut first: Vec<Value> = vec![];
    let mut samples: Vec<Value> = vec![];
    for line in stdin_lines() {
        let v: Value = match serde_json::from_str(&line) { Ok(v) => v, Err(_) => continue };
        let p: Vec<String> = serde_json::from_value(v["p"].clone()).unwrap();
        let m: Vec<Vec<String>> = serde_json::from_value(v["m"].clone()).unwrap();
        let mset: HashSet<Vec<String>> = m.into_iter().collect();
        patterns += 1;
        let has_star = p.iter().any(|s| s == "*");
        for t in &texts {
            let exp = mset.contains(t);
            if has_star && exp && !t.is_empty() { nontrivial += 1; }
            let nmaps = if syms.iter().any(|s| s == "*") { 1 } else { 6 };
            for map in 0..nmaps {
                let ps = render(&p, map);
                let ts = render(t, map);
                for via in [false, true] {
                    evals += 1;
                    let got = call(&ps, &ts, via);
                    if got != Ok(exp) {
                        mism += 1;
                        if first.len() < 50 {
                            first.push(json!({"pattern": ps, "text": ts, "expected": exp, "got": format!("{:?}", got), "via_route_matches": via}));
                        }
                    } else if samples.len() < 6 && has_star && exp && t.len() >= 3 && map == (samples.len() % 3) {
                        samples.push(json!({"pattern": ps, "text": ts, "match": exp}));
                    }
                }
            }
        }
    }
    out_line(&json!({"summary": true, "patterns": patterns, "texts": texts.len(), "evaluations": evals,
        "nontrivial": nontrivial, "mismatches": mism, "first": first, "samples": samples}));
}

/// stdin: {"l":[..],"cases":[{"p":[..],"t":[..],"m":bool},..]} per literal (TLC: GenKmpInv)
fn cases() {
    let (mut evals, mut mism, mut nontriv, mut lits) = (0u64, 0u64, 0u64, 0u64);
    let mut first: Vec<Value> = vec![];
    let mut samples: Vec<Value> = vec![];
    for line in stdin_lines() {
        let v: Value = match serde_json::from_str(&line) { Ok(v) => v, Err(_) => continue };
        lits += 1;
        for c in v["cases"].as_array().unwrap() {
            let p: Vec<String> = serde_json::from_value(c["p"].clone()).unwrap();
            let t: Vec<String> = serde_json::from_value(c["t"].clone()).unwrap();
            let exp = c["m"].as_bool().unwrap();
            if exp { nontriv += 1; }
            for map in [0usize, 1, 2, 4] {
                evals += 1;
                let (ps, ts) = (render(&p, map), render(&t, map));
                let got = call(&ps, &ts, map == 1);
                if got != Ok(exp) {
                    mism += 1;
                    if first.len() < 50 { first.push(json!({"pattern": ps, "text": ts, "expected": exp, "got": format!("{:?}", got)})); }
                } else if samples.len() < 3 && exp && t.len() > 10 { samples.push(json!({"pattern": ps, "text": ts, "match": exp})); }
            }
        }
    }
    out_line(&json!({"summary": true, "patterns": lits, "texts": 0, "evaluations": evals, "nontrivial": nontriv, "mismatches": mism, "first": first, "samples": samples}));
}

fn random(n: usize, maxlen: usize) {
    let mut rng = Rng::from_env();
    for _ in 0..n {
        // periodic words make literals self-overlapping; star-dense patterns stress backtracking
        let period = rng.range(1, 3);
        let word: Vec<&str> = (0..period).map(|_| *rng.pick(&["a", "b"])).collect();
        let tlen = rng.range(0, maxlen);
        let mut t: Vec<String> = (0..tlen).map(|i| word[i % period].to_string()).collect();
        for _ in 0..rng.below(3) { if !t.is_empty() { let i = rng.below(t.len()); t[i] = rng.pick(&["a", "b"]).to_string(); } }
        // pattern: derived from the text by replacing random spans with stars (so many match), then perturbed
        let mut p: Vec<String> = vec![];
        let mut i = 0;
        while i < t.len() {
            if rng.chance(1, 4) { p.push("*".into()); i += rng.below(4); if rng.chance(1, 5) { p.push("*".into()); } }
            else { p.push(t[i].clone()); i += 1; }
        }
        if rng.chance(1, 3) { p.push("*".into()); }
        if rng.chance(1, 3) && !p.is_empty() { let k = rng.below(p.len()); p[k] = rng.pick(&["a", "b", "*"]).to_string(); }
        if rng.chance(1, 6) && !p.is_empty() { let k = rng.below(p.len()); p.remove(k); }
        p.truncate(maxlen);
        let map = rng.below(3);
        let got = call(&render(&p, map), &render(&t, map), false);
        out_line(&json!({"p": p, "t": t, "got": match got { Ok(b) => json!(b), Err(e) => json!(e) }}));
    }
}

/// Long adversarial pairs (added after the seeded change `C05-r5-...-work-budget` was missed): a self-overlapping
/// literal of 6..24 symbols after a `*` against a run of 80..400 symbols that contains it only at the very end
/// (or not at all), so that a correct matcher has to restart the literal at (almost) every text position - the work is
/// (text length) x (literal length), far beyond anything linear in the input. Several such segments may be chained.
fn long(n: usize) {
    let mut rng = Rng::from_env();
    for k in 0..n {
        let segs = 1 + rng.below(3);
        let mut p: Vec<String> = vec![];
        let mut t: Vec<String> = vec![];
        let head = rng.below(4);
        for _ in 0..head { let c = rng.pick(&["a", "b"]).to_string(); p.push(c.clone()); t.push(c); }
        for _ in 0..segs {
            // literal = u^m v with a short period u, text run = u^M (M >> m) then v: every shifted start matches u^m and fails at v
            let ulen = 1 + rng.below(2);
            let u: Vec<&str> = if ulen == 1 { vec![*rng.pick(&["a", "b"])] } else { vec!["a", "b"] };
            let m = rng.range(6, 24) / ulen + 1;
            let big = rng.range(80, 400) / ulen;
            let v = if u[0] == "a" && ulen == 1 { "b" } else { "a" };
            p.push("*".into());
            for i in 0..m * ulen { p.push(u[i % ulen].to_string()); }
            p.push(v.to_string());
            for i in 0..big * ulen { t.push(u[i % ulen].to_string()); }
            t.push(v.to_string());
        }
        if rng.chance(1, 2) { p.push("*".into()); for _ in 0..rng.below(5) { t.push(rng.pick(&["a", "b"]).to_string()); } }
        // a third of the pairs are made non-matching by one edit of the text tail, or are left as they are
        match k % 3 { 0 => { let i = t.len() - 1 - rng.below(t.len().min(3)); let c = if t[i] == "a" { "b" } else { "a" }; t[i] = c.to_string(); } _ => {} }
        let map = rng.below(3);
        let got = call(&render(&p, map), &render(&t, map), false);
        out_line(&json!({"p": p, "t": t, "got": match got { Ok(b) => json!(b), Err(e) => json!(e) }}));
    }
}

fn main() {
    quiet_panics();
    let a: Vec<String> = std::env::args().collect();
    match a.get(1).map(|s| s.as_str()) {
        Some("replay") => {
            let max_t: usize = a[2].parse().unwrap();
            let syms: Vec<String> = a[3].chars().map(|c| c.to_string()).collect();
            replay(max_t, syms)
        }
        Some("random") => random(a[2].parse().unwrap(), a[3].parse().unwrap()),
        Some("long") => long(a[2].parse().unwrap()),
        Some("cases") => cases(),
        _ => { eprintln!("usage: glob replay|random ..."); std::process::exit(2) }
    }
}
