//! C09 conformance: humphrey::http::proxy::proxy_request and humphrey_server::proxy::{proxy_handler,
//! LoadBalancer::select_target} against a scripted loopback upstream.
//!
//!   proxy replay <timeout_ms> <ticks> <threads>   stdin: behaviours printed by TLC (Gen_Proxy_*.cfg) with an "id";
//!                                                 each is played byte-exactly by an upstream thread; stdout: one
//!                                                 record per case (observation, comparison with exp / alt)
//!   proxy cuts <timeout_ms> <threads> <stall_mod> <nseeds>
//!                                                 harness-generated seed responses cut at EVERY byte offset,
//!                                                 then close (always) or stall (offset % stall_mod == 0);
//!                                                 stdout: trace records for Trace_Proxy.tla
//!   proxy lb <max_threads> <calls>                K real threads on one EqMutex<LoadBalancer>, locked and through
//!                                                 proxy_handler; stdout: trace records for Trace_LoadBalancer.tla
//!   proxy one                                     stdin: one replay case; verbose (manual reproduction)
//!
//! The harness owns only the projection: segments <-> bytes, Response -> (kind, code, headers, body),
//! received bytes -> forwarded request.  Expectations come from TLC (exp/alt in replay, Trace_* otherwise).
use hv::util::*;
use humphrey::http::proxy::proxy_request;
use humphrey::http::{Request, Response};
use humphrey_server::config::{BlacklistConfig, BlacklistMode, Config, LoadBalancerMode, LoggingConfig};
use humphrey_server::logger::LogLevel;
use humphrey_server::proxy::{proxy_handler, EqMutex, LoadBalancer};
use humphrey_server::rand::Lcg;
use humphrey_server::server::AppState;
use serde_json::{json, Value};
use std::io::{Read, Write};
use std::net::{SocketAddr, TcpListener, TcpStream};
use std::sync::atomic::{AtomicBool, AtomicU64, AtomicUsize, Ordering};
use std::sync::mpsc::{channel, RecvTimeoutError};
use std::sync::{Arc, Barrier, Mutex};
use std::time::{Duration, Instant};

const PAGE_502: &[u8] = b"<html><body><h1>502 Bad Gateway</h1></body></html>";
const HANDLER_TIMEOUT_MS: u64 = 5000; // Duration::from_secs(5) in proxy_handler
const SLACK_MS: u64 = 1500; // "timeout plus scheduling slack": only ever used as an upper bound

// ------------------------------------------------------------------------------------------------
// projection: segments <-> bytes
// ------------------------------------------------------------------------------------------------
#[derive(Clone, Debug)]
struct Seg {
    k: String,
    v: String,
    n: u64,
    m: u64,
}

impl Seg {
    fn new(k: &str, v: &str, n: u64) -> Seg {
        Seg { k: k.into(), v: v.into(), n, m: 0 }
    }
    fn from_json(v: &Value) -> Seg {
        Seg {
            k: v["k"].as_str().unwrap_or("").into(),
            v: v["v"].as_str().unwrap_or("").into(),
            n: v["n"].as_u64().unwrap_or(0),
            m: v["m"].as_u64().unwrap_or(0),
        }
    }
    fn to_json(&self) -> Value {
        json!({"k": self.k, "v": self.v, "n": self.n, "m": self.m})
    }
}

fn hex(b: &[u8]) -> String {
    b.iter().map(|x| format!("{:02x}", x)).collect()
}

fn unhex(s: &str) -> Vec<u8> {
    (0..s.len() / 2).map(|i| u8::from_str_radix(&s[2 * i..2 * i + 2], 16).unwrap_or(0)).collect()
}

fn reason(code: u64) -> &'static str {
    match code {
        200 => "OK",
        204 => "No Content",
        304 => "Not Modified",
        308 => "Permanent Redirect",
        404 => "Not Found",
        418 => "I'm a teapot",
        429 => "Too Many Requests",
        500 => "Internal Server Error",
        502 => "Bad Gateway",
        _ => "Status Text",
    }
}

fn title_case(name: &str) -> String {
    let mut up = true;
    name.chars()
        .map(|c| {
            let r = if up { c.to_ascii_uppercase() } else { c };
            up = c == '-';
            r
        })
        .collect()
}

/// Concrete bytes of one segment. `variant` picks among equivalent spellings (header-name case, optional
/// space after the colon, HTTP/1.0 vs 1.1, hex digit case): none of them is observable by the property.
fn render(seg: &Seg, variant: usize) -> Vec<u8> {
    match seg.k.as_str() {
        "status" => format!("HTTP/1.{} {} {}\r\n", if variant % 2 == 0 { 1 } else { 0 }, seg.n, reason(seg.n)).into_bytes(),
        "hdr" => {
            let (name, value) = seg.v.split_once(": ").unwrap_or((seg.v.as_str(), ""));
            let name = match variant % 3 {
                0 => name.to_string(),
                1 => title_case(name),
                _ => name.to_ascii_uppercase(),
            };
            let sep = if variant % 4 == 3 { ":" } else { ": " };
            format!("{}{}{}\r\n", name, sep, value).into_bytes()
        }
        // framing header names in any case (field names are case-insensitive)
        "cl" => format!("{}: {}\r\n", ["Content-Length", "content-length", "CONTENT-LENGTH", "cOnTeNt-lEnGtH"][variant % 4], seg.n).into_bytes(),
        "hugecl" => format!("{}: {}\r\n", ["Content-Length", "content-length", "CONTENT-LENGTH", "cOnTeNt-lEnGtH"][variant % 4], match seg.v.as_str() {
            "2^32" => "4294967296",
            "2^63-1" => "9223372036854775807",
            _ => "18446744073709551615",
        })
        .into_bytes(),
        // (seg.v, when given, is the spelling of the coding name: transfer-coding names are case-insensitive)
        "te" => format!("{}: {}\r\n", ["Transfer-Encoding", "transfer-encoding", "TRANSFER-ENCODING", "tRaNsFeR-eNcOdInG"][variant % 4],
                        if seg.v.is_empty() { "chunked" } else { seg.v.as_str() }).into_bytes(),
        "blank" => b"\r\n".to_vec(),
        "data" => unhex(&seg.v),
        "chunk" => {
            let d = unhex(&seg.v);
            let mut out = if variant % 2 == 0 { format!("{:x}\r\n", d.len()) } else { format!("{:X}\r\n", d.len()) }.into_bytes();
            out.extend(&d);
            out.extend(b"\r\n");
            out
        }
        "last" => b"0\r\n\r\n".to_vec(),
        "garbage" => match seg.v.as_str() {
            "binary" => vec![0x00, 0xff, 0xfe, 0x80, 0x16, 0x03, 0x01, 0x0a, 0xc3, 0x28, 0x0a, 0x0d, 0x0a],
            "badcode" => b"HTTP/1.1 abc OK\r\n\r\n".to_vec(),
            "nospace" => b"HTTP/1.1\r\n\r\n".to_vec(),
            "empty-line" => b"\r\n\r\n".to_vec(),
            "bigcode" => b"HTTP/1.1 99999 Huge\r\n\r\n".to_vec(),
            "code0" => b"HTTP/1.1 000 Zero\r\nContent-Length: 0\r\n\r\n".to_vec(),
            "code99" => b"HTTP/1.1 99 Low\r\nContent-Length: 0\r\n\r\n".to_vec(),
            "code600" => b"HTTP/1.1 600 High\r\nContent-Length: 0\r\n\r\n".to_vec(),
            "code1000" => b"HTTP/1.1 1000 Four\r\nContent-Length: 0\r\n\r\n".to_vec(),
            "code65536" => b"HTTP/1.1 65536 Wrap\r\nContent-Length: 0\r\n\r\n".to_vec(),
            "ssh" => b"SSH-2.0-OpenSSH_9.6\r\n".to_vec(),
            _ => b"\x01\x02 garbage\n".to_vec(),
        },
        "badhdr" => b"NoColonHere\r\n".to_vec(),
        "badcl" => format!("Content-Length: {}\r\n", match seg.v.as_str() {
            "2^64" => "18446744073709551616",
            "-1" => "-1",
            "empty" => "",
            _ => "abc",
        })
        .into_bytes(),
        "badchunk" => b"zz\r\n".to_vec(),
        _ => vec![],
    }
}

// ------------------------------------------------------------------------------------------------
// projection: observations
// ------------------------------------------------------------------------------------------------
fn project_response(r: &Response) -> Value {
    let code: u16 = r.status_code.into();
    // the order Headers::iter() yields, which is the order the server later serialises: same-named headers must
    // have kept their relative order
    let hdrs: Vec<String> = r
        .headers
        .iter()
        .map(|h| (h.name.to_string().to_ascii_lowercase(), h.value))
        .filter(|(n, _)| n != "content-length" && n != "transfer-encoding")
        .map(|(n, v)| format!("{}: {}", n, v))
        .collect();
    let gen = code == 502 && r.body == PAGE_502 && hdrs.is_empty();
    if gen {
        json!({"kind": "502", "code": 502, "hdrs": [], "body": ""})
    } else {
        json!({"kind": "resp", "code": code, "hdrs": hdrs, "body": hex(&r.body)})
    }
}

fn special(kind: &str) -> Value {
    json!({"kind": kind, "code": 0, "hdrs": [], "body": ""})
}

fn no_fwd() -> Value {
    json!({"m": "", "uri": "", "q": "", "ver": "", "hdrs": [], "body": "", "pad": 0})
}

/// The request as the upstream saw it, in the shape of the model's `fwd`; .1 = a complete request was received.
fn project_request(bytes: &[u8]) -> (Value, bool) {
    let pos = match bytes.windows(4).position(|w| w == b"\r\n\r\n") {
        Some(p) => p,
        None => return (no_fwd(), false),
    };
    let head = String::from_utf8_lossy(&bytes[..pos]).to_string();
    let body = &bytes[pos + 4..];
    let mut lines = head.split("\r\n");
    let start = lines.next().unwrap_or("");
    let mut sp = start.splitn(3, ' ');
    let m = sp.next().unwrap_or("").to_string();
    let target = sp.next().unwrap_or("").to_string();
    let ver = sp.next().unwrap_or("").to_string();
    let (uri, q) = match target.split_once('?') {
        Some((u, q)) => (u.to_string(), q.to_string()),
        None => (target.clone(), String::new()),
    };
    let mut hdrs: Vec<String> = vec![];
    let mut cl: Option<usize> = None;
    for l in lines {
        let (n, v) = l.split_once(':').unwrap_or((l, ""));
        let n = n.to_ascii_lowercase();
        let v = v.trim_start();
        if n == "content-length" {
            cl = v.parse().ok();
        }
        hdrs.push(format!("{}: {}", n, v));
    }
    let ok = match cl {
        Some(n) => body.len() == n,
        None => true,
    };
    // a body of a MiB or more is reported as (prefix, whole MiB of the filler byte) when that is exactly what it is
    let mut pad = 0usize;
    let mut shown = body;
    if body.len() >= 1 << 20 {
        let tail = body.iter().rev().take_while(|x| **x == b'x').count();
        pad = tail >> 20;
        if body.len() - (pad << 20) <= 4096 && body[body.len() - (pad << 20)..].iter().all(|x| *x == b'x') {
            shown = &body[..body.len() - (pad << 20)];
        } else {
            pad = 0;
            shown = &body[..4096]; // not what was sent: report a prefix, the lengths differ anyway
        }
    }
    let b = if shown.is_empty() && pad == 0 { "-".to_string() } else { hex(shown) };
    (json!({"m": m, "uri": uri, "q": q, "ver": ver, "hdrs": hdrs, "body": b, "pad": pad}), ok)
}

/// header lists compare exactly up to the order of DIFFERENT names: a stable sort by name keeps same-named headers
/// in their relative order (HdrEq in ProxyMsg.tla)
fn sorted_strs(v: &Value) -> Vec<String> {
    let mut x: Vec<String> = v.as_array().map(|a| a.iter().map(|s| s.as_str().unwrap_or("").to_string()).collect()).unwrap_or_default();
    x.sort_by(|a, b| a.split(':').next().unwrap_or("").cmp(b.split(':').next().unwrap_or("")));
    x
}

/// a = observed (or predicted) answer, b = expectation; where the generated 502 is expected any answer with status
/// 502 is accepted (AnsEq in ProxyMsg.tla: the property does not describe the error page)
fn ans_eq(a: &Value, b: &Value) -> bool {
    if b["kind"] == "502" {
        return a["code"] == 502 && (a["kind"] == "502" || a["kind"] == "resp");
    }
    a["kind"] == b["kind"] && a["code"] == b["code"] && a["body"] == b["body"] && sorted_strs(&a["hdrs"]) == sorted_strs(&b["hdrs"])
}

fn fwd_eq(a: &Value, b: &Value) -> bool {
    a["m"] == b["m"] && a["uri"] == b["uri"] && a["q"] == b["q"] && a["ver"] == b["ver"] && a["body"] == b["body"] && a["pad"] == b["pad"]
        && sorted_strs(&a["hdrs"]) == sorted_strs(&b["hdrs"])
}

// ------------------------------------------------------------------------------------------------
// one proxied call against a scripted upstream
// ------------------------------------------------------------------------------------------------
#[derive(Clone)]
enum Ev {
    Send(u64, Vec<u8>), // at tick, bytes
    Close(u64, bool),   // at tick, reset (SO_LINGER 0) instead of FIN
    Read(u64),          // at tick: a target that was not reading starts to read the request
}

struct Case {
    entry: String,
    req: Value,
    route: String,
    connected: bool,
    blackhole: bool, // not connected: the handshake never completes (instead of being refused)
    noread: bool,    // connected, but the target never reads the request
    events: Vec<Ev>,
    timeout_ms: u64, // for entry = core; the handler's is fixed
    ticks: u64,
}

struct Obs {
    got: Value,
    late: bool,
    elapsed_ms: u64,
    seen: Value,
    seenok: bool,
}

static HANGS_CONFIRMED: AtomicUsize = AtomicUsize::new(0);

/// The client request as bytes on the wire (the concretisation of the model's request record): start line, its
/// headers, an incoming X-Forwarded-For built from the `xff` list, body followed by `pad` MiB of filler. A
/// Content-Length is added when the record has a body but no such header (padded requests).
fn request_bytes(req: &Value, variant: usize) -> Vec<u8> {
    let q = req["q"].as_str().unwrap_or("");
    let target = if q.is_empty() { req["uri"].as_str().unwrap_or("/").to_string() } else { format!("{}?{}", req["uri"].as_str().unwrap_or("/"), q) };
    let mut out = format!("{} {} {}\r\n", req["m"].as_str().unwrap_or("GET"), target, req["ver"].as_str().unwrap_or("HTTP/1.1")).into_bytes();
    let mut has_cl = false;
    for h in req["hdrs"].as_array().cloned().unwrap_or_default() {
        let s = h.as_str().unwrap_or("");
        let (n, v) = s.split_once(": ").unwrap_or((s, ""));
        has_cl |= n == "content-length";
        let n = if variant % 2 == 0 { title_case(n) } else { n.to_string() };
        out.extend(format!("{}: {}\r\n", n, v).as_bytes());
    }
    let xff: Vec<String> = req["xff"].as_array().map(|a| a.iter().map(|x| x.as_str().unwrap_or("").to_string()).collect()).unwrap_or_default();
    if !xff.is_empty() {
        out.extend(format!("{}: {}\r\n", if variant % 2 == 0 { "X-Forwarded-For" } else { "x-forwarded-for" }, xff.join(", ")).as_bytes());
    }
    let body = req["body"].as_str().unwrap_or("-");
    let pad = req["pad"].as_u64().unwrap_or(0) as usize * 1024 * 1024;
    let mut content = if body == "-" { vec![] } else { unhex(body) };
    content.resize(content.len() + pad, b'x');
    if body != "-" && !has_cl {
        out.extend(format!("Content-Length: {}\r\n", content.len()).as_bytes());
    }
    out.extend(b"\r\n");
    out.extend(&content);
    out
}

/// The request is PARSED by the code under test from its bytes (Request::from_stream over a scripted reader with
/// the peer's socket address), so `address` is whatever Address::from_headers makes of an incoming X-Forwarded-For.
fn build_request(req: &Value) -> Request {
    let bytes = request_bytes(req, req["uri"].as_str().map(|u| u.len()).unwrap_or(0));
    let peer: std::net::IpAddr = req["peer"].as_str().unwrap_or("127.0.0.1").parse().expect("harness: peer address");
    let mut cur = std::io::Cursor::new(bytes);
    match Request::from_stream(&mut cur, SocketAddr::new(peer, 40000)) {
        Ok(r) => r,
        Err(e) => panic!("harness: the client request did not parse ({:?}): {}", e, req),
    }
}

fn app_state() -> Arc<AppState> {
    let config = Config {
        logging: LoggingConfig { level: LogLevel::Error, console: false, file: None },
        blacklist: BlacklistConfig { list: vec![], mode: BlacklistMode::Block },
        ..Default::default()
    };
    Arc::new(AppState::from(config))
}

/// A bound socket that does not listen: connecting to it is refused and nobody else can take the port.
fn refusing_port() -> (i32, SocketAddr) {
    unsafe {
        let fd = libc::socket(libc::AF_INET, libc::SOCK_STREAM, 0);
        let mut sa: libc::sockaddr_in = std::mem::zeroed();
        sa.sin_family = libc::AF_INET as u16;
        sa.sin_addr.s_addr = u32::from_ne_bytes([127, 0, 0, 1]);
        sa.sin_port = 0;
        libc::bind(fd, &sa as *const _ as *const libc::sockaddr, std::mem::size_of::<libc::sockaddr_in>() as u32);
        let mut len = std::mem::size_of::<libc::sockaddr_in>() as u32;
        libc::getsockname(fd, &mut sa as *mut _ as *mut libc::sockaddr, &mut len);
        let port = u16::from_be(sa.sin_port);
        (fd, SocketAddr::from(([127, 0, 0, 1], port)))
    }
}

/// A listening socket whose accept queue is full and never drained: further SYNs are dropped by the
/// kernel, so a connect to it neither succeeds nor fails. Returns the fd, the address and the fillers.
fn blackhole_port() -> (i32, SocketAddr, Vec<TcpStream>) {
    unsafe {
        let fd = libc::socket(libc::AF_INET, libc::SOCK_STREAM, 0);
        let mut sa: libc::sockaddr_in = std::mem::zeroed();
        sa.sin_family = libc::AF_INET as u16;
        sa.sin_addr.s_addr = u32::from_ne_bytes([127, 0, 0, 1]);
        sa.sin_port = 0;
        libc::bind(fd, &sa as *const _ as *const libc::sockaddr, std::mem::size_of::<libc::sockaddr_in>() as u32);
        libc::listen(fd, 0);
        let mut len = std::mem::size_of::<libc::sockaddr_in>() as u32;
        libc::getsockname(fd, &mut sa as *mut _ as *mut libc::sockaddr, &mut len);
        let addr = SocketAddr::from(([127, 0, 0, 1], u16::from_be(sa.sin_port)));
        let mut fillers = vec![];
        for _ in 0..8 {
            match TcpStream::connect_timeout(&addr, Duration::from_millis(150)) {
                Ok(s) => fillers.push(s),
                Err(_) => break, // the queue is full: from now on connects hang
            }
        }
        (fd, addr, fillers)
    }
}

/// bind a loopback listener on an ephemeral port; transient failures (the machine is shared) are retried
fn bind_loopback() -> TcpListener {
    let mut last = None;
    for _ in 0..200 {
        match TcpListener::bind("127.0.0.1:0") {
            Ok(l) => return l,
            Err(e) => {
                last = Some(e);
                std::thread::sleep(Duration::from_millis(25));
            }
        }
    }
    panic!("harness: cannot bind a loopback listener: {:?}", last)
}

/// std::thread::spawn panics when the OS refuses a thread; retry instead (harness threads only)
fn spawn_retry<T: Send + 'static>(name: &str, f: impl FnOnce() -> T + Send + 'static) -> std::thread::JoinHandle<T> {
    let mut f = Some(f);
    let mut tries = 0;
    loop {
        let g = f.take().unwrap();
        // Builder::spawn consumes the closure even on failure, so keep it in a shared cell
        let cell = Arc::new(Mutex::new(Some(g)));
        let c2 = cell.clone();
        match std::thread::Builder::new().name(name.to_string()).spawn(move || {
            let g = c2.lock().unwrap().take().unwrap();
            g()
        }) {
            Ok(h) => return h,
            Err(e) => {
                tries += 1;
                if tries > 200 {
                    panic!("harness: cannot spawn a thread: {:?}", e);
                }
                f = cell.lock().unwrap().take();
                std::thread::sleep(Duration::from_millis(25));
            }
        }
    }
}

fn set_linger0(s: &TcpStream) {
    use std::os::unix::io::AsRawFd;
    let l = libc::linger { l_onoff: 1, l_linger: 0 };
    unsafe {
        libc::setsockopt(s.as_raw_fd(), libc::SOL_SOCKET, libc::SO_LINGER, &l as *const _ as *const libc::c_void, std::mem::size_of::<libc::linger>() as u32);
    }
}

fn read_request(s: &mut TcpStream, deadline: Instant) -> Vec<u8> {
    let mut buf: Vec<u8> = vec![];
    let mut tmp = vec![0u8; 256 * 1024];
    let _ = s.set_read_timeout(Some(Duration::from_millis(20)));
    let mut total: Option<usize> = None; // head + announced body, once the head is complete
    let mut scanned = 0usize;
    loop {
        if total.is_none() {
            let from = scanned.saturating_sub(3);
            if let Some(p) = buf[from..].windows(4).position(|w| w == b"\r\n\r\n").map(|p| p + from) {
                let head = String::from_utf8_lossy(&buf[..p]).to_ascii_lowercase();
                let need = head.split("\r\n").filter_map(|l| l.strip_prefix("content-length:")).filter_map(|v| v.trim().parse::<usize>().ok()).next().unwrap_or(0);
                total = Some(p + 4 + need);
            }
            scanned = buf.len();
        }
        if let Some(t) = total {
            if buf.len() >= t {
                return buf;
            }
        }
        if Instant::now() > deadline {
            return buf;
        }
        match s.read(&mut tmp) {
            Ok(0) => return buf,
            Ok(n) => buf.extend(&tmp[..n]),
            Err(_) => {}
        }
    }
}

fn sleep_until(t: Instant) {
    let now = Instant::now();
    if t > now {
        std::thread::sleep(t - now);
    }
}

fn run_case(c: &Case, state: &Arc<AppState>) -> Obs {
    let handler = c.entry == "handler";
    let timeout_ms = if handler { HANDLER_TIMEOUT_MS } else { c.timeout_ms };
    let tick = Duration::from_millis(timeout_ms / c.ticks.max(1));
    let release = Arc::new(AtomicBool::new(false));

    // upstream
    let mut _fillers = vec![];
    let (addr, refuse_fd, listener) = if c.connected {
        let l = bind_loopback();
        (l.local_addr().unwrap(), -1, Some(l))
    } else if c.blackhole {
        let (fd, a, f) = blackhole_port();
        _fillers = f;
        (a, fd, None)
    } else {
        let (fd, a) = refusing_port();
        (a, fd, None)
    };
    let events = c.events.clone();
    let rel2 = release.clone();
    let noread = c.noread;
    if noread || c.events.iter().any(|e| matches!(e, Ev::Read(_))) {
        // a small receive buffer (inherited by the accepted socket) so that "larger than the buffers" is a few MiB
        if let Some(l) = &listener {
            use std::os::unix::io::AsRawFd;
            let sz: libc::c_int = 64 * 1024;
            unsafe {
                libc::setsockopt(l.as_raw_fd(), libc::SOL_SOCKET, libc::SO_RCVBUF, &sz as *const _ as *const libc::c_void, std::mem::size_of::<libc::c_int>() as u32);
            }
        }
    }
    let up = spawn_retry("upstream", move || -> Vec<u8> {
        let l = match listener {
            Some(l) => l,
            None => return vec![],
        };
        l.set_nonblocking(true).ok();
        let give_up = Instant::now() + Duration::from_millis(timeout_ms + 3000);
        let mut s = loop {
            match l.accept() {
                Ok((s, _)) => break s,
                Err(_) => {
                    if Instant::now() > give_up || rel2.load(Ordering::SeqCst) {
                        return vec![];
                    }
                    std::thread::sleep(Duration::from_millis(2));
                }
            }
        };
        let t0 = Instant::now();
        s.set_nonblocking(false).ok();
        s.set_nodelay(true).ok();
        let late = events.iter().any(|e| matches!(e, Ev::Read(_)));
        let mut seen = if noread || late { vec![] } else { read_request(&mut s, t0 + tick / 2) };
        let mut open = true;
        for e in events {
            match e {
                Ev::Send(t, bytes) => {
                    sleep_until(t0 + tick * (t as u32));
                    if s.write_all(&bytes).is_err() {
                        break;
                    }
                    let _ = s.flush();
                }
                Ev::Read(t) => {
                    sleep_until(t0 + tick * (t as u32));
                    seen = read_request(&mut s, Instant::now() + Duration::from_millis(4000));
                }
                Ev::Close(t, rst) => {
                    sleep_until(t0 + tick * (t as u32));
                    if rst {
                        set_linger0(&s);
                    } else {
                        let _ = s.shutdown(std::net::Shutdown::Both);
                    }
                    open = false;
                    break;
                }
            }
        }
        if open {
            // stall: keep the connection open and silent until the call has returned (or was declared hung)
            while !rel2.load(Ordering::SeqCst) {
                std::thread::sleep(Duration::from_millis(5));
            }
        }
        drop(s);
        seen
    });

    // the call
    let (tx, rx) = channel();
    let request = build_request(&c.req);
    let route = c.route.clone();
    let st = state.clone();
    let start = Instant::now();
    spawn_retry("cut", move || {
        let r = std::panic::catch_unwind(std::panic::AssertUnwindSafe(|| {
            if handler {
                let lb = EqMutex::new(LoadBalancer { targets: vec![addr.to_string()], mode: LoadBalancerMode::RoundRobin, index: 0, lcg: Lcg::new() });
                proxy_handler(request, st, &lb, &route)
            } else {
                proxy_request(&request, addr, Duration::from_millis(timeout_ms))
            }
        }));
        let el = start.elapsed();
        let _ = tx.send((r.map(|resp| project_response(&resp)).unwrap_or_else(|_| special("panic")), el));
    });

    // escalating waits: within timeout + slack it is on time; later it is late; after the last wait it is a hang
    let first = Duration::from_millis(timeout_ms + SLACK_MS);
    let extra: Vec<u64> = if handler {
        vec![2000, 4000, 8000, 20000] // the handler's own timeout is not ours to know: a long last wait before "hang"
    } else if HANGS_CONFIRMED.load(Ordering::SeqCst) >= 4 {
        vec![2000]
    } else {
        vec![2000, 4000, 8000]
    };
    let mut res = rx.recv_timeout(first);
    let mut i = 0;
    while matches!(res, Err(RecvTimeoutError::Timeout)) && i < extra.len() {
        res = rx.recv_timeout(Duration::from_millis(extra[i]));
        i += 1;
    }
    let (got, elapsed) = match res {
        Ok((g, el)) => (g, el),
        Err(_) => {
            HANGS_CONFIRMED.fetch_add(1, Ordering::SeqCst);
            (special("hang"), start.elapsed())
        }
    };
    release.store(true, Ordering::SeqCst);
    let seen_bytes = up.join().unwrap_or_default();
    if refuse_fd >= 0 {
        unsafe { libc::close(refuse_fd) };
    }
    let (seen, seenok) = if c.connected { project_request(&seen_bytes) } else { (no_fwd(), false) };
    let late = elapsed > first;
    Obs { got, late, elapsed_ms: elapsed.as_millis() as u64, seen, seenok }
}

fn trace_record(id: &Value, c: &Case, segs: &[Seg], term: &str, o: &Obs) -> Value {
    json!({"id": id, "entry": c.entry, "req": c.req, "route": c.route, "connected": c.connected, "noread": c.noread,
           "segs": segs.iter().map(|s| s.to_json()).collect::<Vec<_>>(), "term": term,
           "got": o.got, "late": o.late, "seenok": o.seenok, "seen": o.seen, "elapsed_ms": o.elapsed_ms})
}

/// run `jobs` on `threads` workers, results in input order
fn pool<T: Send + Sync + 'static, R: Send + 'static>(jobs: Vec<T>, threads: usize, f: impl Fn(&T) -> R + Send + Sync + 'static) -> Vec<R> {
    let n = jobs.len();
    let jobs = Arc::new(jobs);
    let next = Arc::new(AtomicUsize::new(0));
    let out: Arc<Mutex<Vec<Option<R>>>> = Arc::new(Mutex::new((0..n).map(|_| None).collect()));
    let f = Arc::new(f);
    let hs: Vec<_> = (0..threads.max(1))
        .map(|_| {
            let (jobs, next, out, f) = (jobs.clone(), next.clone(), out.clone(), f.clone());
            spawn_retry("worker", move || loop {
                let i = next.fetch_add(1, Ordering::SeqCst);
                if i >= n {
                    break;
                }
                let r = f(&jobs[i]);
                out.lock().unwrap()[i] = Some(r);
            })
        })
        .collect();
    for h in hs {
        let _ = h.join();
    }
    let mut g = out.lock().unwrap();
    g.drain(..).map(|x| x.expect("job result")).collect()
}

// ------------------------------------------------------------------------------------------------
// replay of TLC behaviours
// ------------------------------------------------------------------------------------------------
struct ReplayJob {
    v: Value,
    case: Case,
    segs: Vec<Seg>,
    term: String,
}

fn replay_job(v: Value, timeout_ms: u64, ticks: u64) -> ReplayJob {
    let id = v["id"].as_u64().unwrap_or(0) as usize;
    let wire: Vec<Seg> = v["wire"].as_array().map(|a| a.iter().map(Seg::from_json).collect()).unwrap_or_default();
    let exp502 = v["exp"]["kind"] == "502";
    let mut events: Vec<Ev> = vec![];
    for e in v["ev"].as_array().cloned().unwrap_or_default() {
        let t = e["t"].as_u64().unwrap_or(0);
        match e["e"].as_str().unwrap_or("") {
            "send" => {
                let i = e["i"].as_u64().unwrap_or(1) as usize;
                let bytes = render(&wire[i - 1], id / 2);
                // consecutive sends of one tick are one write every other case, separate writes otherwise
                if id % 2 == 0 {
                    if let Some(Ev::Send(t2, b2)) = events.last_mut() {
                        if *t2 == t {
                            b2.extend(&bytes);
                            continue;
                        }
                    }
                }
                events.push(Ev::Send(t, bytes));
            }
            // a reset instead of an orderly close is used only where the expected answer is 502 anyway
            "close" => events.push(Ev::Close(t, exp502 && id % 4 == 3)),
            "read" => events.push(Ev::Read(t)),
            _ => {}
        }
    }
    let segs: Vec<Seg> = v["segs"].as_array().map(|a| a.iter().map(Seg::from_json).collect()).unwrap_or_default();
    let case = Case {
        entry: v["entry"].as_str().unwrap_or("core").to_string(),
        req: v["req"].clone(),
        route: v["route"].as_str().unwrap_or("/*").to_string(),
        connected: v["connected"].as_bool().unwrap_or(true),
        blackhole: v["kind"] == "blackhole",
        noread: v["noread"].as_bool().unwrap_or(false),
        events,
        timeout_ms,
        ticks,
    };
    let term = v["term"].as_str().unwrap_or("stall").to_string();
    ReplayJob { v, case, segs, term }
}

fn judge(j: &ReplayJob, o: &Obs) -> Value {
    let v = &j.v;
    let ans_ok = ans_eq(&o.got, &v["exp"]);
    let fwd_ok = !j.case.connected || j.case.noread || (o.seenok && fwd_eq(&o.seen, &v["fwd"]));
    // lateness gates for proxy_request (the harness configures its timeout); proxy_handler's own timeout value is
    // not part of the property: there only a hang gates, lateness is reported as drift
    let late_gates = o.late && (j.case.entry == "core" || o.got["kind"] == "hang");
    let ok = ans_ok && fwd_ok && !late_gates;
    let mut dev = Value::Null;
    if !ok && fwd_ok && (!late_gates || o.got["kind"] == "hang") {
        if let Some(alt) = v["alt"].as_object() {
            let mut names: Vec<&String> = alt.keys().collect();
            names.sort();
            // a deviation explains the observation only if its prediction differs from the ideal model's answer
            let ex: Vec<&String> = names.into_iter().filter(|d| ans_eq(&o.got, &alt[*d]) && !ans_eq(&alt[*d], &v["base"])).collect();
            if !ex.is_empty() {
                dev = json!(ex);
            }
        }
    }
    let mut drift: Vec<&str> = vec![];
    if o.late && !late_gates {
        drift.push("proxy_handler answered later than 5 s + slack");
    }
    if v["exp"]["kind"] == "502" && o.got["kind"] == "resp" && ans_ok {
        drift.push("the generated 502 answer is not today's page (body / headers differ)");
    }
    json!({"id": v["id"], "ok": ok, "ans_ok": ans_ok, "fwd_ok": fwd_ok, "late": late_gates, "devs": dev, "drift": drift,
           "nontrivial": v["exp"]["kind"] == "resp",
           "trace": trace_record(&v["id"], &j.case, &j.segs, &j.term, o)})
}

fn replay(timeout_ms: u64, ticks: u64, threads: usize) {
    let state = app_state();
    let jobs: Vec<ReplayJob> = stdin_lines().filter_map(|l| serde_json::from_str::<Value>(&l).ok()).map(|v| replay_job(v, timeout_ms, ticks)).collect();
    let st = state.clone();
    let results = pool(jobs, threads, move |j: &ReplayJob| {
        let mut o = run_case(&j.case, &st);
        let mut r = judge(j, &o);
        // an unexplained mismatch is re-run (a behaviour whose outcome depends on timing with the clock slowed down
        // three times): a verdict must never depend on this machine being fast enough, only persistent ones count
        let timed = j.v["ev"].as_array().map(|a| a.iter().any(|e| e["t"].as_u64().unwrap_or(0) > 0)).unwrap_or(false);
        let mut tries = 0;
        while r["ok"] == false && r["devs"].is_null() && tries < 2 {
            tries += 1;
            let slow = Case { timeout_ms: if timed { j.case.timeout_ms * 3 } else { j.case.timeout_ms }, events: j.case.events.clone(), entry: j.case.entry.clone(),
                              req: j.case.req.clone(), route: j.case.route.clone(), connected: j.case.connected, blackhole: j.case.blackhole, noread: j.case.noread, ticks: j.case.ticks };
            o = run_case(&slow, &st);
            r = judge(j, &o);
            r["retried"] = json!(tries);
        }
        r
    });
    for r in results {
        out_line(&r);
    }
}

// ------------------------------------------------------------------------------------------------
// byte-offset cuts of seed responses (code -> spec)
// ------------------------------------------------------------------------------------------------
fn seeds(rng: &mut Rng, n: usize, nbig: usize) -> Vec<(Vec<Seg>, usize)> {
    let codes: [u64; 12] = [200, 201, 206, 301, 404, 410, 500, 503, 204, 304, 308, 429];
    let hdr_cat = ["content-type: text/html; charset=utf-8", "set-cookie: a=1; Path=/", "set-cookie: b=2", "x-up: v w", "etag: \"abc:def\"",
                   "location: http://h.example:8080/x?y=1", "x-unicode: caf\u{e9} \u{1f600}", "server: up/1.0", "cache-control: no-cache, max-age=0"];
    let mut out = vec![];
    for s in 0..n {
        let code = codes[(s + rng.below(codes.len())) % codes.len()];
        let nobody = code == 204 || code == 304;
        let fr = if nobody { "none" } else { ["cl", "chunked", "close"][s % 3] };
        let mut segs = vec![Seg::new("status", "", code)];
        let nh = rng.below(4);
        let mut framing_at = rng.below(nh + 1);
        let mut hs: Vec<&str> = vec![];
        for _ in 0..nh {
            hs.push(*rng.pick(&hdr_cat));
        }
        // body: 0..3 units of random bytes (CR, LF, NUL and high bytes included)
        let nu = if nobody { 0 } else { rng.below(4) };
        let units: Vec<Vec<u8>> = (0..nu)
            .map(|_| {
                let len = rng.range(1, 9);
                (0..len).map(|_| *rng.pick(&[b'a', b'z', b'0', b'\r', b'\n', 0u8, 0xff, b':', b' '])).collect()
            })
            .collect();
        let total: usize = units.iter().map(|u| u.len()).sum();
        for (i, h) in hs.iter().enumerate() {
            if i == framing_at {
                match fr {
                    "cl" => segs.push(Seg::new("cl", "", total as u64)),
                    "chunked" => segs.push(Seg::new("te", "", 0)),
                    _ => {}
                }
                framing_at = usize::MAX;
            }
            segs.push(Seg::new("hdr", h, 0));
        }
        if framing_at != usize::MAX {
            match fr {
                "cl" => segs.push(Seg::new("cl", "", total as u64)),
                "chunked" => segs.push(Seg::new("te", "", 0)),
                _ => {}
            }
        }
        segs.push(Seg::new("blank", "", 0));
        for u in &units {
            segs.push(Seg::new(if fr == "chunked" { "chunk" } else { "data" }, &hex(u), 0));
        }
        if fr == "chunked" {
            segs.push(Seg::new("last", "", 0));
        }
        out.push((segs, s));
    }
    // large bodies (several socket reads, BufReader refills): cut at sampled offsets only
    for b in 0..nbig {
        let fr = ["cl", "chunked", "close"][b % 3];
        let units: Vec<Vec<u8>> = (0..3).map(|_| { let n = rng.range(9000, 30000); rng.bytes(n) }).collect();
        let total: usize = units.iter().map(|u| u.len()).sum();
        let mut segs = vec![Seg::new("status", "", 200), Seg::new("hdr", "content-type: application/octet-stream", 0)];
        match fr {
            "cl" => segs.push(Seg::new("cl", "", total as u64)),
            "chunked" => segs.push(Seg::new("te", "", 0)),
            _ => {}
        }
        segs.push(Seg::new("blank", "", 0));
        for u in &units {
            segs.push(Seg::new(if fr == "chunked" { "chunk" } else { "data" }, &hex(u), 0));
        }
        if fr == "chunked" {
            segs.push(Seg::new("last", "", 0));
        }
        out.push((segs, 1000 + b));
    }
    // fixed seeds. Unicode classes in header values (white space that is not SP / HTAB is part of the value),
    // three hundred chunks, and the coding name spelled "Chunked"
    let uni = ["x-nbsp: \u{a0}lead and trail\u{a0}", "x-nel: \u{85}x\u{2028}y", "x-wide: \u{3000}\u{1680}z", "x-digits: \u{663}\u{ff11}\u{b2}\u{bd}",
               // (no DEL: 0x7F is neither VCHAR nor obs-text, a response carrying it is not valid HTTP and may be refused - it was
               // in this list until a property-preserving parser that refuses control bytes in the head raised an alarm, round 8)
               "x-case: \u{df}\u{130}\u{fb01}", "x-c1: a\u{80}\u{9f}b", "x-comb: e\u{301}\u{e000}"];
    let mut segs = vec![Seg::new("status", "", 200)];
    for h in uni.iter() {
        segs.push(Seg::new("hdr", h, 0));
    }
    segs.extend([Seg::new("cl", "", 2), Seg::new("blank", "", 0), Seg::new("data", "6f6b", 0)]);
    out.push((segs, 2000));
    let mut segs = vec![Seg::new("status", "", 200), Seg::new("te", "", 0), Seg::new("blank", "", 0)];
    for i in 0..300usize {
        let d: Vec<u8> = (0..(1 + i % 3)).map(|j| b'a' + ((i + j) % 26) as u8).collect();
        segs.push(Seg::new("chunk", &hex(&d), 0));
    }
    segs.push(Seg::new("last", "", 0));
    out.push((segs, 2001));
    out.push((vec![Seg::new("status", "", 200), Seg::new("te", "Chunked", 0), Seg::new("hdr", "x-after: 1", 0), Seg::new("blank", "", 0),
                   Seg::new("chunk", &hex(&[b'q'; 17]), 0), Seg::new("chunk", "7a", 0), Seg::new("last", "", 0)], 2002));
    // interim responses in front of the final one (100 Continue; one or two of them), cut at every byte and delivered in one
    // write: the head of the final response arrives in the same read as the interim one.  Relaying the interim response or
    // the final one are both accepted (ProxyMsg!Interim); losing the final response is not.
    out.push((vec![Seg::new("status", "", 100), Seg::new("blank", "", 0), Seg::new("status", "", 201), Seg::new("cl", "", 2), Seg::new("blank", "", 0),
                   Seg::new("data", "6f6b", 0)], 2100));
    out.push((vec![Seg::new("status", "", 100), Seg::new("hdr", "x-interim: 1", 0), Seg::new("blank", "", 0), Seg::new("status", "", 200), Seg::new("te", "", 0),
                   Seg::new("hdr", "x-final: 1", 0), Seg::new("blank", "", 0), Seg::new("chunk", "616263", 0), Seg::new("last", "", 0)], 2101));
    out.push((vec![Seg::new("status", "", 100), Seg::new("blank", "", 0), Seg::new("status", "", 100), Seg::new("blank", "", 0), Seg::new("status", "", 404),
                   Seg::new("cl", "", 0), Seg::new("blank", "", 0)], 2102));
    // two fixed non-HTTP seeds: every prefix of them must give 502 as well
    out.push((vec![Seg::new("garbage", "ssh", 0)], n));
    out.push((vec![Seg::new("status", "", 200), Seg::new("badhdr", "", 0), Seg::new("blank", "", 0)], n + 1));
    out
}

/// the segments delivered by the first `cut` bytes of the rendered seed
fn tokenise(segs: &[Seg], variant: usize, cut: usize) -> Vec<Seg> {
    let mut out = vec![];
    let mut pos = 0;
    for s in segs {
        let b = render(s, variant);
        if pos + b.len() <= cut {
            out.push(s.clone());
            pos += b.len();
            continue;
        }
        let d = cut - pos;
        if d > 0 {
            if s.k == "data" {
                out.push(Seg::new("data", &hex(&b[..d]), 0));
            } else {
                let colon = b[..d].iter().position(|x| *x == b':').map(|p| p + 1).unwrap_or(0);
                out.push(Seg { k: "part".into(), v: s.k.clone(), n: d as u64, m: colon as u64 });
            }
        }
        break;
    }
    out
}

struct CutJob {
    id: String,
    case: Case,
    segs: Vec<Seg>,
    term: String,
}

fn cuts(timeout_ms: u64, threads: usize, stall_mod: usize, nseeds: usize, nbig: usize, nslow: usize) {
    let mut rng = Rng::from_env();
    let state = app_state();
    let req = json!({"m": "GET", "uri": "/r/x", "q": "a=b", "ver": "HTTP/1.1", "hdrs": ["host: up.example"], "xff": ["198.51.100.4", "10.1.1.1"], "body": "-", "pad": 0, "peer": "127.0.0.1"});
    let mut jobs = vec![];
    // responses of several MiB, delivered in eight pieces 100 ms apart (well inside a 6 s deadline): they must be
    // passed on complete. One per framing; the whole response is delivered (no cut).
    for b in 0..nslow {
        let fr = ["cl", "chunked", "close"][b % 3];
        let mib = 2 + b / 3;
        let mut segs = vec![Seg::new("status", "", 200), Seg::new("hdr", "content-type: application/octet-stream", 0)];
        let unit = 256 * 1024;
        let nunits = mib * 4;
        match fr {
            "cl" => segs.push(Seg::new("cl", "", (unit * nunits) as u64)),
            "chunked" => segs.push(Seg::new("te", "", 0)),
            _ => {}
        }
        segs.push(Seg::new("blank", "", 0));
        for _ in 0..nunits {
            let u = rng.bytes(unit);
            segs.push(Seg::new(if fr == "chunked" { "chunk" } else { "data" }, &hex(&u), 0));
        }
        if fr == "chunked" {
            segs.push(Seg::new("last", "", 0));
        }
        let bytes: Vec<u8> = segs.iter().flat_map(|s| render(s, b)).collect();
        let piece = bytes.len() / 8 + 1;
        let mut events: Vec<Ev> = bytes.chunks(piece).enumerate().map(|(i, c)| Ev::Send(i as u64, c.to_vec())).collect();
        let term = if fr == "close" { "eof" } else { "stall" };
        if fr == "close" {
            events.push(Ev::Close(8, false));
        }
        jobs.push(CutJob {
            id: format!("slow{}{}", b, fr),
            case: Case { entry: "core".into(), req: req.clone(), route: "/r*".into(), connected: true, blackhole: false, noread: false, events, timeout_ms: 6000, ticks: 60 },
            segs,
            term: term.into(),
        });
    }
    for (segs, sid) in seeds(&mut rng, nseeds, nbig) {
        let variant = sid;
        let bytes: Vec<u8> = segs.iter().flat_map(|s| render(s, variant)).collect();
        let offsets: Vec<usize> = if bytes.len() <= 2000 {
            (0..=bytes.len()).collect()
        } else {
            // segment boundaries +-1, the ends, and random offsets
            let mut o = vec![0, bytes.len(), bytes.len() - 1, bytes.len() - 2];
            let mut pos = 0;
            for sg in &segs {
                pos += render(sg, variant).len();
                o.extend([pos.saturating_sub(1), pos, (pos + 1).min(bytes.len())]);
            }
            for _ in 0..24 {
                o.push(rng.below(bytes.len()));
            }
            o.sort();
            o.dedup();
            o
        };
        for cut in offsets {
            for term in ["eof", "stall"] {
                if term == "stall" && cut % stall_mod.max(1) != 0 && cut != bytes.len() {
                    continue;
                }
                let mut events = vec![];
                if cut > 0 {
                    events.push(Ev::Send(0, bytes[..cut].to_vec()));
                }
                if term == "eof" {
                    events.push(Ev::Close(0, false));
                }
                // every 7th seed goes through proxy_handler when no waiting for the 5 s deadline is involved
                let entry = if sid % 7 == 3 && term == "eof" { "handler" } else { "core" };
                jobs.push(CutJob {
                    id: format!("s{}c{}{}", sid, cut, term),
                    case: Case { entry: entry.into(), req: req.clone(), route: "/r*".into(), connected: true, blackhole: false, noread: false, events, timeout_ms, ticks: 3 },
                    segs: tokenise(&segs, variant, cut),
                    term: term.into(),
                });
            }
        }
    }
    // confirmation runs: only the cases named in the file VERIF_ONLY_IDS (one id per line)
    if let Ok(path) = std::env::var("VERIF_ONLY_IDS") {
        let only: std::collections::HashSet<String> = std::fs::read_to_string(path).unwrap_or_default().lines().map(|l| l.trim().to_string()).collect();
        jobs.retain(|j| only.contains(&j.id));
    }
    let st = state.clone();
    let results = pool(jobs, threads, move |j: &CutJob| {
        let mut o = run_case(&j.case, &st);
        let mut tries = 0;
        // lateness that is not a hang is re-measured (machine load must not become a verdict)
        while o.late && o.got["kind"] != "hang" && tries < 2 {
            tries += 1;
            o = run_case(&j.case, &st);
        }
        trace_record(&json!(j.id), &j.case, &j.segs, &j.term, &o)
    });
    for r in results {
        out_line(&r);
    }
}

// ------------------------------------------------------------------------------------------------
// load balancer
// ------------------------------------------------------------------------------------------------
static SEQ: AtomicU64 = AtomicU64::new(1);

/// One group. A proxy_handler call that did not come back with an upstream's "T<i>" body without panicking (the
/// loopback connection itself failed: 502) says nothing about the balancer; such a group is repeated and, if it
/// keeps happening, the run ends as an environment error (exit 3), never as a finding.
fn lb_group(nt: usize, k: usize, calls: usize, mode: LoadBalancerMode, via_handler: bool, start: usize, state: &Arc<AppState>, rng: &mut Rng) {
    for attempt in 0..4 {
        if lb_group_once(nt, k, calls, mode, via_handler, start, state, rng) {
            return;
        }
        eprintln!("lb group nt={} k={} via_handler={}: a proxied call did not reach its upstream (attempt {})", nt, k, via_handler, attempt);
        std::thread::sleep(Duration::from_millis(500));
    }
    eprintln!("harness: environment error: loopback upstreams unreachable");
    std::process::exit(3);
}

const UNREACHED: usize = usize::MAX;

fn lb_group_once(nt: usize, k: usize, calls: usize, mode: LoadBalancerMode, via_handler: bool, start: usize, state: &Arc<AppState>, rng: &mut Rng) -> bool {
    let stop = Arc::new(AtomicBool::new(false));
    let mut targets = vec![];
    let mut ups = vec![];
    for i in 1..=nt {
        if via_handler {
            let l = bind_loopback();
            targets.push(l.local_addr().unwrap().to_string());
            let stop = stop.clone();
            // blocking accept (woken by one last connection after `stop` is set): a fast upstream keeps the
            // handler threads overlapping in proxy_handler
            ups.push(spawn_retry("lb-upstream", move || loop {
                match l.accept() {
                    Ok((mut s, _)) => {
                        if stop.load(Ordering::SeqCst) {
                            break;
                        }
                        let _ = read_request(&mut s, Instant::now() + Duration::from_millis(2000));
                        let _ = s.write_all(format!("HTTP/1.1 200 OK\r\nContent-Length: 2\r\n\r\nT{}", i).as_bytes());
                    }
                    Err(_) => {
                        if stop.load(Ordering::SeqCst) {
                            break;
                        }
                    }
                }
            }));
        } else {
            targets.push(format!("127.0.0.1:{}", 9000 + i));
        }
    }
    let mode_name = if mode == LoadBalancerMode::RoundRobin { "RoundRobin" } else { "Random" };
    let lb = Arc::new(EqMutex::new(LoadBalancer { targets: targets.clone(), mode, index: start, lcg: Lcg::new() }));
    let barrier = Arc::new(Barrier::new(k));
    let jitter: Vec<u64> = (0..k).map(|_| rng.below(200) as u64).collect();
    let hs: Vec<_> = (0..k)
        .map(|t| {
            let (lb, barrier, targets, state) = (lb.clone(), barrier.clone(), targets.clone(), state.clone());
            let jit = jitter[t];
            spawn_retry("cut", move || {
                let mut log = vec![];
                barrier.wait();
                for c in 0..calls {
                    if (jit + c as u64) % 3 == 0 {
                        std::thread::yield_now();
                    }
                    if via_handler {
                        let req = build_request(&json!({"m": "GET", "uri": "/lb/x", "q": "", "ver": "HTTP/1.1", "hdrs": ["host: lb.example"], "xff": [], "body": "-", "pad": 0, "peer": "127.0.0.1"}));
                        let inv = SEQ.fetch_add(1, Ordering::SeqCst);
                        let r = std::panic::catch_unwind(std::panic::AssertUnwindSafe(|| proxy_handler(req, state.clone(), &lb, "/lb/*")));
                        let ret = SEQ.fetch_add(1, Ordering::SeqCst);
                        let tgt = match r {
                            Ok(resp) if resp.body.len() >= 2 && resp.body[0] == b'T' => String::from_utf8_lossy(&resp.body[1..]).parse::<usize>().unwrap_or(0),
                            Ok(_) => UNREACHED, // an answer, but not an upstream's: the connection failed
                            Err(_) => 0,        // select_target / the handler panicked
                        };
                        log.push((t + 1, tgt, inv, ret));
                    } else {
                        // the same lock proxy_handler takes; the sequence number is drawn while the guard is held
                        let r = std::panic::catch_unwind(std::panic::AssertUnwindSafe(|| {
                            let mut guard = lb.lock().unwrap();
                            let target = guard.select_target();
                            let s = SEQ.fetch_add(1, Ordering::SeqCst);
                            drop(guard);
                            (target, s)
                        }));
                        match r {
                            Ok((target, s)) => log.push((t + 1, targets.iter().position(|x| *x == target).map(|p| p + 1).unwrap_or(0), s, s)),
                            Err(_) => {
                                let s = SEQ.fetch_add(1, Ordering::SeqCst);
                                log.push((t + 1, 0, s, s))
                            }
                        }
                    }
                }
                log
            })
        })
        .collect();
    let mut all = vec![];
    for h in hs {
        all.extend(h.join().unwrap_or_default());
    }
    stop.store(true, Ordering::SeqCst);
    if via_handler {
        for t in &targets {
            let _ = TcpStream::connect(t.as_str());
        }
    }
    for u in ups {
        let _ = u.join();
    }
    if all.iter().any(|x| x.1 == UNREACHED) {
        return false;
    }
    all.sort_by_key(|x| x.2);
    out_line(&json!({"k": "cfg", "nt": nt, "mode": mode_name, "start": start, "t": k, "r": 0, "inv": 0, "ret": 0, "via": if via_handler { "handler" } else { "locked" }}));
    for (t, r, inv, ret) in all {
        out_line(&json!({"k": "call", "nt": nt, "mode": mode_name, "start": start, "t": t, "r": r, "inv": inv, "ret": ret, "via": if via_handler { "handler" } else { "locked" }}));
    }
    true
}

fn lb(max_threads: usize, calls: usize, stress_rounds: usize, stress_calls: usize) {
    let state = app_state();
    let mut rng = Rng::from_env();
    // stress: 8 threads x hundreds of proxy_handler calls on one round-robin balancer (a lost update between two
    // overlapping calls needs many of them to show); the number of targets changes from round to round
    for round in 0..stress_rounds {
        let nt = [3, 2, 4][round % 3];
        lb_group(nt, 8, stress_calls, LoadBalancerMode::RoundRobin, true, 0, &state, &mut rng);
    }
    for nt in 1..=4 {
        for k in 1..=max_threads {
            for mode in [LoadBalancerMode::RoundRobin, LoadBalancerMode::Random] {
                for via_handler in [false, true] {
                    // proxy_handler always starts from the configured balancer (index 0); the locked runs also start mid-rotation
                    let start = if via_handler { 0 } else { rng.below(nt) };
                    lb_group(nt, k, calls, mode, via_handler, start, &state, &mut rng);
                }
            }
        }
    }
}

/// `proxy stall`: three proxy_handler calls in flight at once on ONE route (one balancer, round robin over a target that accepts
/// and never answers and a target that answers at once).  Proxy.tla bounds every call by its own deadline: the call that goes to the
/// healthy target is answered with its 200 without waiting for the others, each call to the silent target is answered 502 within
/// the handler's 5 s plus slack - not 5 s later per call queued before it.  Added after a seeded balancer lock held across
/// proxy_request (the guard living to the end of a `match` scrutinee) was missed (round 8): single calls and concurrent
/// select_target calls alone show nothing.
fn stall() {
    let state = app_state();
    let stop = Arc::new(AtomicBool::new(false));
    let silent = bind_loopback();
    let fast = bind_loopback();
    let targets = vec![silent.local_addr().unwrap().to_string(), fast.local_addr().unwrap().to_string(), silent.local_addr().unwrap().to_string()];
    let held: Arc<Mutex<Vec<TcpStream>>> = Arc::new(Mutex::new(vec![]));
    let (stop1, held1) = (stop.clone(), held.clone());
    let up1 = spawn_retry("stall-silent", move || loop {
        match silent.accept() {
            Ok((s, _)) => { if stop1.load(Ordering::SeqCst) { break; } held1.lock().unwrap().push(s); }
            Err(_) => { if stop1.load(Ordering::SeqCst) { break; } }
        }
    });
    let stop2 = stop.clone();
    let up2 = spawn_retry("stall-fast", move || loop {
        match fast.accept() {
            Ok((mut s, _)) => {
                if stop2.load(Ordering::SeqCst) { break; }
                let _ = read_request(&mut s, Instant::now() + Duration::from_millis(2000));
                let _ = s.write_all(b"HTTP/1.1 200 OK\r\nContent-Length: 2\r\n\r\nT2");
            }
            Err(_) => { if stop2.load(Ordering::SeqCst) { break; } }
        }
    });
    let lb = Arc::new(EqMutex::new(LoadBalancer { targets: targets.clone(), mode: LoadBalancerMode::RoundRobin, index: 0, lcg: Lcg::new() }));
    let t0 = Instant::now();
    let hs: Vec<_> = (0..3usize)
        .map(|t| {
            let (lb, state) = (lb.clone(), state.clone());
            spawn_retry("cut", move || {
                // staggered by 150 ms so that the order of the three selections is the order of the threads
                std::thread::sleep(Duration::from_millis(150 * t as u64));
                let req = build_request(&json!({"m": "GET", "uri": "/lb/x", "q": "", "ver": "HTTP/1.1", "hdrs": ["host: lb.example"], "xff": [], "body": "-", "pad": 0, "peer": "127.0.0.1"}));
                let t1 = Instant::now();
                let r = std::panic::catch_unwind(std::panic::AssertUnwindSafe(|| proxy_handler(req, state.clone(), &lb, "/lb/*")));
                let ms = t1.elapsed().as_millis() as u64;
                match r {
                    Ok(resp) => (u16::from(resp.status_code), String::from_utf8_lossy(&resp.body).chars().take(40).collect::<String>(), ms),
                    Err(_) => (0u16, "panic".to_string(), ms),
                }
            })
        })
        .collect();
    let res: Vec<(u16, String, u64)> = hs.into_iter().map(|h| h.join().unwrap_or((0, "harness thread died".into(), 0))).collect();
    stop.store(true, Ordering::SeqCst);
    for t in targets.iter().take(2) { let _ = TcpStream::connect(t.as_str()); }
    let _ = up1.join();
    let _ = up2.join();
    let slack = 4000u64;
    let mut bad: Vec<String> = vec![];
    for (i, (code, body, ms)) in res.iter().enumerate() {
        if i == 1 {
            if !(*code == 200 && body == "T2") { bad.push(format!("call 2 (healthy target): answered {} {:?}", code, body)); }
            if *ms > slack { bad.push(format!("call 2 (healthy target) was answered after {} ms: it waited for a call to another target", ms)); }
        } else {
            if *code != 502 { bad.push(format!("call {} (silent target): answered {} {:?}, not 502", i + 1, code, body)); }
            if *ms > HANDLER_TIMEOUT_MS + slack { bad.push(format!("call {} (silent target) was answered after {} ms (timeout {} ms + {} ms slack)", i + 1, ms, HANDLER_TIMEOUT_MS, slack)); }
        }
    }
    out_line(&json!({"summary": true, "calls": res.iter().map(|(c, b, ms)| json!({"code": c, "body": b, "ms": ms})).collect::<Vec<_>>(),
        "total_ms": t0.elapsed().as_millis() as u64, "bad": bad}));
}

fn main() {
    // panics of the code under test (threads named "cut") are data and stay silent; a panic of the harness itself is
    // reported on stderr so that the driver's tool error says what happened
    std::panic::set_hook(Box::new(|info| {
        if std::thread::current().name() != Some("cut") {
            eprintln!("harness panic in thread {:?}: {}", std::thread::current().name(), info);
        }
    }));
    let a: Vec<String> = std::env::args().collect();
    let num = |i: usize, d: u64| -> u64 { a.get(i).and_then(|s| s.parse().ok()).unwrap_or(d) };
    match a.get(1).map(|s| s.as_str()) {
        Some("replay") => replay(num(2, 450), num(3, 3), num(4, 32) as usize),
        Some("cuts") => cuts(num(2, 300), num(3, 32) as usize, num(4, 4) as usize, num(5, 6) as usize, num(6, 0) as usize, num(7, 0) as usize),
        Some("stall") => stall(),
        Some("lb") => lb(num(2, 4) as usize, num(3, 3) as usize, num(4, 0) as usize, num(5, 300) as usize),
        Some("one") => {
            let state = app_state();
            for l in stdin_lines() {
                if let Ok(v) = serde_json::from_str::<Value>(&l) {
                    let j = replay_job(v, num(2, 450), num(3, 3));
                    let o = run_case(&j.case, &state);
                    out_line(&judge(&j, &o));
                }
            }
        }
        _ => {
            eprintln!("usage: proxy replay|cuts|lb|one ...");
            std::process::exit(2)
        }
    }
}
