//! C06 conformance, shared by the threaded bin (harness/src/bin/staticfs.rs: humphrey::handlers + the server's
//! directory_handler) and the tokio bin (harness-tokio/src/bin/staticfs.rs: humphrey::tokio::handlers).  The bins
//! differ only in the `Backend` that binds the real handlers to a directory and calls them.
//!
//!   staticfs replay <scratch-dir> [threads]
//!       stdin : lines printed by TLC - {"routes":[..],"nostar":[..],"cat":[..]}, {"world":k,"root":[..],"nodes":[..]} and
//!               per request path {"r":[bytes] | "p":[catalogue indices],"d":[E,E,E],"f":[E,E,E](,"x":[[st,id],..])}, E = [kind,id,ct(,akind,aid,act)]
//!       Every world is built below <scratch-dir> (canary and twin beside the root), every path is sent to
//!       serve_dir and directory_handler under every route prefix and to serve_as_file_path, and the answer
//!       (status, Location, Content-Type, identity of the body, canary marker) is compared with E.
//!       stdout: one summary line.
//!   staticfs random <worlds> <requests-per-world> <scratch-dir> <worlds-out.ndjson>
//!       random worlds and deeper random request paths (plus every file and directory of each world under its
//!       spellings); stdout: one record per call {"w","h","route","uri","st","id","ct","loc","canary"} for TLC
//!       (Trace_StaticFs), the worlds go to <worlds-out.ndjson>.
//!   staticfs e2e <scratch-dir> <worlds-out.ndjson> <world-index>
//!       a real App on loopback (`/static/*` -> serve_dir, `/*` -> serve_as_file_path) serves one random world; every
//!       file and directory, a list of traversal attempts and a file of several MiB fetched by a client that starts
//!       reading 0.4 - 1 s late, over real sockets; records as above (plus "late_ms").
//!   staticfs rerun <scratch-dir> <worlds-in.ndjson>
//!       stdin: recorded calls; the same requests are sent again to the current tree and logged in the same format.
//!
//! The harness knows nothing about decoding, guards or lookups: expectations come from TLC; the only logic here is
//! the projection of a Response and the comparison `conforms` (mirrors Conforms in StaticFs.tla).
#![allow(dead_code)]
use super::hutil::*;
use humphrey::http::address::Address;
use humphrey::http::headers::{HeaderType, Headers};
use humphrey::http::method::Method;
use humphrey::http::{Request, Response};
use humphrey::percent::PercentEncode;
use serde_json::{json, Value};
use std::collections::HashMap;
use std::ffi::OsString;
use std::net::{IpAddr, Ipv4Addr};
use std::os::unix::ffi::OsStringExt;
use std::path::PathBuf;
use std::sync::Arc;

/// Binds the real handlers to one served directory.
pub trait Backend: Sized {
    /// `dir` has no trailing slash
    fn new(dir: &str) -> Self;
    /// handler names this backend offers, out of "serve_dir", "directory", "directory_cached", "file_path", "serve_file"
    fn handlers() -> &'static [&'static str];
    /// h: handler name; `alt` selects the trailing-slash spelling of the directory.
    /// For "serve_file" `route` is the configured file path relative to the directory. Panics are caught by the caller.
    fn call(&self, h: &str, route: &str, req: Request, alt: bool) -> Response;
    /// the build's real request parser on wire bytes (None: rejected)
    fn parse(&self, wire: &[u8]) -> Option<Request>;
    /// start a real App on 127.0.0.1:<port> with `/static/*` -> serve_dir(dir) and `/*` -> serve_as_file_path(dir);
    /// false when this backend has no server leg
    fn spawn_server(_dir: &'static str, _port: u16) -> bool { false }
}

/// The Request for `uri` - produced by the real parser from wire bytes whenever the uri can travel in a request
/// line unchanged (no space, `?`, CR, LF; not empty), so that every field is filled the way production fills it;
/// with `query` a query string is attached on the wire (it must not influence the answer).  Otherwise by hand.
pub fn request_via<B: Backend>(b: &B, uri: &str, query: Option<&str>) -> (Request, bool) {
    let safe = !uri.is_empty() && !uri.bytes().any(|c| c == b' ' || c == b'?' || c == b'\r' || c == b'\n');
    if safe {
        let wire = format!("GET {}{}{} HTTP/1.1\r\nHost: localhost\r\nAccept: */*\r\n\r\n", uri, if query.is_some() { "?" } else { "" }, query.unwrap_or(""));
        if let Some(r) = b.parse(wire.as_bytes()) {
            if r.uri == uri { return (r, true); }
        }
    }
    (request(uri), false)
}

pub fn leak(s: String) -> &'static str {
    Box::leak(s.into_boxed_str())
}

const CANARY_MARK: &[u8] = b"HV-CANARY-MARKER";
const FILE_MARK: &[u8] = b"HVFILE:";

/// Deterministic content of file `id`; `outside` files carry the canary marker. Every byte value occurs.
/// content ids whose files have a prescribed size (StaticFs!SizeOf; the header line of TLC carries the same table)
pub fn default_sizes() -> HashMap<i64, usize> {
    [(5000, 0usize), (5001, 1), (5002, 255), (5003, 256), (5004, 65535), (5005, 65536), (5006, 65537), (5007, 3145729)].into_iter().collect()
}

fn content(id: i64, outside: bool, sizes: &HashMap<i64, usize>) -> Vec<u8> {
    let mut v = content_default(id, outside);
    if let Some(&n) = sizes.get(&id) {
        let mut x = (id as u64).wrapping_mul(0xD1B54A32D192ED03) | 1;
        while v.len() < n {
            x ^= x << 13;
            x ^= x >> 7;
            x ^= x << 17;
            v.push((x >> 32) as u8);
        }
        v.truncate(n);
    }
    v
}

fn content_default(id: i64, outside: bool) -> Vec<u8> {
    if outside {
        // the marker recurs every few bytes, so that any 64-byte piece of an outside file is recognised
        let unit = [CANARY_MARK, format!(":{}:", id).as_bytes()].concat();
        let n = 600 + ((id as u64).wrapping_mul(2654435761) % 1500) as usize;
        return unit.iter().cycle().take(n).cloned().collect();
    }
    let mut v = Vec::new();
    if outside {
        v.extend_from_slice(CANARY_MARK);
        v.extend_from_slice(format!(":{}:", id).as_bytes());
    } else {
        v.extend_from_slice(FILE_MARK);
        v.extend_from_slice(format!("{}:", id).as_bytes());
    }
    let n = ((id as u64).wrapping_mul(2654435761) % 2500) as usize;
    let mut x = (id as u64).wrapping_mul(0x9E3779B97F4A7C15) | 1;
    for i in 0..n {
        x ^= x << 13;
        x ^= x >> 7;
        x ^= x << 17;
        v.push(if i < 256 { i as u8 } else { (x >> 24) as u8 });
    }
    v.extend_from_slice(b"\r\n\0END");
    v
}

#[derive(Clone)]
struct Node {
    p: Vec<Vec<u8>>,
    k: String,
    id: i64,
}

struct World {
    ix: usize,
    root_names: Vec<Vec<u8>>,
    nodes: Vec<Node>,
    root_dir: String,                 // absolute path of the served directory, no trailing slash
    by_content: HashMap<Vec<u8>, i64>,
}

fn names_to_path(base: &PathBuf, names: &[Vec<u8>]) -> PathBuf {
    let mut p = base.clone();
    for n in names {
        p.push(OsString::from_vec(n.clone()));
    }
    p
}

fn is_prefix(a: &[Vec<u8>], b: &[Vec<u8>]) -> bool {
    a.len() <= b.len() && a.iter().zip(b.iter()).all(|(x, y)| x == y)
}

fn bytes_of(v: &Value) -> Vec<u8> {
    v.as_array().map(|a| a.iter().map(|x| x.as_u64().unwrap_or(0) as u8).collect()).unwrap_or_default()
}

fn parse_world(v: &Value) -> (usize, Vec<Vec<u8>>, Vec<Node>) {
    let ix = v["world"].as_u64().unwrap() as usize;
    let root: Vec<Vec<u8>> = v["root"].as_array().unwrap().iter().map(bytes_of).collect();
    let nodes = v["nodes"].as_array().unwrap().iter().map(|n| Node {
        p: n["p"].as_array().unwrap().iter().map(bytes_of).collect(),
        k: n["k"].as_str().unwrap().to_string(),
        id: n["id"].as_i64().unwrap(),
    }).collect();
    (ix, root, nodes)
}

/// Realise a world below `scratch/w<ix>` (that directory is the top node).
fn build_world(scratch: &str, ix: usize, root: Vec<Vec<u8>>, nodes: Vec<Node>) -> World {
    build_world_sized(scratch, ix, root, nodes, &default_sizes())
}

fn build_world_sized(scratch: &str, ix: usize, root: Vec<Vec<u8>>, mut nodes: Vec<Node>, sizes: &HashMap<i64, usize>) -> World {
    let top = PathBuf::from(scratch).join(format!("w{}", ix));
    let _ = std::fs::remove_dir_all(&top);
    std::fs::create_dir_all(&top).expect("create top");
    nodes.sort_by_key(|n| n.p.len());
    let mut by_content = HashMap::new();
    for n in &nodes {
        let path = names_to_path(&top, &n.p);
        if n.k == "d" {
            std::fs::create_dir_all(&path).expect("mkdir");
        } else {
            let outside = !is_prefix(&root, &n.p);
            let c = content(n.id, outside, sizes);
            std::fs::write(&path, &c).expect("write file");
            by_content.insert(c, n.id);
        }
    }
    let root_dir = names_to_path(&top, &root).to_str().expect("utf8 root").to_string();
    World { ix, root_names: root, nodes, root_dir, by_content }
}

#[derive(Clone, Debug)]
struct Got {
    st: u16,
    id: i64,       // 0 = no file content, -1 = damaged / partial file content
    ct: String,
    loc: Vec<u8>,
    canary: bool,
    panic: bool,
    q: Vec<u8>,    // the query string the request carried on the wire ("" = none)
}

impl Got {
    /// media type of the Content-Type without parameters, lower case (for the judge; `ct` stays byte-exact)
    fn ctb(&self) -> String {
        self.ct.split(';').next().unwrap_or("").trim().to_ascii_lowercase()
    }
}

fn find(hay: &[u8], needle: &[u8]) -> bool {
    hay.windows(needle.len()).any(|w| w == needle)
}

fn project(w: &World, r: Result<Response, ()>) -> Got {
    match r {
        Err(_) => Got { st: 0, id: 0, ct: String::new(), loc: vec![], canary: false, panic: true, q: vec![] },
        Ok(resp) => {
            let st: u16 = resp.status_code.into();
            let id = match w.by_content.get(&resp.body) {
                // (an empty body is the empty file only in a 200; redirects and bare errors have empty bodies too)
                Some(i) if !(resp.body.is_empty() && st != 200) => *i,
                Some(_) => 0,
                None => if find(&resp.body, FILE_MARK) || find(&resp.body, CANARY_MARK) { -1 } else { 0 },
            };
            Got {
                st,
                id,
                ct: resp.headers.get(HeaderType::ContentType).unwrap_or("").to_string(),
                loc: resp.headers.get(HeaderType::Location).unwrap_or("").as_bytes().to_vec(),
                canary: find(&resp.body, CANARY_MARK),
                panic: false,
                q: vec![],
            }
        }
    }
}

pub fn request(uri: &str) -> Request {
    Request {
        method: Method::Get,
        uri: uri.to_string(),
        query: String::new(),
        version: "HTTP/1.1".to_string(),
        headers: Headers::new(),
        content: None,
        address: Address { origin_addr: IpAddr::V4(Ipv4Addr::new(127, 0, 0, 1)), proxies: vec![], port: 4242 },
    }
}

fn ct_ok(ect: &str, gct: &str) -> bool {
    if ect == "?" { gct.is_empty() || gct == "application/octet-stream" } else { gct == ect }
}

/// Conforms in StaticFs.tla for one (kind, id, ct)
fn conforms_one(k: &str, id: i64, ct: &str, uri: &[u8], g: &Got) -> bool {
    match k {
        "f" => g.st == 200 && g.id == id && ct_ok(ct, &g.ct),
        "r" => g.st == 301 && g.id == 0 && g.loc.len() == uri.len() + 1 && g.loc[..uri.len()] == *uri && g.loc[uri.len()] == b'/',
        "n" => g.st == 404 && g.id == 0,
        "x" => (400..=499).contains(&g.st) && g.id == 0,
        _ => false,
    }
}

fn conforms(e: &Value, uri: &[u8], g: &Got) -> bool {
    if g.canary || g.panic { return false; }
    let a = e.as_array().unwrap();
    if conforms_one(a[0].as_str().unwrap(), a[1].as_i64().unwrap(), a[2].as_str().unwrap(), uri, g) { return true; }
    a.len() >= 6 && conforms_one(a[3].as_str().unwrap(), a[4].as_i64().unwrap(), a[5].as_str().unwrap(), uri, g)
}

/// LocOk in StaticFs.tla: the path of the Location is the request path followed by "/"; an origin in front and the
/// request's query behind are admitted
fn loc_ok(uri: &[u8], q: &[u8], loc: &[u8]) -> bool {
    let mut l = loc;
    for scheme in [&b"http://"[..], &b"https://"[..]] {
        if l.starts_with(scheme) {
            let rest = &l[scheme.len()..];
            l = match rest.iter().position(|c| *c == b'/') { Some(i) => &rest[i..], None => &[] };
            break;
        }
    }
    let plain = [uri, b"/"].concat();
    l == &plain[..] || (!q.is_empty() && l == &[&plain[..], b"?", q].concat()[..])
}

/// JudgeOk in StaticFs.tla: dm = [kind, id, extension bytes] is what the STATEMENT demands for this request
fn judge_ok(dm: &Value, uri: &[u8], g: &Got, accepted: &HashMap<Vec<u8>, Vec<String>>) -> bool {
    if g.canary { return false; }
    match dm[0].as_str().unwrap_or("-") {
        "f" => {
            let x = bytes_of(&dm[2]);
            g.st == 200 && Some(g.id) == dm[1].as_i64() && (x.is_empty() || accepted.get(&x).map_or(false, |v| v.contains(&g.ctb())))
        }
        "r" => g.st == 301 && loc_ok(uri, &g.q, &g.loc),
        "n" => g.st == 404 && g.id == 0,
        _ => true,
    }
}

fn got_json(g: &Got) -> Value {
    json!({"st": g.st, "id": g.id, "ct": g.ct, "loc": String::from_utf8_lossy(&g.loc), "canary": g.canary, "panic": g.panic})
}

fn prefix_of(route: &[u8]) -> Vec<u8> {
    if route.last() == Some(&b'*') { route[..route.len() - 1].to_vec() } else { route.to_vec() }
}

struct Tally {
    lines: u64,
    evals: u64,
    nontrivial: u64,
    mism: u64,
    canary_hits: u64,
    drifts: u64,
    first: Vec<Value>,
    first_drift: Vec<Value>,
    samples: Vec<Value>,
}

fn replay<B: Backend>(scratch: &str, threads: usize) {
    let mut worlds: Vec<World> = vec![];
    let mut routes: Vec<Vec<u8>> = vec![];
    let mut nostar: Vec<u8> = vec![];
    let mut cat: Vec<Vec<u8>> = vec![];
    let mut vectors: Vec<Value> = vec![];
    let mut pending: Vec<Value> = vec![];
    let mut sizes = default_sizes();
    let mut accepted: HashMap<Vec<u8>, Vec<String>> = HashMap::new();
    for line in stdin_lines() {
        let v: Value = match serde_json::from_str(&line) { Ok(v) => v, Err(_) => continue };
        if v.get("world").is_some() {
            pending.push(v);
        } else if v.get("routes").is_some() {
            if let Some(a) = v.get("accepted").and_then(|x| x.as_array()) {
                accepted = a.iter().map(|p| (bytes_of(&p[0]), p[1].as_array().unwrap().iter().map(|t| t.as_str().unwrap().to_string()).collect())).collect();
            }
            if let Some(a) = v.get("sizes").and_then(|x| x.as_array()) {
                sizes = a.iter().map(|p| (p[0].as_i64().unwrap(), p[1].as_u64().unwrap() as usize)).collect();
            }
            routes = v["routes"].as_array().unwrap().iter().map(bytes_of).collect();
            nostar = bytes_of(&v["nostar"]);
            cat = v["cat"].as_array().map(|a| a.iter().map(bytes_of).collect()).unwrap_or_default();
        } else if v.get("r").is_some() || v.get("p").is_some() {
            vectors.push(v);
        }
    }
    for v in &pending {
        let (ix, root, nodes) = parse_world(v);
        worlds.push(build_world_sized(scratch, ix, root, nodes, &sizes));
    }
    worlds.sort_by_key(|w| w.ix);
    if worlds.is_empty() || routes.is_empty() {
        eprintln!("staticfs replay: no worlds / routes on stdin");
        std::process::exit(2);
    }
    let worlds = Arc::new(worlds);
    let routes = Arc::new(routes);
    let nostar = Arc::new(nostar);
    let vectors = Arc::new(vectors);
    let cat = Arc::new(cat);
    let accepted = Arc::new(accepted);
    let nthreads = threads.max(1);
    let mut handles = vec![];
    for t in 0..nthreads {
        let (worlds, routes, nostar, vectors, cat) = (worlds.clone(), routes.clone(), nostar.clone(), vectors.clone(), cat.clone());
        let accepted = accepted.clone();
        handles.push(std::thread::spawn(move || {
            let hs: Vec<B> = worlds.iter().map(|w| B::new(&w.root_dir)).collect();
            let offered = B::handlers();
            let mut ta = Tally { lines: 0, evals: 0, nontrivial: 0, mism: 0, canary_hits: 0, drifts: 0, first: vec![], first_drift: vec![], samples: vec![] };
            let mut i = t;
            while i < vectors.len() {
                let v = &vectors[i];
                i += nthreads;
                ta.lines += 1;
                // the request path: bytes ("r") or catalogue indices ("p", 1-based) joined with '/'
                let rel = if v.get("r").is_some() { bytes_of(&v["r"]) } else {
                    v["p"].as_array().unwrap().iter().map(|i| cat[i.as_u64().unwrap() as usize - 1].clone()).collect::<Vec<_>>().join(&b'/')
                };
                let mut interesting = false;
                for (wi, w) in worlds.iter().enumerate() {
                    let ed = &v["d"][wi];
                    let ef = &v["f"][wi];
                    let x = if v.get("x").is_some() { &v["x"][wi] } else { &Value::Null };
                    let k_d = ed[0].as_str().unwrap();
                    let k_f = ef[0].as_str().unwrap();
                    if k_d == "f" || k_d == "r" || k_f == "f" || ed.as_array().unwrap().len() > 3 || ef.as_array().unwrap().len() > 3
                        || (x[0].as_u64() == Some(200) && k_f != "f") {
                        interesting = true;
                    }
                    // (handler, route, uri, expectation)
                    // what the statement itself demands (StaticFs 3e); older vector files have no demand: nothing is demanded
                    let silent = json!(["-", 0, []]);
                    let jd = v.get("jd").map(|a| &a[wi]).unwrap_or(&silent);
                    let jf = v.get("jf").map(|a| &a[wi]).unwrap_or(&silent);
                    // under a route prefix that does not end in a slash the path starts with one slash of its own
                    let js = v.get("js").map(|a| &a[wi]).unwrap_or(&silent);
                    // (handler, route, uri, strict expectation, demand of the statement)
                    let mut calls: Vec<(&str, Vec<u8>, Vec<u8>, &Value, &Value)> = vec![];
                    for route in routes.iter() {
                        let mut uri = prefix_of(route);
                        uri.extend_from_slice(&rel);
                        let dm = if prefix_of(route).last() == Some(&b'/') { jd } else { js };
                        calls.push(("serve_dir", route.clone(), uri.clone(), ed, dm));
                        calls.push(("directory", route.clone(), uri, ed, dm));
                    }
                    if rel.is_empty() {
                        // a route without wildcard only ever sees itself; the statement does not say whether that is the
                        // directory "without trailing slash" (301) or its index: only the strict reading (index) is noted
                        calls.push(("serve_dir", nostar.to_vec(), nostar.to_vec(), ed, &silent));
                        calls.push(("directory", nostar.to_vec(), nostar.to_vec(), ed, &silent));
                    }
                    let mut uri = vec![b'/'];
                    uri.extend_from_slice(&rel);
                    calls.push(("file_path", vec![], uri, ef, jf));
                    for (ci, (h, route, uri, e, dm)) in calls.iter().enumerate() {
                        if !offered.contains(h) { continue; }
                        let uri_s = match std::str::from_utf8(uri) { Ok(s) => s, Err(_) => continue };   // a Request uri is a String
                        let route_s = std::str::from_utf8(route).unwrap();
                        let alt = (i + ci + wi) % 2 == 1;
                        let g = call(&hs[wi], w, h, route_s, uri_s, alt);
                        ta.evals += 1;
                        if g.canary { ta.canary_hits += 1; }
                        if !judge_ok(dm, uri, &g, &accepted) {
                            // the statement of the property is not met: a violation
                            ta.mism += 1;
                            if ta.first.len() < 40 {
                                let dev = if *h == "file_path" && !g.panic && x[0].as_u64() == Some(g.st as u64) && x[1].as_i64() == Some(g.id) { "FilePathNoCheck" } else { "" };
                                ta.first.push(json!({"world": w.ix, "handler": h, "route": route_s, "uri": uri_s, "uri_bytes": uri,
                                    "dir_with_trailing_slash": alt, "demanded": dm, "expected": e, "got": got_json(&g), "dev": dev, "vector": v}));
                            }
                        } else if !conforms(e, uri, &g) {
                            // admitted by the statement, different from the strict reading (today's choices): a drift note
                            ta.drifts += 1;
                            if ta.first_drift.len() < 10 {
                                ta.first_drift.push(json!({"world": w.ix, "handler": h, "route": route_s, "uri": uri_s,
                                    "demanded": dm, "strict_expectation": e, "got": got_json(&g), "vector": v}));
                            }
                        } else if ta.samples.len() < 3 && e[0].as_str() != Some("x") && e[0].as_str() != Some("n") && rel.len() > 6 && (i / nthreads) % 97 == 0 {
                            ta.samples.push(json!({"world": w.ix, "handler": h, "route": route_s, "uri": uri_s, "expected": e, "got": got_json(&g)}));
                        }
                    }
                }
                if interesting { ta.nontrivial += 1; }
            }
            ta
        }));
    }
    let mut tot = Tally { lines: 0, evals: 0, nontrivial: 0, mism: 0, canary_hits: 0, drifts: 0, first: vec![], first_drift: vec![], samples: vec![] };
    for h in handles {
        let ta = h.join().expect("worker");
        tot.lines += ta.lines;
        tot.evals += ta.evals;
        tot.nontrivial += ta.nontrivial;
        tot.mism += ta.mism;
        tot.canary_hits += ta.canary_hits;
        tot.drifts += ta.drifts;
        for f in ta.first_drift { if tot.first_drift.len() < 10 { tot.first_drift.push(f); } }
        for f in ta.first { if tot.first.len() < 40 { tot.first.push(f); } }
        for s in ta.samples { if tot.samples.len() < 6 { tot.samples.push(s); } }
    }
    for w in worlds.iter() {
        let _ = std::fs::remove_dir_all(PathBuf::from(scratch).join(format!("w{}", w.ix)));
    }
    out_line(&json!({"summary": true, "lines": tot.lines, "worlds": worlds.len(), "evaluations": tot.evals, "nontrivial": tot.nontrivial,
        "mismatches": tot.mism, "canary_hits": tot.canary_hits, "first": tot.first, "samples": tot.samples,
        "drifts": tot.drifts, "first_drift": tot.first_drift,
        "requests_via_real_parser": VIA_PARSER.load(std::sync::atomic::Ordering::Relaxed), "requests_built_by_hand": BY_HAND.load(std::sync::atomic::Ordering::Relaxed)}));
}

// ------------------------------------------------------------------------------------------------
// random worlds / requests (code -> spec direction)
// ------------------------------------------------------------------------------------------------

const NAME_POOL: &[&str] = &[
    "a", "b", "dir.d", "index.html", "index.htm", "noext", "x.txt", "y.css", "sp ace", "ü", "%41", "a..b", "...", "x:y",
    "%2e%2e", ".h", "c\\d", "file.tar.gz", "é😀.png", "A", "z.json", "INDEX.HTML", "index.html.bak", "p+q", "q?r", "h#i", "t~", "w.", "rootx", "root",
    // Unicode classes (start / middle / end of the name), names that are only an extension, several dots, prefix-like names
    "\u{a0}lead.txt", "trail\u{3000}", "mid\u{2028}dle.css", "\u{85}", "\u{1680}x", "\u{663}.html", "\u{ff11}\u{1d7d9}", "\u{b2}\u{bd}\u{2167}.js",
    "\u{df}.txt", "x.\u{df}", "\u{130}.css", "\u{fb01}le.json", "e\u{301}.txt", "\u{80}c1", "c1\u{9f}", "\u{7f}", "\u{e000}", "\u{10ffff}.png",
    ".html", ".css", "x.html.txt", "page.txt.html", "f.txt.", "static", "d\u{fc}", "s", "static.txt", "\t", "\u{1}", "*", "%", "%%", "%zz",
];
const ATTACKS: &[&str] = &[
    ".", "..", "...", "", "%2e%2e", "%2E.", ".%2e", "%2f", "%5c", "%00", "%252e%252e", "%c0%ae%c0%ae", "%2e", "..%2f", "%2e%2e%2f",
    "canary.txt", "rootx", "root", "base", "index.html", "index.htm", "%zz", "%", "%4", "..%5c", "..;", "%uff0e%uff0e", "%e0%80%ae", "\\..", "%2e%2e%5c",
    "....//", "..%00", "%c3", "%ff", "x%3ay", "c:",
];

fn hex(b: u8, upper: bool) -> String {
    if upper { format!("%{:02X}", b) } else { format!("%{:02x}", b) }
}

/// random spelling of a name: each byte raw or percent-encoded (reserved bytes are always encoded so that
/// the spelling still denotes the name after one decoding)
fn spell(rng: &mut Rng, name: &[u8], p_enc: usize) -> Vec<u8> {
    let mut out = vec![];
    for &b in name {
        let must = b == b'%' || b >= 0x80 && rng.chance(1, 2);
        if must || rng.chance(p_enc, 10) {
            out.extend_from_slice(hex(b, rng.chance(1, 2)).as_bytes());
        } else {
            out.push(b);
        }
    }
    out
}

fn gen_world(rng: &mut Rng, ix: usize) -> (Vec<Vec<u8>>, Vec<Node>) {
    let above: Vec<Vec<u8>> = ["l1", "l2", "l3", "l4", "base"].iter().map(|s| s.as_bytes().to_vec()).collect();
    let mut root = above.clone();
    root.push(b"root".to_vec());
    let mut nodes = vec![];
    for i in 0..=root.len() {
        nodes.push(Node { p: root[..i].to_vec(), k: "d".into(), id: 0 });
    }
    // beside the root: the canary, a twin of a likely name, and a directory whose name extends the root's
    let mut beside = |name: &[&str], k: &str, id: i64| {
        let mut p = above.clone();
        for n in name { p.push(n.as_bytes().to_vec()); }
        nodes.push(Node { p, k: k.into(), id });
    };
    beside(&["canary.txt"], "f", 900);
    beside(&["index.html"], "f", 901);
    beside(&["rootx"], "d", 0);
    beside(&["rootx", "index.html"], "f", 902);
    beside(&["a"], "f", 903);
    // files whose sizes are boundary values (default_sizes): empty, 1 byte, around 2^16, several MiB
    {
        let mut z = root.clone();
        z.push(b"z".to_vec());
        nodes.push(Node { p: z.clone(), k: "d".into(), id: 0 });
        for (name, id) in [("empty.txt", 5000), ("one", 5001), ("s65535.js", 5004), ("s65536.png", 5005), ("big.bin", 5007)] {
            if id == 5007 && ix % 3 != 1 { continue; }          // the 3 MiB file in every third world
            let mut p = z.clone();
            p.push(name.as_bytes().to_vec());
            nodes.push(Node { p, k: "f".into(), id });
        }
    }
    // one file per extension of the MIME table (and two multi-dot names ending in one) in every second world: every file of
    // a world is requested by its path, so each table entry is looked up through the real handlers (added after the seeded
    // change `C06-r5-mimetype-...` - a binary search over a table with two entries out of order - was missed: the random
    // worlds only had txt/css/png/json/html/js names, the per-extension files lived in the model-checked world W1 only)
    if ix % 2 == 1 {
        let mut m = root.clone();
        m.push(b"mime".to_vec());
        nodes.push(Node { p: m.clone(), k: "d".into(), id: 0 });
        let exts = ["css", "html", "htm", "js", "mjs", "txt", "bmp", "gif", "jpeg", "jpg", "png", "webp", "svg", "ico", "json", "pdf", "zip",
            "mp4", "ogv", "webm", "ttf", "otf", "woff", "woff2"];
        for (k, e) in exts.iter().enumerate() {
            let mut p = m.clone();
            p.push(format!("f.{}", e).into_bytes());
            nodes.push(Node { p, k: "f".into(), id: 6000 + k as i64 });
            if k % 6 == (ix / 2) % 6 {
                let mut p = m.clone();
                p.push(format!("a.b.min.{}", e).into_bytes());
                nodes.push(Node { p, k: "f".into(), id: 6100 + k as i64 });
            }
        }
    }
    let mut next_id = 1 + (ix as i64 % 7);
    // breadth-first random tree, depth <= 3
    let mut frontier: Vec<(Vec<Vec<u8>>, usize)> = vec![(root.clone(), 0)];
    while let Some((dir, depth)) = frontier.pop() {
        let n = if depth == 0 { rng.range(2, 6) } else { rng.range(0, 4) };
        let mut used: Vec<&str> = vec![];
        for _ in 0..n {
            let name = *rng.pick(NAME_POOL);
            if used.contains(&name) { continue; }
            used.push(name);
            let mut p = dir.clone();
            p.push(name.as_bytes().to_vec());
            let as_dir = depth < 3 && rng.chance(2, 5);
            if as_dir {
                nodes.push(Node { p: p.clone(), k: "d".into(), id: 0 });
                frontier.push((p, depth + 1));
            } else {
                nodes.push(Node { p, k: "f".into(), id: next_id });
                next_id += 1;
            }
        }
    }
    (root, nodes)
}

fn random<B: Backend>(nworlds: usize, per_world: usize, scratch: &str, worlds_out: &str) {
    use std::io::Write;
    let mut rng = Rng::from_env();
    let mut wf = std::fs::File::create(worlds_out).expect("worlds out");
    let routes: Vec<&str> = vec!["/*", "/static/*", "/dür/*", "/dü*", "/a/b/*", "/%2e/*", "/s*"];
    for wi in 1..=nworlds {
        let (root, nodes) = gen_world(&mut rng, wi);
        let nodes_json: Vec<Value> = nodes.iter().map(|n| json!({"p": n.p, "k": n.k, "id": n.id})).collect();
        writeln!(wf, "{}", json!({"world": wi, "root": root, "nodes": nodes_json})).unwrap();
        let w = build_world(scratch, wi, root.clone(), nodes.clone());
        let hs = B::new(&w.root_dir);
        let inside: Vec<&Node> = w.nodes.iter().filter(|n| is_prefix(&w.root_names, &n.p) && n.p.len() > w.root_names.len()).collect();
        let mut rels: Vec<Vec<u8>> = vec![];
        // every file and directory under its spellings (positive half, redirect and index rule)
        for n in &inside {
            let names = &n.p[w.root_names.len()..];
            let raw: Vec<u8> = names.join(&b'/');
            let lib: Vec<u8> = names.iter().map(|x| x.percent_encode().into_bytes()).collect::<Vec<_>>().join(&b'/');
            let all: Vec<u8> = names.iter().map(|x| x.iter().map(|b| hex(*b, false)).collect::<String>().into_bytes()).collect::<Vec<_>>().join(&b'/');
            for mut r in [raw, lib, all] {
                rels.push(r.clone());
                if n.k == "d" { r.push(b'/'); rels.push(r); }
            }
        }
        rels.push(vec![]);
        // absolute components: the real absolute path of the canary / of an inside file after one or more slashes
        // (a handler that joins with Path::join would let them replace the directory)
        {
            let top = PathBuf::from(scratch).join(format!("w{}", wi));
            let canary_abs = names_to_path(&top, &[&w.root_names[..w.root_names.len() - 1], &[b"canary.txt".to_vec()][..]].concat());
            let mut abs: Vec<Vec<u8>> = vec![canary_abs.to_str().unwrap().as_bytes().to_vec()];
            if let Some(n) = inside.iter().find(|n| n.k == "f") {
                if let Some(sp) = names_to_path(&top, &n.p).to_str() { abs.push(sp.as_bytes().to_vec()); }
            }
            for a in abs {
                let no_lead = a[1..].to_vec();
                rels.push(a.clone());                                            // "/abs" -> uri "//abs" under "/*"
                rels.push([b"/".to_vec(), a.clone()].concat());
                rels.push([b"%2f".to_vec(), no_lead.clone()].concat());
                rels.push([b"%2F%2f".to_vec(), no_lead.clone()].concat());
                rels.push(no_lead);
            }
        }
        // random deeper paths: names of the world, attack spellings, random encodings
        for _ in 0..per_world {
            let depth = rng.range(1, 8);
            let mut segs: Vec<Vec<u8>> = vec![];
            // start from an existing node half of the time so that lookups go deep
            if !inside.is_empty() && rng.chance(1, 2) {
                let n = *rng.pick(&inside);
                for name in &n.p[w.root_names.len()..] {
                    let p_enc = rng.below(4);
                    segs.push(spell(&mut rng, name, p_enc));
                }
            }
            // directed: climb out of wherever we are and name something that lies beside the root
            if rng.chance(1, 6) {
                let ups = segs.len() + 1 + rng.below(2);
                let dd = *rng.pick(&["..", "..", "%2e%2e", ".%2E", "%252e%252e", "..%2f.", "%c0%ae%c0%ae"]);
                for _ in 0..ups { segs.push(dd.as_bytes().to_vec()); }
                for name in *rng.pick(&[&["canary.txt"][..], &["index.html"][..], &["rootx", "index.html"][..], &["a"][..], &["root", "index.html"][..], &["rootx", ""][..]]) {
                    let p_enc = rng.below(3);
                    segs.push(spell(&mut rng, name.as_bytes(), p_enc));
                }
                let rel = segs.join(&b'/');
                if std::str::from_utf8(&rel).is_ok() { rels.push(rel); }
                continue;
            }
            while segs.len() < depth {
                let s = match rng.below(10) {
                    0..=3 => rng.pick(ATTACKS).as_bytes().to_vec(),
                    4..=6 => { let name = rng.pick(NAME_POOL).as_bytes().to_vec(); let p_enc = rng.below(5); spell(&mut rng, &name, p_enc) }
                    7 => vec![],
                    _ => rng.pick(NAME_POOL).as_bytes().to_vec(),
                };
                let at = rng.below(segs.len() + 1);
                segs.insert(at, s);
            }
            let mut rel = segs.join(&b'/');
            if rng.chance(1, 5) { rel.push(b'/'); }
            if std::str::from_utf8(&rel).is_ok() { rels.push(rel); }
        }
        for (ri, rel) in rels.iter().enumerate() {
            let route = routes[(ri + wi) % routes.len()].as_bytes().to_vec();
            // under a prefix that does not end in a slash (`/s*`, `/dü*`) the natural request has a slash of its own
            let slashed: Vec<u8>;
            let rel = if prefix_of(&route).last() != Some(&b'/') && (ri / routes.len()) % 2 == 0 { slashed = [b"/".to_vec(), rel.clone()].concat(); &slashed } else { rel };
            for h in ["serve_dir", "directory", "file_path"] {
                if !B::handlers().contains(&h) { continue; }
                let (route_b, uri): (Vec<u8>, Vec<u8>) = if h == "file_path" {
                    (vec![], [b"/".to_vec(), rel.clone()].concat())
                } else {
                    (route.clone(), [prefix_of(&route), rel.clone()].concat())
                };
                let uri_s = std::str::from_utf8(&uri).unwrap();
                let route_s = std::str::from_utf8(&route_b).unwrap();
                // the directory route is also asked twice with the server's cache on, so that the second of those
                // answers comes out of the cache (logged as "directory": the property does not distinguish)
                let alt = (ri + wi) % 2 == 0;
                let mut rounds: Vec<&str> = vec![h];
                if h == "directory" && B::handlers().contains(&"directory_cached") { rounds.push("directory_cached"); rounds.push("directory_cached"); }
                for hh in rounds {
                    let g = call(&hs, &w, hh, route_s, uri_s, alt);
                    out_line(&record(wi, h, &route_b, &uri, &g, false));
                }
            }
        }
        // the cache of the directory route must not confuse paths that differ only by trailing slashes: a file, then
        // the file with a slash (404); a directory with a slash (its index), then without (301); in both orders
        if B::handlers().contains(&"directory_cached") {
            for (ni, n) in inside.iter().enumerate() {
                let names = &n.p[w.root_names.len()..];
                let lib: Vec<u8> = names.iter().map(|x| x.percent_encode().into_bytes()).collect::<Vec<_>>().join(&b'/');
                let route = routes[(ni + wi) % routes.len()].as_bytes().to_vec();
                let base = [prefix_of(&route), lib].concat();
                let with = [base.clone(), b"/".to_vec()].concat();
                let with2 = [base.clone(), b"//".to_vec()].concat();
                let order: Vec<&Vec<u8>> = if (ni + wi) % 2 == 0 { vec![&base, &with, &with2, &base, &with] } else { vec![&with, &base, &with2, &with, &base] };
                for uri in order {
                    let g = call(&hs, &w, "directory_cached", std::str::from_utf8(&route).unwrap(), std::str::from_utf8(uri).unwrap(), false);
                    out_line(&record(wi, "directory", &route, uri, &g, false));
                }
            }
        }
        // serve_file: a configured path (file, directory, nothing) answers every uri the same way
        if B::handlers().contains(&"serve_file") {
            let mut cfgs: Vec<Vec<u8>> = inside.iter().map(|n| n.p[w.root_names.len()..].join(&b'/')).collect();
            cfgs.push(b"no-such-file.txt".to_vec());
            for (ci, cfg) in cfgs.iter().enumerate() {
                let uri = if ci % 2 == 0 { b"/".to_vec() } else { [b"/".to_vec(), rels[(ci * 7) % rels.len()].clone()].concat() };
                let g = call(&hs, &w, "serve_file", std::str::from_utf8(cfg).unwrap(), std::str::from_utf8(&uri).unwrap(), false);
                out_line(&record(wi, "serve_file", cfg, &uri, &g, false));
            }
        }
        let _ = std::fs::remove_dir_all(PathBuf::from(scratch).join(format!("w{}", wi)));
    }
}

/// Re-issue recorded requests (stdin: records with "w","h","route","uri") against freshly built worlds and log the
/// answers of the current tree in the same format (used by `bin/check C06 --replay`).
fn rerun<B: Backend>(scratch: &str, worlds_in: &str) {
    let text = std::fs::read_to_string(worlds_in).expect("worlds file");
    let mut worlds: HashMap<usize, (World, B)> = HashMap::new();
    for line in text.lines() {
        let v: Value = match serde_json::from_str(line) { Ok(v) => v, Err(_) => continue };
        let (ix, root, nodes) = parse_world(&v);
        let w = build_world(scratch, ix, root, nodes);
        let b = B::new(&w.root_dir);
        worlds.insert(ix, (w, b));
    }
    for line in stdin_lines() {
        let v: Value = match serde_json::from_str(&line) { Ok(v) => v, Err(_) => continue };
        let wi = v["w"].as_u64().unwrap() as usize;
        let h = v["h"].as_str().unwrap().to_string();
        let (route, uri) = (bytes_of(&v["route"]), bytes_of(&v["uri"]));
        let (w, b) = match worlds.get(&wi) { Some(x) => x, None => continue };
        if !B::handlers().contains(&h.as_str()) { continue; }
        let g = call(b, w, &h, std::str::from_utf8(&route).unwrap(), std::str::from_utf8(&uri).unwrap(), false);
        out_line(&record(wi, &h, &route, &uri, &g, false));
    }
    for (ix, _) in worlds.iter() {
        let _ = std::fs::remove_dir_all(PathBuf::from(scratch).join(format!("w{}", ix)));
    }
}

// ------------------------------------------------------------------------------------------------
// end to end: a real App on loopback (routing, the real request parser, the real response writer)
// ------------------------------------------------------------------------------------------------

/// One HTTP/1.1 exchange with `Connection: close`.  The client starts reading `late_ms` after it has sent the request
/// (a body of several MiB then fills the socket buffers and the server has to keep writing) and reads in small pieces.
/// Waiting is generous and only in the "must complete" direction: no complete answer within 120 s is reported as st = 0.
fn fetch(port: u16, target: &[u8], late_ms: u64) -> Option<(u16, String, Vec<u8>, Vec<u8>)> {
    use std::io::{Read, Write};
    use std::time::Duration;
    let mut s = std::net::TcpStream::connect(("127.0.0.1", port)).ok()?;
    s.set_read_timeout(Some(Duration::from_secs(120))).ok()?;
    s.set_write_timeout(Some(Duration::from_secs(120))).ok()?;
    let mut wire = b"GET ".to_vec();
    wire.extend_from_slice(target);
    wire.extend_from_slice(b" HTTP/1.1\r\nHost: localhost\r\nConnection: close\r\n\r\n");
    s.write_all(&wire).ok()?;
    if late_ms > 0 { std::thread::sleep(Duration::from_millis(late_ms)); }
    let mut buf: Vec<u8> = vec![];
    let mut chunk = vec![0u8; if late_ms > 0 { 1500 } else { 65536 }];
    let head_end;
    loop {
        if let Some(i) = buf.windows(4).position(|w| w == b"\r\n\r\n") { head_end = i + 4; break; }
        let n = s.read(&mut chunk).ok()?;
        if n == 0 { return None; }
        buf.extend_from_slice(&chunk[..n]);
    }
    let head = String::from_utf8_lossy(&buf[..head_end]).to_string();
    let mut lines = head.split("\r\n");
    let st: u16 = lines.next()?.split(' ').nth(1)?.parse().ok()?;
    let (mut ct, mut loc, mut cl) = (String::new(), vec![], None);
    for l in lines {
        if let Some((k, v)) = l.split_once(':') {
            let v = v.trim_start();
            match k.to_ascii_lowercase().as_str() {
                "content-type" => ct = v.to_string(),
                "location" => loc = v.as_bytes().to_vec(),
                "content-length" => cl = v.parse::<usize>().ok(),
                _ => {}
            }
        }
    }
    let mut body = buf[head_end..].to_vec();
    match cl {
        Some(n) => {
            while body.len() < n {
                let k = s.read(&mut chunk).ok()?;
                if k == 0 { return None; }                 // closed before Content-Length bytes arrived
                body.extend_from_slice(&chunk[..k]);
            }
            body.truncate(n);
        }
        None => { s.read_to_end(&mut body).ok()?; }
    }
    Some((st, ct, loc, body))
}

/// set by a backend's server thread when App::run returns (it only returns on a bind error)
pub static SERVER_FAILED: std::sync::atomic::AtomicBool = std::sync::atomic::AtomicBool::new(false);

fn e2e<B: Backend>(scratch: &str, worlds_out: &str, ix: usize) {
    use std::io::Write;
    use std::sync::atomic::Ordering::SeqCst;
    let mut rng = Rng::from_env();
    // a world with the 3 MiB file (index = 1 mod 3) and a fair number of nodes
    let (mut root, mut nodes) = gen_world(&mut rng, 1);
    for _ in 0..50 {
        if nodes.len() >= 40 { break; }
        let (r, n) = gen_world(&mut rng, 1);
        root = r;
        nodes = n;
    }
    let nodes_json: Vec<Value> = nodes.iter().map(|n| json!({"p": n.p, "k": n.k, "id": n.id})).collect();
    let mut wf = std::fs::File::create(worlds_out).expect("worlds out");
    writeln!(wf, "{}", json!({"world": ix, "root": root, "nodes": nodes_json})).unwrap();
    let w = build_world(scratch, ix, root, nodes);
    let dir = leak(w.root_dir.clone());
    let mut port = 0u16;
    let mut up = false;
    'ports: for _ in 0..8 {
        // (another process may take the port between the probe and the App's bind: then App::run fails and we retry)
        port = { let l = std::net::TcpListener::bind("127.0.0.1:0").expect("bind"); l.local_addr().unwrap().port() };
        SERVER_FAILED.store(false, SeqCst);
        if !B::spawn_server(dir, port) { return; }
        for _ in 0..1200 {
            if SERVER_FAILED.load(SeqCst) { continue 'ports; }
            if std::net::TcpStream::connect(("127.0.0.1", port)).is_ok() {
                std::thread::sleep(std::time::Duration::from_millis(50));
                if SERVER_FAILED.load(SeqCst) { continue 'ports; }
                up = true;
                break 'ports;
            }
            std::thread::sleep(std::time::Duration::from_millis(100));
        }
    }
    if !up { eprintln!("staticfs e2e: the server did not come up"); std::process::exit(2); }
    let inside: Vec<&Node> = w.nodes.iter().filter(|n| is_prefix(&w.root_names, &n.p) && n.p.len() > w.root_names.len()).collect();
    // (target on the wire, reader delay)
    let mut targets: Vec<(Vec<u8>, u64)> = vec![];
    for n in &inside {
        let names = &n.p[w.root_names.len()..];
        let lib: Vec<u8> = names.iter().map(|x| x.percent_encode().into_bytes()).collect::<Vec<_>>().join(&b'/');
        let raw: Vec<u8> = names.join(&b'/');
        let big = n.id == 5007;
        targets.push(([b"/static/".to_vec(), lib.clone()].concat(), if big { 700 } else { 0 }));
        if n.k == "d" { targets.push(([b"/static/".to_vec(), lib.clone(), b"/".to_vec()].concat(), 0)); }
        targets.push(([b"/".to_vec(), raw].concat(), if big { 400 } else { 0 }));
        if big { targets.push(([b"/static/".to_vec(), lib, b"?late=1".to_vec()].concat(), 1000)); }
    }
    let top = PathBuf::from(scratch).join(format!("w{}", ix));
    let canary_abs = names_to_path(&top, &[&w.root_names[..w.root_names.len() - 1], &[b"canary.txt".to_vec()][..]].concat());
    let canary_abs = canary_abs.to_str().unwrap().as_bytes().to_vec();
    for t in ["/static/", "/static", "/", "/static/../canary.txt", "/static/%2e%2e/canary.txt", "/static/%2E%2e%2fcanary.txt", "/../canary.txt", "/..%2fcanary.txt",
              "/%2e%2e/canary.txt", "/static/..%2f..%2findex.html", "/../index.html", "/static/%252e%252e/canary.txt", "/static/%c0%ae%c0%ae/canary.txt",
              "/static/%00", "/static/z/empty.txt?x=/../../canary.txt", "/z/empty.txt?x=..", "/static/z/empty.txt/", "/static//z//one", "/static/./z/./one"] {
        targets.push((t.as_bytes().to_vec(), 0));
    }
    targets.push(([b"/".to_vec(), canary_abs.clone()].concat(), 0));
    targets.push(([b"/static/".to_vec(), canary_abs.clone()].concat(), 0));
    targets.push(([b"/static//".to_vec(), canary_abs[1..].to_vec()].concat(), 0));
    for (target, late) in targets {
        if target.iter().any(|c| *c == b' ' || *c == b'\r' || *c == b'\n' || *c == b'#') || std::str::from_utf8(&target).is_err() { continue; }
        let uri: Vec<u8> = target.split(|c| *c == b'?').next().unwrap().to_vec();
        if uri.len() != target.len() && target[..uri.len()].contains(&b'?') { continue; }
        // which route answers: `/static/*` is registered first
        let (h, route): (&str, Vec<u8>) = if uri.starts_with(b"/static/") { ("serve_dir", b"/static/*".to_vec()) } else { ("file_path", vec![]) };
        let g = match fetch(port, &target, late) {
            Some((st, ct, loc, body)) => {
                let id = match w.by_content.get(&body) {
                    Some(i) if !(body.is_empty() && st != 200) => *i,
                    Some(_) => 0,
                    None => if find(&body, FILE_MARK) || find(&body, CANARY_MARK) { -1 } else { 0 },
                };
                Got { st, id, ct, loc, canary: find(&body, CANARY_MARK), panic: false, q: target[uri.len()..].iter().skip(1).cloned().collect() }
            }
            None => Got { st: 0, id: 0, ct: String::new(), loc: vec![], canary: false, panic: true, q: vec![] },
        };
        let mut rec = record(ix, h, &route, &uri, &g, true);
        rec["late_ms"] = json!(late);
        out_line(&rec);
    }
    let _ = std::fs::remove_dir_all(top);
    std::process::exit(0);                                        // the App has no handle to stop it
}

pub static VIA_PARSER: std::sync::atomic::AtomicU64 = std::sync::atomic::AtomicU64::new(0);
pub static BY_HAND: std::sync::atomic::AtomicU64 = std::sync::atomic::AtomicU64::new(0);

/// one trace record (every field always present)
fn record(wi: usize, h: &str, route: &[u8], uri: &[u8], g: &Got, growth: bool) -> Value {
    json!({"w": wi, "h": h, "route": route, "uri": uri, "q": g.q, "st": g.st, "id": g.id, "ct": g.ct, "ctb": g.ctb(), "loc": g.loc,
           "canary": g.canary, "panic": g.panic, "growth": growth})
}

fn call<B: Backend>(b: &B, w: &World, h: &str, route: &str, uri: &str, alt: bool) -> Got {
    use std::sync::atomic::Ordering::Relaxed;
    let sent_query = std::cell::RefCell::new(Vec::<u8>::new());
    let r = std::panic::catch_unwind(std::panic::AssertUnwindSafe(|| {
        // every fourth uri travels with a query string full of dot-dot segments: it is not part of the path
        let query = if fnv64(uri.as_bytes()) % 4 == 0 { Some("next=/../../canary.txt&p=%2e%2e%2f") } else { None };
        let (req, parsed) = request_via(b, uri, query);
        if parsed { VIA_PARSER.fetch_add(1, Relaxed); *sent_query.borrow_mut() = req.query.as_bytes().to_vec(); } else { BY_HAND.fetch_add(1, Relaxed); }
        b.call(h, route, req, alt)
    }));
    let mut g = project(w, r.map_err(|_| ()));
    g.q = sent_query.into_inner();
    g
}

pub fn main_with<B: Backend>() {
    quiet_panics();
    let a: Vec<String> = std::env::args().collect();
    match a.get(1).map(|s| s.as_str()) {
        Some("replay") if a.len() >= 3 => replay::<B>(&a[2], a.get(3).and_then(|s| s.parse().ok()).unwrap_or(8)),
        Some("random") if a.len() >= 6 => random::<B>(a[2].parse().unwrap(), a[3].parse().unwrap(), &a[4], &a[5]),
        Some("rerun") if a.len() >= 4 => rerun::<B>(&a[2], &a[3]),
        Some("e2e") if a.len() >= 5 => e2e::<B>(&a[2], &a[3], a[4].parse().unwrap()),
        _ => {
            eprintln!("usage: staticfs replay <scratch> [threads] | random <worlds> <per-world> <scratch> <worlds-out> | rerun <scratch> <worlds-in>");
            std::process::exit(2)
        }
    }
}
