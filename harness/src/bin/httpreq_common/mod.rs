//! C02 conformance, shared by the sync bin (harness/src/bin/httpreq.rs) and the tokio bin
//! (harness-tokio/src/bin/httpreq.rs).  The two bins differ only in the `Parser` they pass in:
//! a scripted `Read` / `AsyncRead` that hands the bytes out according to a read plan.
//!
//!   httpreq replay            stdin: {"b": pct, "peer": {"ip": pct, "port": n}, "exp": {..}} per line (from TLC,
//!                             Gen_HttpReq_*.cfg).  Every request is parsed under all read plans, compared
//!                             field by field with `exp` (the spec's Norm / Denote), serialised with
//!                             Vec<u8>::from(Request), parsed again and compared again.  One summary line.
//!   httpreq random <n> <max>  Rust-side generator for what TLC should not enumerate (bodies up to <max>
//!                             bytes, 0..40 fields, long values).  One ndjson record per request for
//!                             Trace_HttpReq.tla: the head as symbols, the body as [len, hash], what the
//!                             real parser returned and what came back after serialise + parse.
//!
//! Nothing in here decides what a request *means*: expected values come from TLC (replay) or are computed by
//! TLC from the logged head (random).  The harness only projects a `Request` onto the observables the
//! property names (`Obs`) and compares byte strings.
use super::hutil::{fnv64, out_line, stdin_lines, Rng};
use humphrey::http::headers::HeaderType;
use humphrey::http::Request;
use serde_json::{json, Value};
use std::collections::BTreeMap;
use std::net::{IpAddr, Ipv4Addr, Ipv6Addr, SocketAddr};
use std::sync::atomic::{AtomicU64, Ordering};
use std::sync::Mutex;

/// A read plan: the i-th element is the size of the i-th segment; a read never crosses a segment boundary.
/// `pending`: (tokio only) the reader answers Poll::Pending once before every segment.
#[derive(Clone, Debug)]
#[allow(dead_code)]
pub struct Plan {
    pub name: String,
    pub chunks: Vec<usize>,
    pub pending: bool,
}

// ------------------------------------------------------------------------------------------------
// watchdog: a parser that never returns (a read loop that ignores end-of-stream, a future that is never woken)
// must end as a reported mismatch, not as a timeout of the tooling.  One tick per parse; when no parse completes
// for HANG_SECS the process prints a final line carrying "hang" and exits.
// ------------------------------------------------------------------------------------------------
static TICK: AtomicU64 = AtomicU64::new(0);
static DONE: AtomicU64 = AtomicU64::new(0);
static CURRENT: Mutex<String> = Mutex::new(String::new());
static CURRENT_VECTOR: Mutex<String> = Mutex::new(String::new());      // replay mode: the input line being worked on
const HANG_SECS: u64 = 60;

fn start_watchdog(runtime: &'static str, mode: &'static str) {
    std::thread::spawn(move || {
        let (mut last, mut still) = (u64::MAX, 0u64);
        loop {
            std::thread::sleep(std::time::Duration::from_secs(1));
            let t = TICK.load(Ordering::SeqCst);
            if t == last && t > DONE.load(Ordering::SeqCst) { still += 1 } else { still = 0; last = t; }
            if still >= HANG_SECS {
                let cur = CURRENT.lock().map(|g| g.clone()).unwrap_or_default();
                let vector: Value = CURRENT_VECTOR.lock().ok().and_then(|g| serde_json::from_str(&g).ok()).unwrap_or(Value::Null);
                out_line(&json!({"summary": mode == "replay", "hang": format!("{} parser did not return within {} s on: {}", runtime, HANG_SECS, cur),
                                 "runtime": runtime, "vector": vector}));
                std::process::exit(0);
            }
        }
    });
}

fn set_current(what: String) {
    if let Ok(mut g) = CURRENT.lock() { *g = what; }
}

/// every call of the parser goes through here
fn run_parse(parser: &dyn Parser, data: &[u8], plan: &Plan, peer: SocketAddr) -> (Result<Request, String>, usize) {
    TICK.fetch_add(1, Ordering::SeqCst);
    let r = parser.parse(data, plan, peer);
    DONE.store(TICK.load(Ordering::SeqCst), Ordering::SeqCst);
    r
}

pub trait Parser {
    /// Parse one request from `data` delivered according to `plan`. Returns the result (panics and errors as
    /// text) and the number of bytes the reader handed out.
    fn parse(&self, data: &[u8], plan: &Plan, peer: SocketAddr) -> (Result<Request, String>, usize);
    fn runtime(&self) -> &'static str;
}

// ------------------------------------------------------------------------------------------------
// symbols <-> bytes (the only concrete/abstract mapping: see HttpReqSyntax.tla)
// ------------------------------------------------------------------------------------------------
fn plain_sym(b: u8) -> bool {
    (0x20..=0x7e).contains(&b) && b != b'%' && b != b'"' && b != b'\\'
}

pub fn pct_decode(s: &str) -> Vec<u8> {
    let b = s.as_bytes();
    let mut out = Vec::with_capacity(b.len());
    let mut i = 0;
    while i < b.len() {
        if b[i] == b'%' {
            let h = std::str::from_utf8(&b[i + 1..i + 3]).expect("pct");
            out.push(u8::from_str_radix(h, 16).expect("pct hex"));
            i += 3;
        } else {
            out.push(b[i]);
            i += 1;
        }
    }
    out
}

pub fn syms(data: &[u8]) -> Value {
    Value::Array(
        data.iter()
            .map(|&b| if plain_sym(b) { Value::String((b as char).to_string()) } else { Value::String(format!("%{:02X}", b)) })
            .collect(),
    )
}

fn show(data: &[u8]) -> String {
    let mut s = String::new();
    for &b in data {
        match b {
            b'\r' => s.push_str("\\r"),
            b'\n' => s.push_str("\\n"),
            b'\t' => s.push_str("\\t"),
            0x20..=0x7e if b != b'\\' => s.push(b as char),
            _ => s.push_str(&format!("\\x{:02x}", b)),
        }
    }
    s
}

// ------------------------------------------------------------------------------------------------
// observables of a request
// ------------------------------------------------------------------------------------------------
#[derive(Clone, Debug, PartialEq, Default)]
pub struct Obs {
    pub m: Vec<u8>,
    pub p: Vec<u8>,
    pub q: Vec<u8>,
    pub v: Vec<u8>,
    /// lower-case field name -> values in order of appearance
    pub h: BTreeMap<Vec<u8>, Vec<Vec<u8>>>,
    pub nh: usize,
    pub has_body: bool,
    pub body: Vec<u8>,
    pub origin: String,
    pub proxies: Vec<String>,
    pub port: u16,
    pub cookies: Vec<(Vec<u8>, Vec<u8>)>,
    /// looking a name up through the string API in another case (`get("HOST")`, `get_all("HOST")`) finds the same values
    pub lookup_ok: bool,
    /// beyond the statement (reported as drift only): `get(name)` is the FIRST value of that name and `get_cookie(name)`
    /// the first cookie of that name
    pub lookup_first: bool,
}

pub fn observe(r: &Request) -> Obs {
    let mut h: BTreeMap<Vec<u8>, Vec<Vec<u8>>> = BTreeMap::new();
    // Headers has no order-preserving iterator; get_all(name) is the public way to see the values of one
    // name in order, which is exactly what the property speaks about.
    let names: Vec<HeaderType> = r.headers.iter().map(|x| x.name).collect();
    for n in names {
        let key = n.to_string().to_ascii_lowercase().into_bytes();
        if !h.contains_key(&key) {
            let vals = r.headers.get_all(&n).into_iter().map(|s| s.as_bytes().to_vec()).collect();
            h.insert(key, vals);
        }
    }
    let mut lookup_ok = true;
    let mut lookup_first = true;
    for (k, vals) in &h {
        // lower, UPPER and aLtErNaTiNg spelling of every name through the string API
        let lower = String::from_utf8_lossy(k).into_owned();
        let upper = lower.to_ascii_uppercase();
        let mixed: String = lower.chars().enumerate().map(|(i, c)| if i % 2 == 1 { c.to_ascii_uppercase() } else { c }).collect();
        for spelling in [&lower, &upper, &mixed] {
            let all: Vec<Vec<u8>> = r.headers.get_all(spelling.as_str()).into_iter().map(|s| s.as_bytes().to_vec()).collect();
            let one = r.headers.get(spelling.as_str()).map(|s| s.as_bytes().to_vec());
            // names are matched case-insensitively: every spelling sees the same values in order, and `get` one of them
            if &all != vals || !one.as_ref().map_or(false, |o| vals.contains(o)) { lookup_ok = false; }
            if one.as_ref() != vals.first() { lookup_first = false; }
        }
    }
    // get_cookie(name) is the first cookie of that name
    let cookies = r.get_cookies();
    for c in &cookies {
        let first = cookies.iter().find(|x| x.name == c.name);
        if r.get_cookie(&c.name).as_ref() != first { lookup_first = false; }
    }
    Obs {
        lookup_ok,
        lookup_first,
        m: r.method.to_string().into_bytes(),
        p: r.uri.clone().into_bytes(),
        q: r.query.clone().into_bytes(),
        v: r.version.clone().into_bytes(),
        h,
        nh: r.headers.len(),
        has_body: r.content.is_some(),
        body: r.content.clone().unwrap_or_default(),
        origin: r.address.origin_addr.to_string(),
        proxies: r.address.proxies.iter().map(|a| a.to_string()).collect(),
        port: r.address.port,
        cookies: r.get_cookies().into_iter().map(|c| (c.name.into_bytes(), c.value.into_bytes())).collect(),
    }
}

/// Names of the observables on which two observations differ - request equality of C02 (DESIGN 5a):
/// `has_body` (None vs Some(empty)) is not part of it.
pub fn diff(a: &Obs, b: &Obs) -> Vec<&'static str> {
    let mut d = vec![];
    if a.m != b.m { d.push("method"); }
    if a.p != b.p { d.push("path"); }
    if a.q != b.q { d.push("query"); }
    if a.v != b.v { d.push("version"); }
    if a.nh != b.nh || a.h != b.h { d.push("headers"); }
    if a.body != b.body { d.push("body"); }
    if a.origin != b.origin { d.push("origin"); }
    if a.proxies != b.proxies { d.push("proxies"); }
    if a.port != b.port { d.push("port"); }
    if a.cookies != b.cookies { d.push("cookies"); }
    if a.lookup_ok != b.lookup_ok { d.push("case-insensitive-lookup"); }
    if a.lookup_first != b.lookup_first { d.push("lookup-first"); }
    d
}

/// Splits the differing observables into those the property demands (gating) and those that are lenient for this
/// request or go beyond the statement (drift) - see HttpReqSyntax.tla, Lenient.  `lenient` comes from TLC with the vector.
fn split_diff(d: Vec<&'static str>, lenient: &[String]) -> (Vec<&'static str>, Vec<&'static str>) {
    let has = |x: &str| lenient.iter().any(|l| l == x);
    d.into_iter().partition(|f| match *f {
        "path" | "query" => !has("target"),
        "cookies" => !has("cookies"),
        "origin" | "proxies" => !has("addr"),
        "lookup-first" | "bytes-consumed" => false,
        _ => true,
    })
}

fn obs_json_text(o: &Obs) -> Value {
    json!({
        "method": show(&o.m), "path": show(&o.p), "query": show(&o.q), "version": show(&o.v),
        "headers": o.h.iter().map(|(k, v)| json!([show(k), v.iter().map(|x| show(x)).collect::<Vec<_>>()])).collect::<Vec<_>>(),
        "nh": o.nh, "has_body": o.has_body, "body": show(&o.body[..o.body.len().min(64)]), "body_len": o.body.len(),
        "origin": o.origin, "proxies": o.proxies, "port": o.port,
        "cookies": o.cookies.iter().map(|(a, b)| json!([show(a), show(b)])).collect::<Vec<_>>(),
    })
}

fn exp_from_json(e: &Value) -> Obs {
    let s = |k: &str| pct_decode(e[k].as_str().expect(k));
    let mut h: BTreeMap<Vec<u8>, Vec<Vec<u8>>> = BTreeMap::new();
    let hs = e["h"].as_array().expect("h");
    for pair in hs {
        let n = pct_decode(pair[0].as_str().unwrap());
        let v = pct_decode(pair[1].as_str().unwrap());
        h.entry(n).or_default().push(v);
    }
    Obs {
        lookup_ok: true,
        lookup_first: true,
        m: s("m"), p: s("p"), q: s("q"), v: s("v"),
        nh: hs.len(), h,
        has_body: e["hasBody"].as_bool().expect("hasBody"),
        body: s("body"),
        origin: String::from_utf8(s("origin")).unwrap(),
        proxies: e["proxies"].as_array().unwrap().iter().map(|x| String::from_utf8(pct_decode(x.as_str().unwrap())).unwrap()).collect(),
        port: e["port"].as_u64().unwrap() as u16,
        cookies: e["cookies"].as_array().unwrap().iter()
            .map(|p| (pct_decode(p[0].as_str().unwrap()), pct_decode(p[1].as_str().unwrap()))).collect(),
    }
}

// ------------------------------------------------------------------------------------------------
// read plans
// ------------------------------------------------------------------------------------------------
fn fixed(len: usize, k: usize) -> Vec<usize> {
    let mut v = vec![k; len / k];
    if len % k != 0 { v.push(len % k); }
    v
}

fn random_chunks(rng: &mut Rng, len: usize, max: usize) -> Vec<usize> {
    let mut v = vec![];
    let mut left = len;
    while left > 0 {
        let n = rng.range(1, max.min(left));
        v.push(n);
        left -= n;
    }
    v
}

pub fn plans_for(len: usize, rng: &mut Rng, nrandom: usize, every_split: bool) -> Vec<Plan> {
    let mut ps = vec![
        Plan { name: "all-at-once".into(), chunks: vec![len], pending: false },
        Plan { name: "one-byte-per-read".into(), chunks: vec![1; len], pending: false },
    ];
    if len <= 2000 { ps.push(Plan { name: "one-byte-per-read+pending".into(), chunks: vec![1; len], pending: true }); }
    if every_split {
        // every single split point; on long messages (scale family) every step-th one plus all of the last 80 bytes
        let step = if len <= 400 { 1 } else { len / 200 };
        for k in 1..len {
            if step == 1 || k % step == 0 || k + 80 >= len {
                ps.push(Plan { name: format!("split@{}", k), chunks: vec![k, len - k], pending: k % 2 == 0 });
            }
        }
    }
    for k in [2usize, 3, 7] {
        if len > k { ps.push(Plan { name: format!("fixed-{}", k), chunks: fixed(len, k), pending: false }); }
    }
    for i in 0..nrandom {
        let max = *rng.pick(&[2usize, 5, 16, 64]);
        ps.push(Plan { name: format!("random-{}", i), chunks: random_chunks(rng, len, max), pending: rng.chance(1, 2) });
    }
    ps
}

fn peer_addr(ip: &str, port: u16) -> SocketAddr {
    SocketAddr::new(ip.parse::<IpAddr>().expect("peer ip"), port)
}

// ------------------------------------------------------------------------------------------------
// replay of TLC vectors
// ------------------------------------------------------------------------------------------------
pub fn replay(parser: &dyn Parser) {
    let mut rng = Rng::from_env();
    let (mut cases, mut parses, mut mism, mut nontrivial, mut trailing_cases, mut roundtrips) = (0u64, 0u64, 0u64, 0u64, 0u64, 0u64);
    let mut first: Vec<Value> = vec![];
    let mut samples: Vec<Value> = vec![];
    let mut trailing_example = Value::Null;
    let mut plans_max = 0usize;
    let mut rich_samples = 0;
    let mut drifts = 0u64;
    let mut drift_first: Vec<Value> = vec![];
    let mut lenient_cases = 0u64;
    for line in stdin_lines() {
        let v: Value = match serde_json::from_str(&line) { Ok(v) => v, Err(_) => continue };
        if let Ok(mut g) = CURRENT_VECTOR.lock() { *g = line.clone(); }
        let wire = pct_decode(v["b"].as_str().expect("b"));
        let peer = peer_addr(std::str::from_utf8(&pct_decode(v["peer"]["ip"].as_str().unwrap())).unwrap(), v["peer"]["port"].as_u64().unwrap() as u16);
        let exp = exp_from_json(&v["exp"]);
        let used = v["exp"]["used"].as_u64().unwrap() as usize;
        let lenient: Vec<String> = v["exp"]["lenient"].as_array().map(|a| a.iter().filter_map(|x| x.as_str().map(|s| s.to_string())).collect()).unwrap_or_default();
        let may_reject = lenient.iter().any(|l| l == "target" || l == "addr");
        cases += 1;
        if !lenient.is_empty() { lenient_cases += 1; }
        set_current(format!("{} (peer {})", show(&wire[..wire.len().min(400)]), peer));
        let mut case_bad = false;
        // at most two reports per case and 40 per run (the counters still see every mismatch)
        let reported = std::cell::Cell::new(0u32);
        let report = |first: &mut Vec<Value>, what: &str, plan: &str, fields: Vec<&str>, got: Value| {
            reported.set(reported.get() + 1);
            if first.len() < 40 && reported.get() <= 2 {
                first.push(json!({"runtime": parser.runtime(), "what": what, "plan": plan, "differs": fields, "wire": show(&wire),
                                  "b": v["b"], "peer": v["peer"], "expected": v["exp"], "got": got}));
            }
        };
        // rule for "non-trivial": the request exercises at least one of the things the test-suite does not -
        // a repeated field name, a Cookie field, an X-Forwarded-For list, a body, a query
        if exp.h.values().any(|l| l.len() > 1) || exp.h.contains_key(&b"cookie"[..]) || exp.h.contains_key(&b"x-forwarded-for"[..])
            || !exp.body.is_empty() || !exp.q.is_empty() { nontrivial += 1; }
        let plans = plans_for(wire.len(), &mut rng, 6, true);
        plans_max = plans_max.max(plans.len());
        let mut parsed_once: Option<Request> = None;
        for pl in &plans {
            parses += 1;
            let (res, handed) = run_parse(parser, &wire, pl, peer);
            match res {
                Ok(req) => {
                    let got = observe(&req);
                    let mut d = diff(&exp, &got);
                    // with one byte per read nothing can be buffered ahead: the parser must have asked for exactly the request
                    if pl.name == "one-byte-per-read" && handed != used { d.push("bytes-consumed"); }
                    let (d, soft) = split_diff(d, &lenient);
                    if !soft.is_empty() { drifts += 1; if drift_first.len() < 10 { drift_first.push(json!({"runtime": parser.runtime(), "what": "differs from the specification in a lenient observable", "plan": pl.name, "differs": soft, "wire": show(&wire), "lenient": lenient, "got": obs_json_text(&got)})); } }
                    if !d.is_empty() { mism += 1; case_bad = true; report(&mut first, "parse differs from the denotation", &pl.name, d, obs_json_text(&got)); }
                    if parsed_once.is_none() { parsed_once = Some(req); }
                }
                Err(e) if may_reject => { drifts += 1; if drift_first.len() < 10 { drift_first.push(json!({"runtime": parser.runtime(), "what": "request outside the property's grammar was rejected", "plan": pl.name, "differs": ["result"], "wire": show(&wire), "lenient": lenient, "got": e})); } }
                Err(e) => { mism += 1; case_bad = true; report(&mut first, "parse failed on a well-formed request", &pl.name, vec!["result"], json!(e)); }
            }
        }
        // round trip: serialise what was parsed, parse again, compare with the spec's value (and so with the first parse)
        if let Some(req) = parsed_once {
            let first_obs = observe(&req);
            let bytes: Vec<u8> = req.into();
            roundtrips += 1;
            for pl in plans_for(bytes.len(), &mut rng, 2, false) {
                parses += 1;
                let (res, handed) = run_parse(parser, &bytes, &pl, peer);
                match res {
                    Ok(r2) => {
                        let got2 = observe(&r2);
                        let mut d = diff(&exp, &got2);
                        for x in diff(&first_obs, &got2) { if !d.contains(&x) { d.push(x); } }
                        let (d, soft) = split_diff(d, &lenient);
                        if !soft.is_empty() { drifts += 1; if drift_first.len() < 10 { drift_first.push(json!({"runtime": parser.runtime(), "what": "round trip differs in a lenient observable", "plan": pl.name, "differs": soft, "wire": show(&wire), "lenient": lenient, "got": obs_json_text(&got2)})); } }
                        if !d.is_empty() { mism += 1; case_bad = true; report(&mut first, "serialise + parse is not the same request", &pl.name, d, json!({"serialised": show(&bytes), "reparsed": obs_json_text(&got2)})); }
                        if pl.name == "one-byte-per-read" && handed < bytes.len() {
                            trailing_cases += 1;
                            if trailing_example.is_null() {
                                trailing_example = json!({"serialised": show(&bytes), "unread": show(&bytes[handed..]), "fields": first_obs.nh});
                            }
                        }
                    }
                    Err(e) => { mism += 1; case_bad = true; report(&mut first, "serialised request does not parse", &pl.name, vec!["result"], json!({"serialised": show(&bytes), "error": e})); }
                }
            }
        }
        // samples for the evidence: a few requests that carry a forwarded-for list together with cookies or a body, then any
        let rich = exp.h.contains_key(&b"x-forwarded-for"[..]) && (!exp.cookies.is_empty() || !exp.body.is_empty());
        if !case_bad && ((rich && rich_samples < 3 && cases % 7 == 0) || (samples.len() < 5 && cases % 397 == 3)) {
            if rich { rich_samples += 1; }
            samples.push(json!({"runtime": parser.runtime(), "wire": show(&wire), "peer": v["peer"], "expected": v["exp"], "plans": plans.len()}));
        }
    }
    out_line(&json!({"summary": true, "runtime": parser.runtime(), "cases": cases, "parses": parses, "roundtrips": roundtrips,
        "nontrivial": nontrivial, "mismatches": mism, "first": first, "samples": samples, "plans_max": plans_max,
        "trailing_cases": trailing_cases, "trailing_example": trailing_example,
        "lenient_cases": lenient_cases, "drifts": drifts, "drift_first": drift_first}));
}

// ------------------------------------------------------------------------------------------------
// random generator (code -> spec direction)
// ------------------------------------------------------------------------------------------------
const KNOWN: &[&str] = &["Host", "Accept", "Accept-Encoding", "Accept-Language", "User-Agent", "Referer", "Connection", "Cache-Control",
    "Content-Type", "Authorization", "Origin", "Via", "Pragma", "Upgrade", "Date", "ETag", "Link", "Age", "Allow", "Server", "Expect", "From",
    "Warning", "Forwarded", "Location", "Content-Encoding", "Access-Control-Request-Method"];
// names Humphrey's table does not know today - made-up ones and the registered request fields a later version of
// the table might learn (a name added to the parser's table but not to the serialiser's loses its spelling on relay)
const CUSTOM: &[&str] = &["X-A", "X-B", "x-dup", "X-Request-Id", "x_under", "X.Dot", "Sec-Fetch-Mode", "DNT", "X~T!#$&'*+^`|",
    "If-Match", "If-None-Match", "If-Modified-Since", "If-Unmodified-Since", "If-Range", "Range", "TE", "Trailer", "Max-Forwards",
    "Proxy-Authorization", "Keep-Alive", "Priority", "Early-Data", "Content-Range", "Content-Location", "Content-Language",
    "Content-Disposition", "Content-MD5", "Upgrade-Insecure-Requests", "Save-Data", "Sec-CH-UA", "Sec-Fetch-Site", "Sec-Fetch-Dest",
    "Sec-Fetch-User", "Sec-GPC", "Sec-WebSocket-Key", "Sec-WebSocket-Version", "Sec-WebSocket-Protocol", "Sec-WebSocket-Extensions",
    "Want-Digest", "Digest", "Prefer", "A-IM", "Alt-Used", "X-Requested-With", "X-Forwarded-Host", "X-Forwarded-Proto", "X-Real-IP",
    "X-CSRF-Token", "Idempotency-Key", "Traceparent", "Tracestate", "Baggage", "CDN-Loop", "Accept-Charset", "Accept-Datetime",
    "Access-Control-Request-Headers", "HTTP2-Settings", "Proxy-Connection", "Depth", "Destination", "Overwrite", "If", "Lock-Token",
    "SOAPAction", "Last-Event-ID", "Ping-From", "Ping-To", "Service-Worker", "Device-Memory", "Downlink", "ECT", "RTT", "Viewport-Width"];
// one representative per Unicode class (Rust's char predicates, case mappings and trim are Unicode-aware)
/// non-ASCII White_Space: NBSP, NEL (a C1 control), OGHAM SPACE MARK, LINE SEPARATOR, IDEOGRAPHIC SPACE
const WS_UNI: &[&str] = &["\u{a0}", "\u{85}", "\u{1680}", "\u{2028}", "\u{3000}"];
/// letters, non-ASCII digits (Arabic-Indic, fullwidth, mathematical), other numerics, length-changing case mappings,
/// a combining mark, C1 controls, private use (DEL is no field-vchar: not generated)
const NONWS_UNI: &[&str] = &["é", "日", "😀", "ß", "İ", "ﬁ", "\u{663}", "\u{ff11}", "\u{1d7d9}", "²", "½", "Ⅷ", "e\u{301}",
    "\u{80}", "\u{9f}", "\u{e000}"];

fn uni_any<'a>(rng: &mut Rng) -> &'a str {
    if rng.chance(1, 3) { *rng.pick(WS_UNI) } else { *rng.pick(NONWS_UNI) }
}

fn mutate_case(rng: &mut Rng, s: &str) -> String {
    match rng.below(4) {
        0 => s.to_string(),
        1 => s.to_ascii_lowercase(),
        2 => s.to_ascii_uppercase(),
        _ => s.chars().map(|c| if rng.chance(1, 2) { c.to_ascii_uppercase() } else { c.to_ascii_lowercase() }).collect(),
    }
}

/// A field value: printable ASCII with delimiters, inner blanks and Unicode classes in the middle; with some
/// probability a Unicode class (white space included) at the very start and a non-white-space one at the very end.
/// Never leading SP/HTAB (not part of a value) and never trailing white space of any kind (outside the property).
fn rand_value(rng: &mut Rng, len: usize) -> Vec<u8> {
    let mut v = String::new();
    while v.len() < len {
        match rng.below(20) {
            0 => v.push_str(uni_any(rng)),
            1 => v.push(' '),
            2 => v.push('\t'),
            3 => v.push(*rng.pick(&[':', ',', ';', '=', '?', '%', '"', '\\'])),
            _ => v.push(rng.range(0x21, 0x7e) as u8 as char),
        }
    }
    let mut v = v.trim_start_matches(|c| c == ' ' || c == '\t').trim_end().to_string();
    if rng.chance(1, 6) { v.insert_str(0, uni_any(rng)); }
    if rng.chance(1, 6) { v.push_str(*rng.pick(NONWS_UNI)); }
    v.trim_end().to_string().into_bytes()
}

/// token over `alphabet`, now and then with a Unicode class at the start / inside / at the end (white space only inside)
fn rand_uni_token(rng: &mut Rng, alphabet: &[u8], lo: usize, hi: usize) -> Vec<u8> {
    let mut t = rand_token(rng, alphabet, lo, hi);
    if rng.chance(1, 8) { let mut x = rng.pick(NONWS_UNI).as_bytes().to_vec(); x.extend(&t); t = x; }
    if rng.chance(1, 8) && t.is_ascii() && t.len() >= 2 { let at = rng.range(1, t.len() - 1); let u = uni_any(rng); t.splice(at..at, u.bytes()); }
    if rng.chance(1, 8) { t.extend(rng.pick(NONWS_UNI).as_bytes()); }
    t
}

fn rand_token(rng: &mut Rng, alphabet: &[u8], lo: usize, hi: usize) -> Vec<u8> {
    (0..rng.range(lo, hi)).map(|_| *rng.pick(alphabet)).collect()
}

fn rand_ip(rng: &mut Rng) -> String {
    if rng.chance(2, 3) {
        Ipv4Addr::new(rng.byte(), rng.byte(), rng.byte(), rng.byte()).to_string()
    } else {
        let mut seg = [0u16; 8];
        // half of them with groups that read as decimal numbers (1, 2, 80, 443, 8080, 1234): after a "::" such an address ends in
        // what looks like ":port" ("2001:db8::1:1", "fe80::1:2", "2001:db8::5:8080") - added after a seeded "address:port" reading
        // of list entries cut the last group off
        let decimal_like = rng.chance(1, 2);
        for s in seg.iter_mut() {
            *s = if rng.chance(1, 3) { 0 }
                 else if decimal_like { *rng.pick(&[1u16, 1, 2, 5, 0x80, 0x443, 0x8080, 0x1234, 0x9999]) }
                 else { (rng.next_u64() & 0xffff) as u16 };
        }
        if seg[0] == 0 { seg[0] = 0x2001; } // keeps clear of the ::ffff:a.b.c.d display form
        Ipv6Addr::new(seg[0], seg[1], seg[2], seg[3], seg[4], seg[5], seg[6], seg[7]).to_string()
    }
}

fn ows(rng: &mut Rng) -> &'static str {
    *rng.pick(&["", " ", " ", " ", "  ", "\t", " \t"])
}

struct Generated {
    head: Vec<u8>,
    body: Vec<u8>,
    peer: SocketAddr,
}

fn generate(rng: &mut Rng, max_body: usize) -> Generated {
    const PATHC: &[u8] = b"abcdefghijklmnopqrstuvwxyzABCDEFGHIJKLMNOPQRSTUVWXYZ0123456789-._~:@=;,+!$&'()*";
    let method = *rng.pick(&["GET", "POST", "PUT", "DELETE", "OPTIONS"]);
    let mut target: Vec<u8> = vec![];
    // one target in six is plain ASCII (so that it is within the property's grammar and its path / query gate) and carries a
    // URL, scheme and all, inside its path or its query: origin-form all the same (RFC 7230 5.3.1).  Added after a seeded
    // absolute-form detection by "://" anywhere in the target was missed (round 8).
    let embed = rng.chance(1, 6);
    if embed {
        let scheme = *rng.pick(&["http://", "https://", "ws://", "x://"]);
        let inner = format!("{}{}{}", scheme, rng.pick(&["example.com", "127.0.0.1:8080", "h"]), rng.pick(&["", "/", "/cb", "/page/x.html"]));
        let t = match rng.below(4) {
            0 => format!("/login?next={}", inner),
            1 => format!("/web/2020/{}?x=1", inner),
            2 => format!("/fetch/{}", inner),
            _ => format!("/a?u={}&v={}", inner, inner),
        };
        target.extend(t.as_bytes());
    }
    for _ in 0..(if embed { 0 } else { rng.range(1, 5) }) {
        target.push(b'/');
        for _ in 0..rng.range(0, 12) {
            match rng.below(12) {
                0 => target.extend(format!("%{:02X}", rng.byte()).as_bytes()),
                1 => target.extend(uni_any(rng).as_bytes()),
                _ => target.push(*rng.pick(PATHC)),
            }
        }
    }
    if !embed && rng.chance(1, 8) { target.extend(uni_any(rng).as_bytes()); }          // a Unicode class as the last thing in the path
    if !embed && rng.chance(1, 2) {
        target.push(b'?');
        for _ in 0..rng.range(0, 24) {
            match rng.below(10) {
                0 => target.extend(format!("%{:02x}", rng.byte()).as_bytes()),
                1 => target.push(*rng.pick(&[b'?', b'&', b'=', b'/', b'#'])),
                2 => target.extend(uni_any(rng).as_bytes()),
                _ => target.push(*rng.pick(PATHC)),
            }
        }
        if rng.chance(1, 8) { target.extend(uni_any(rng).as_bytes()); }      // ... and in the query, right before " HTTP/1.x"
    }
    let version = *rng.pick(&["HTTP/1.1", "HTTP/1.0"]);

    // field lines
    // 0..300 fields; the counts around 20 and 32 (where Rust's sorts stop using insertion sort) come up often
    let nfields = match rng.below(6) {
        0 => rng.range(0, 3),
        1 => rng.range(4, 18),
        2 => *rng.pick(&[19usize, 20, 21, 22, 31, 32, 33, 34, 64, 100]),
        // ... and the round numbers at which a parser might stop storing fields (100, 128, 256)
        3 => *rng.pick(&[19usize, 20, 21, 32, 33, 99, 100, 101, 127, 128, 129, 255, 256, 257, 300]),
        _ => rng.range(21, 100),
    };
    let dup_pool: Vec<&str> = (0..rng.range(1, 4)).map(|_| if rng.chance(1, 2) { *rng.pick(KNOWN) } else { *rng.pick(CUSTOM) }).collect();
    let mut lines: Vec<Vec<u8>> = vec![];
    for i in 0..nfields {
        let name = if rng.chance(1, 2) { *rng.pick(&dup_pool) } else if rng.chance(1, 2) { *rng.pick(KNOWN) } else { *rng.pick(CUSTOM) };
        let vlen = if rng.chance(1, 40) { rng.range(200, 4000) } else { rng.range(0, 30) };
        let mut value = rand_value(rng, vlen);
        if rng.chance(1, 3) { let mut t = format!("{}-", i).into_bytes(); t.extend(value); value = t; } // make repeated names distinguishable
        let mut l = mutate_case(rng, name).into_bytes();
        l.push(b':');
        l.extend(ows(rng).as_bytes());
        l.extend(value);
        lines.push(l);
    }
    // one name 2..10 times among the others, in every spelling, values numbered in order of appearance
    if nfields >= 4 {
        for j in 0..rng.range(2, 10) {
            let mut l = mutate_case(rng, "X-Same").into_bytes();
            l.push(b':');
            l.extend(ows(rng).as_bytes());
            l.extend(format!("s{}", j).as_bytes());
            let at = rng.range(0, lines.len());
            lines.insert(at, l);
        }
    }
    if rng.chance(1, 2) {
        const CK: &[u8] = b"abcdefghijklmnopqrstuvwxyzABCDEFGHIJKLMNOPQRSTUVWXYZ0123456789-._~!#$&'*+^`|";
        const CV: &[u8] = b"abcdefghijklmnopqrstuvwxyzABCDEFGHIJKLMNOPQRSTUVWXYZ0123456789-._~!#$&'()*+/:<=>?@[]^`{|}";
        let mut l = mutate_case(rng, "Cookie").into_bytes();
        l.push(b':');
        l.extend(ows(rng).as_bytes());
        // pieces: name=value, and the degenerate forms - empty piece (";;"), a lone "=", "=v", "n=", a piece without "="
        let n = rng.range(0, 8);
        for k in 0..n {
            if k > 0 { l.extend(rng.pick(&["; ", "; ", ";"]).as_bytes()); }
            match rng.below(12) {
                0 => {}
                1 => l.push(b'='),
                2 => { l.push(b'='); l.extend(rand_token(rng, CV, 1, 6)); }
                3 => { l.extend(rand_token(rng, CK, 1, 6)); }
                _ => {
                    l.extend(rand_uni_token(rng, CK, 1, 8));
                    l.push(b'=');
                    if rng.chance(4, 5) { l.extend(rand_uni_token(rng, CV, 1, 16)); }
                }
            }
        }
        while matches!(l.last(), Some(b' ') | Some(b'\t')) { l.pop(); }       // an empty last piece: the value ends with ';' 
        let at = rng.range(0, lines.len());
        lines.insert(at, l);
    }
    if rng.chance(1, 2) {
        let mut l = mutate_case(rng, "X-Forwarded-For").into_bytes();
        l.push(b':');
        l.extend(ows(rng).as_bytes());
        // 1..8 entries: addresses and things that are none (text, truncated / out-of-range / decorated addresses,
        // non-ASCII digits, empty entries from ",," or a lone ",")
        let n = rng.range(1, 8);
        for k in 0..n {
            if k > 0 { l.push(b','); l.extend(ows(rng).as_bytes()); }
            let last = k == n - 1;
            if rng.chance(1, 4) {
                let g = *rng.pick(&["unknown", "_hidden", "1.2.3", "300.1.1.1", "1.2.3.4:80", "host.example", "[::1]", "1.2.3.4.5", "::g", "", "",
                                    "\u{661}.\u{662}.\u{663}.\u{664}", "\u{ff11}.\u{ff12}.\u{ff13}.\u{ff14}", "1.2.3.\u{664}", "²001:db8::1"]);
                l.extend(g.as_bytes());
            } else {
                l.extend(rand_ip(rng).as_bytes());
            }
            if !last { l.extend(ows(rng).as_bytes()); }
        }
        while matches!(l.last(), Some(b' ') | Some(b'\t')) { l.pop(); }       // an empty last entry: the value ends with ',' 
        let at = rng.range(0, lines.len());
        lines.insert(at, l);
    }
    let mut body = vec![];
    if rng.chance(2, 3) {
        let len = match rng.below(8) {
            0 => 0,
            1 => rng.range(1, 16),
            2 => rng.range(100, 2000),
            3 => *rng.pick(&[255usize, 256, 257, 8190, 8191, 8192, 8193, 16384, 65535, 65536]),
            4 => max_body,
            _ => rng.range(0, max_body),
        }.min(max_body);
        body = rng.bytes(len);
        let mut l = mutate_case(rng, "Content-Length").into_bytes();
        l.push(b':');
        l.extend(ows(rng).as_bytes());
        if rng.chance(1, 10) { l.extend(rng.pick(&["0", "00", "000"]).as_bytes()); }     // 1*DIGIT: leading zeros are digits
        l.extend(len.to_string().as_bytes());
        let at = rng.range(0, lines.len());
        lines.insert(at, l);
    }
    let mut head: Vec<u8> = vec![];
    head.extend(method.as_bytes());
    head.push(b' ');
    head.extend(&target);
    head.push(b' ');
    head.extend(version.as_bytes());
    head.extend(b"\r\n");
    for l in &lines { head.extend(l); head.extend(b"\r\n"); }
    head.extend(b"\r\n");
    let port = if rng.chance(1, 3) { *rng.pick(&[1u16, 80, 255, 256, 32767, 32768, 65535]) } else { rng.range(1, 65535) as u16 };
    let peer = if rng.chance(3, 4) {
        SocketAddr::new(IpAddr::V4(Ipv4Addr::new(rng.byte(), rng.byte(), rng.byte(), rng.byte())), port)
    } else {
        SocketAddr::new(rand_ip(rng).parse().unwrap(), port)
    };
    Generated { head, body, peer }
}

fn hashed(b: &[u8]) -> Value {
    json!([b.len(), format!("{:016x}", fnv64(b))])
}

fn obs_log(o: Option<&Obs>) -> Value {
    match o {
        None => json!({"ok": false, "m": [], "p": [], "q": [], "v": [], "nh": 0, "h": [], "hasBody": false, "body": [0, ""],
                       "origin": [], "proxies": [], "port": 0, "cookies": []}),
        Some(o) => json!({"ok": true, "m": syms(&o.m), "p": syms(&o.p), "q": syms(&o.q), "v": syms(&o.v), "nh": o.nh,
            "h": o.h.iter().map(|(k, vs)| json!([syms(k), vs.iter().map(|x| syms(x)).collect::<Vec<_>>()])).collect::<Vec<_>>(),
            "hasBody": o.has_body, "body": hashed(&o.body),
            "origin": syms(o.origin.as_bytes()), "proxies": o.proxies.iter().map(|p| syms(p.as_bytes())).collect::<Vec<_>>(),
            "port": o.port, "cookies": o.cookies.iter().map(|(a, b)| json!([syms(a), syms(b)])).collect::<Vec<_>>()}),
    }
}

pub fn random(parser: &dyn Parser, n: usize, max_body: usize) {
    let mut rng = Rng::from_env();
    for _ in 0..n {
        let g = generate(&mut rng, max_body);
        set_current(format!("{} + {} body bytes (peer {})", show(&g.head[..g.head.len().min(400)]), g.body.len(), g.peer));
        let mut wire = g.head.clone();
        wire.extend(&g.body);
        let len = wire.len();
        let mut plans = vec![
            Plan { name: "all-at-once".into(), chunks: vec![len], pending: false },
            Plan { name: "random-small".into(), chunks: random_chunks(&mut rng, len, 64), pending: true },
            Plan { name: "random-large".into(), chunks: random_chunks(&mut rng, len, 9000), pending: false },
            Plan { name: "head|body".into(), chunks: if g.body.is_empty() { vec![len] } else { vec![g.head.len(), g.body.len()] }, pending: true },
            Plan { name: "head+1|rest".into(), chunks: if g.body.len() < 2 { vec![len] } else { vec![g.head.len() + 1, g.body.len() - 1] }, pending: false },
        ];
        if len <= 6000 { plans.push(Plan { name: "one-byte-per-read".into(), chunks: vec![1; len], pending: false }); }
        let mut observed: Vec<Option<Obs>> = vec![];
        let mut first_req: Option<Request> = None;
        let mut errors: Vec<String> = vec![];
        for pl in &plans {
            let (res, _) = run_parse(parser, &wire, pl, g.peer);
            match res {
                Ok(r) => { observed.push(Some(observe(&r))); if first_req.is_none() { first_req = Some(r); } }
                Err(e) => { observed.push(None); errors.push(format!("{}: {}", pl.name, e)); }
            }
        }
        // identical observations under every plan (plain structural equality, has_body included), names found in any case
        let agree = observed.iter().all(|o| o.is_some() && *o == observed[0]) && observed[0].as_ref().map_or(false, |o| o.lookup_ok);
        // the logged observation is the one from the small random chunks
        let got = observed[1].clone();
        let mut rt: Option<Obs> = None;
        let mut rt_agree = true;
        let mut ser_len = 0usize;
        if let Some(req) = first_req {
            let bytes: Vec<u8> = req.into();
            ser_len = bytes.len();
            let p1 = Plan { name: "all-at-once".into(), chunks: vec![bytes.len()], pending: false };
            let p2 = Plan { name: "random-small".into(), chunks: random_chunks(&mut rng, bytes.len(), 64), pending: true };
            let a = run_parse(parser, &bytes, &p1, g.peer).0.ok().map(|r| observe(&r));
            let b = run_parse(parser, &bytes, &p2, g.peer).0.ok().map(|r| observe(&r));
            rt_agree = a.is_some() && a == b;
            rt = a;
        }
        out_line(&json!({
            "runtime": parser.runtime(),
            "head": syms(&g.head), "body": hashed(&g.body),
            "peer": {"ip": syms(g.peer.ip().to_string().as_bytes()), "port": g.peer.port()},
            "plans": plans.len(), "agree": agree && rt_agree, "allFailed": observed.iter().all(|o| o.is_none()), "errors": errors, "serLen": ser_len,
            "got": obs_log(got.as_ref()), "rt": obs_log(rt.as_ref()),
        }));
    }
}

pub fn main_with(parser: &dyn Parser) {
    let a: Vec<String> = std::env::args().collect();
    match a.get(1).map(|s| s.as_str()) {
        Some("replay") => { start_watchdog(parser.runtime(), "replay"); replay(parser) }
        Some("random") => { start_watchdog(parser.runtime(), "random"); random(parser, a[2].parse().unwrap(), a[3].parse().unwrap()) }
        _ => { eprintln!("usage: httpreq replay | random <n> <maxbody>"); std::process::exit(2) }
    }
}
