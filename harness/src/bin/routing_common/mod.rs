//! Shared by the threaded harness (harness/src/bin/routing/main.rs) and its tokio twin
//! (harness-tokio/src/bin/routing.rs, which includes this file by path): registration-call model of an app,
//! raw TCP client, replay of TLC vectors, random apps logged for Trace_Routing.tla. The including file provides
//! `util` (hv::util / hvt::util) and an implementation of `Server` that builds and runs the REAL App.
use super::util::*;
use serde_json::{json, Value};
use std::collections::VecDeque;
use std::io::{Read, Write};
use std::net::{SocketAddr, TcpListener, TcpStream};
use std::sync::{Arc, Mutex};
use std::thread;
use std::time::Duration;

/// A real app, built from registration calls, listening on a loopback port.
pub trait Server: Sized {
    /// App::with_default_subapp and the deprecated App::with_websocket_handler exist (threaded App only).
    const FULL_API: bool;
    fn start(ops: &[Op], tag: &str) -> Result<Self, String>;
    fn port(&self) -> u16;
    /// Stops the app; false when it did not stop within 10 s.
    fn stop(self) -> bool;
}

// ------------------------------------------------------------------------------------------------
// configuration of an app as a sequence of registration calls
// ------------------------------------------------------------------------------------------------
#[derive(Clone, Debug)]
pub enum SubOp {
    Route(String),
    Ws(String),
}
#[derive(Clone, Debug)]
pub enum Op {
    Route(String),
    Ws(String),
    Host(String, Vec<SubOp>),
    /// App::with_default_subapp(SubApp::new().with_*..): replaces the default sub-app
    DefSub(Vec<SubOp>),
    /// deprecated App::with_websocket_handler(h) = with_websocket_route("*", h)
    WsAll,
}

#[derive(Clone, Debug)]
pub struct Rq {
    ws: bool,
    hostp: bool,
    host: String,
    target: String,
}

#[derive(Clone, Debug, PartialEq)]
pub enum Got {
    Hit(usize, usize),
    /// how the miss was observed ("404", "eof", "reset", "http <status>")
    Miss(String),
    Other(String),
}

fn syms(v: &Value) -> String {
    v.as_array().map(|a| a.iter().map(|s| s.as_str().unwrap_or("")).collect()).unwrap_or_default()
}
/// One symbol per character. TLC's JSON reader maps every non-ASCII character to `??`, so those are logged under
/// an ASCII name (`u00e9`): symbols are opaque to Match, only their identity matters.
fn unsyms(s: &str) -> Value {
    Value::Array(s.chars().map(|c| Value::String(if c.is_ascii() { c.to_string() } else { format!("u{:04x}", c as u32) })).collect())
}

/// Spellings of a header name (names are case-insensitive, values are not).
fn spell_name(name: &str, spell: usize) -> String {
    match spell % 4 {
        0 => name.to_string(),
        1 => name.to_ascii_lowercase(),
        2 => name.to_ascii_uppercase(),
        _ => name.chars().enumerate().map(|(i, c)| if i % 2 == 0 { c.to_ascii_lowercase() } else { c.to_ascii_uppercase() }).collect(),
    }
}

/// requests that ended in a time-out even after a retry: the run is cut short after a few of them
pub static HANGS: std::sync::atomic::AtomicUsize = std::sync::atomic::AtomicUsize::new(0);
/// WebSocket upgrades that were sent on a connection which had carried ordinary requests before
pub static WS_ON_KEPT: std::sync::atomic::AtomicUsize = std::sync::atomic::AtomicUsize::new(0);
/// upgrades on a kept connection that got no byte while the same upgrade on a fresh connection reached a handler
pub static KEPT_CLOSED: std::sync::atomic::AtomicUsize = std::sync::atomic::AtomicUsize::new(0);
const MAX_HANGS: usize = 4;
fn too_many_hangs() -> bool {
    HANGS.load(std::sync::atomic::Ordering::SeqCst) >= MAX_HANGS
}

pub fn ident(tag: &str, sub: usize, idx: usize, kind: &str) -> String {
    format!("R|{}|{}|{}|{}|E", tag, sub, idx, kind)
}

/// Registers one HTTP route on a sub-app, cycling through the three registration entry points

static PORTS_IN_USE: Mutex<Vec<u16>> = Mutex::new(Vec::new());
/// started apps whose readiness was confirmed without a monitor event
pub static NO_EVENT_STARTS: std::sync::atomic::AtomicUsize = std::sync::atomic::AtomicUsize::new(0);

/// A loopback port that is free now and that no other app of THIS process is using or about to use.
pub fn free_port() -> u16 {
    loop {
        let l = TcpListener::bind("127.0.0.1:0").expect("bind 127.0.0.1:0");
        let p = l.local_addr().unwrap().port();
        let mut used = PORTS_IN_USE.lock().unwrap();
        if !used.contains(&p) {
            used.push(p);
            return p;
        }
    }
}
pub fn release_port(p: u16) {
    PORTS_IN_USE.lock().unwrap().retain(|x| *x != p);
}

/// True when a socket of this process listens on 127.0.0.1:port (/proc/net/tcp inode found among /proc/self/fd).
/// Used to confirm that OUR app bound the port when the app does not report the probe connection through its
/// monitor (monitor events are not part of the property).
pub fn listener_is_ours(port: u16) -> bool {
    let want = format!("0100007F:{:04X}", port);
    let tcp = match std::fs::read_to_string("/proc/net/tcp") {
        Ok(t) => t,
        Err(_) => return false,
    };
    let mut inode: Option<String> = None;
    for line in tcp.lines().skip(1) {
        let f: Vec<&str> = line.split_whitespace().collect();
        if f.len() > 9 && f[1] == want && f[3] == "0A" {
            inode = Some(f[9].to_string());
            break;
        }
    }
    let inode = match inode {
        Some(i) => format!("socket:[{}]", i),
        None => return false,
    };
    if let Ok(rd) = std::fs::read_dir("/proc/self/fd") {
        for e in rd.flatten() {
            if let Ok(t) = std::fs::read_link(e.path()) {
                if t.to_string_lossy() == inode {
                    return true;
                }
            }
        }
    }
    false
}

// ------------------------------------------------------------------------------------------------
// raw TCP client
// ------------------------------------------------------------------------------------------------
struct Conn {
    s: TcpStream,
    buf: Vec<u8>,
}

fn connect(port: u16) -> Result<Conn, String> {
    let sa: SocketAddr = format!("127.0.0.1:{}", port).parse().unwrap();
    let s = TcpStream::connect_timeout(&sa, Duration::from_secs(5)).map_err(|e| format!("connect: {}", e))?;
    let _ = s.set_read_timeout(Some(Duration::from_secs(8)));
    let _ = s.set_write_timeout(Some(Duration::from_secs(8)));
    let _ = s.set_nodelay(true);
    Ok(Conn { s, buf: Vec::new() })
}

fn find(hay: &[u8], needle: &[u8]) -> Option<usize> {
    hay.windows(needle.len()).position(|w| w == needle)
}

/// Reads one response (status, body). `head_only`: stop after the header block.
fn read_response(c: &mut Conn, head_only: bool) -> Result<(u16, Vec<u8>), String> {
    let mut tmp = [0u8; 4096];
    loop {
        // a response serialised by humphrey is followed by CRLF after a non-empty body (known C01/C07 finding):
        // skip blank lines before a status line
        while c.buf.starts_with(b"\r\n") {
            c.buf.drain(0..2);
        }
        if let Some(he) = find(&c.buf, b"\r\n\r\n") {
            let head = String::from_utf8_lossy(&c.buf[..he]).to_string();
            let mut lines = head.split("\r\n");
            let status_line = lines.next().unwrap_or("");
            let status: u16 = status_line.split(' ').nth(1).and_then(|s| s.parse().ok()).ok_or(format!("bad status line {:?}", status_line))?;
            if head_only {
                return Ok((status, vec![]));
            }
            let mut cl: Option<usize> = None;
            for l in lines {
                if let Some((k, v)) = l.split_once(':') {
                    if k.trim().eq_ignore_ascii_case("content-length") {
                        cl = v.trim().parse().ok();
                    }
                }
            }
            let cl = match cl {
                Some(n) => n,
                None => {
                    // the property does not say how the answer is framed: chunked, or delimited by the close
                    let chunked = head.to_ascii_lowercase().contains("transfer-encoding: chunked");
                    let mut rest: Vec<u8> = c.buf[he + 4..].to_vec();
                    c.buf.clear();
                    if chunked {
                        loop {
                            if let Some(body) = dechunk(&rest) {
                                return Ok((status, body));
                            }
                            let n = c.s.read(&mut tmp).map_err(|e| format!("read body: {}", e))?;
                            if n == 0 {
                                return Err("eof inside chunked body".into());
                            }
                            rest.extend_from_slice(&tmp[..n]);
                        }
                    }
                    loop {
                        match c.s.read(&mut tmp) {
                            Ok(0) => break,
                            Ok(n) => rest.extend_from_slice(&tmp[..n]),
                            Err(e) => return Err(format!("read body: {}", e)),
                        }
                    }
                    while rest.ends_with(b"\r\n") {
                        rest.truncate(rest.len() - 2);
                    }
                    return Ok((status, rest));
                }
            };
            let need = he + 4 + cl;
            while c.buf.len() < need {
                let n = c.s.read(&mut tmp).map_err(|e| format!("read body: {}", e))?;
                if n == 0 {
                    return Err("eof inside body".into());
                }
                c.buf.extend_from_slice(&tmp[..n]);
            }
            let body = c.buf[he + 4..need].to_vec();
            c.buf.drain(0..need);
            return Ok((status, body));
        }
        let n = c.s.read(&mut tmp).map_err(|e| format!("read: {}", e))?;
        if n == 0 {
            return Err(format!("eof before a complete response ({} bytes)", c.buf.len()));
        }
        c.buf.extend_from_slice(&tmp[..n]);
    }
}

/// Complete chunked body, or None when more bytes are needed.
fn dechunk(b: &[u8]) -> Option<Vec<u8>> {
    let mut out = vec![];
    let mut i = 0;
    loop {
        let le = find(&b[i..], b"\r\n")?;
        let size = usize::from_str_radix(String::from_utf8_lossy(&b[i..i + le]).split(';').next()?.trim(), 16).ok()?;
        i += le + 2;
        if size == 0 {
            return Some(out);
        }
        if b.len() < i + size + 2 {
            return None;
        }
        out.extend_from_slice(&b[i..i + size]);
        i += size + 2;
    }
}

fn parse_ident(body: &[u8], tag: &str, kind: &str) -> Got {
    let s = String::from_utf8_lossy(body).to_string();
    // `R|tag|sub|idx|kind|E`; whatever follows the terminator (e.g. a Close frame written by the framework after the
    // handler returned) is not ours to judge
    let parts: Vec<&str> = s.splitn(6, '|').collect();
    if parts.len() == 6 && parts[0] == "R" && parts[5].starts_with('E') && (kind == "ws" || parts[5] == "E") {
        if parts[1] != tag {
            return Got::Other(format!("FOREIGN identity {}", s));
        }
        if parts[4] != kind {
            return Got::Other(format!("handler of the other kind answered: {}", s));
        }
        if let (Ok(a), Ok(b)) = (parts[2].parse(), parts[3].parse()) {
            return Got::Hit(a, b);
        }
    }
    Got::Other(format!("unexpected body {:?}", s.chars().take(80).collect::<String>()))
}

const OTHER_HOSTS: [&str; 3] = ["c.y", "a.x", "zz.x:8"];

/// HTTP request variants (everything the property says the choice does NOT depend on):
/// 0 GET keep-alive; 1 POST with a body, more headers, lower-case header name, keep-alive;
/// 2 GET HTTP/1.0, Connection: close on a fresh connection, no space after `Host:`;
/// 3 OPTIONS on a fresh connection (only hit/miss is observable: 204 / 404).
fn http_once(port: u16, keep: &mut Option<Conn>, rq: &Rq, variant: usize, spell: usize, tag: &str) -> Got {
    let mut req = String::new();
    let (method, version) = match variant {
        1 => ("POST", "HTTP/1.1"),
        2 => ("GET", "HTTP/1.0"),
        3 => ("OPTIONS", "HTTP/1.1"),
        _ => ("GET", "HTTP/1.1"),
    };
    req.push_str(&format!("{} {} {}\r\n", method, rq.target, version));
    if variant == 1 {
        req.push_str("Accept: */*\r\n");
        req.push_str(&format!("X-Forwarded-Host: {}\r\n", OTHER_HOSTS[rq.target.len() % 3]));
        req.push_str("Referer: http://c.y/a/b?x/b\r\n");
    }
    if rq.hostp {
        // the header NAME in every case; variant 2 leaves out the blank after the colon
        let name = spell_name("Host", spell);
        if variant == 2 {
            req.push_str(&format!("{}:{}\r\n", name, rq.host));
        } else {
            req.push_str(&format!("{}: {}\r\n", name, rq.host));
        }
    }
    if variant == 1 {
        req.push_str("X-Original-URL: /a/b\r\nUser-Agent: routing-harness\r\n");
    }
    let fresh = variant >= 2;
    if fresh {
        req.push_str(&format!("{}: close\r\n", spell_name("Connection", spell + 1)));
    } else {
        req.push_str(&format!("{}: keep-alive\r\n", spell_name("Connection", spell + 1)));
    }
    if variant == 1 {
        req.push_str(&format!("{}: 3\r\n\r\nabc", spell_name("Content-Length", spell + 2)));
    } else {
        req.push_str("\r\n");
    }
    for attempt in 0..2 {
        let mut own: Option<Conn> = None;
        let conn: &mut Option<Conn> = if fresh { &mut own } else { &mut *keep };
        if conn.is_none() {
            match connect(port) {
                Ok(c) => *conn = Some(c),
                Err(e) => return Got::Other(e),
            }
        }
        let c = conn.as_mut().unwrap();
        let r = c.s.write_all(req.as_bytes()).map_err(|e| format!("write: {}", e)).and_then(|_| read_response(c, variant == 3));
        match r {
            Ok((status, body)) => {
                if variant == 3 {
                    return match status {
                        204 => Got::Hit(usize::MAX, usize::MAX), // some handler matched (identity not observable)
                        404 => Got::Miss("404".into()),
                        s => Got::Other(format!("OPTIONS answered {}", s)),
                    };
                }
                return match status {
                    200 => parse_ident(&body, tag, "http"),
                    404 => Got::Miss("404".into()),
                    s => Got::Other(format!("status {}", s)),
                };
            }
            Err(e) => {
                *conn = None;
                // a kept connection may have been closed by the server between requests: retry once on a new one
                if attempt == 1 || fresh {
                    return Got::Other(e);
                }
            }
        }
    }
    Got::Other("unreachable".into())
}

/// WebSocket upgrade request; variant 1 adds headers; variant 2 sends the upgrade on the connection that already
/// carried ordinary keep-alive requests (when there is one). Header names are spelled per `spell`.
fn ws_once(port: u16, keep: &mut Option<Conn>, rq: &Rq, variant: usize, spell: usize, tag: &str) -> Got {
    let mut req = format!("GET {} HTTP/1.1\r\n", rq.target);
    if variant == 1 {
        req.push_str(&format!("Origin: http://{}\r\nX-Forwarded-Host: {}\r\n", OTHER_HOSTS[rq.target.len() % 3], OTHER_HOSTS[(rq.target.len() + 1) % 3]));
    }
    if rq.hostp {
        req.push_str(&format!("{}: {}\r\n", spell_name("Host", spell), rq.host));
    }
    req.push_str(&format!(
        "{}: websocket\r\n{}: Upgrade\r\nSec-WebSocket-Key: dGhlIHNhbXBsZSBub25jZQ==\r\nSec-WebSocket-Version: 13\r\n\r\n",
        spell_name("Upgrade", spell + 1),
        spell_name("Connection", spell + 2)
    ));
    let mut c = match if variant == 2 { keep.take() } else { None } {
        Some(c) => {
            WS_ON_KEPT.fetch_add(1, std::sync::atomic::Ordering::Relaxed);
            c
        }
        None => match connect(port) {
            Ok(c) => c,
            Err(e) => return Got::Other(e),
        },
    };
    if let Err(e) = c.s.write_all(req.as_bytes()) {
        return Got::Other(format!("write: {}", e));
    }
    // bytes already read on a kept connection belong to the stream too
    let mut out: Vec<u8> = std::mem::take(&mut c.buf);
    let mut tmp = [0u8; 1024];
    let mut reset = false;
    loop {
        match c.s.read(&mut tmp) {
            Ok(0) => break,
            Ok(n) => {
                out.extend_from_slice(&tmp[..n]);
                if out.len() > 4096 {
                    break;
                }
            }
            Err(e) => {
                if e.kind() == std::io::ErrorKind::ConnectionReset && out.is_empty() {
                    reset = true;
                    break; // closed without a byte
                }
                return Got::Other(format!("ws read: {} after {} bytes", e, out.len()));
            }
        }
    }
    // humphrey ends a response that has a body with an extra CRLF (open C01/C07 finding CrlfAfterBody): on a
    // connection that carried responses before, blank lines may precede whatever the upgrade produced
    while out.starts_with(b"\r\n") {
        out.drain(0..2);
    }
    if out.is_empty() {
        return Got::Miss(if reset { "reset".into() } else { "eof".into() });
    }
    if out.starts_with(b"R|") {
        return parse_ident(&out, tag, "ws");
    }
    if out.starts_with(b"HTTP/") {
        let st = String::from_utf8_lossy(&out).split(' ').nth(1).and_then(|s| s.parse::<u16>().ok());
        return match st {
            Some(101) => match find(&out, b"\r\n\r\n").map(|he| &out[he + 4..]) {
                // the upgrade answer itself may come from the framework; the handler's bytes follow it
                Some(rest) if rest.starts_with(b"R|") => parse_ident(rest, tag, "ws"),
                _ => Got::Other("upgrade (101) without handler identity".into()),
            },
            Some(st) => Got::Miss(format!("http {}", st)), // answered without an upgrade and closed
            None => Got::Other("unparsable answer".into()),
        };
    }
    Got::Other(format!("unexpected bytes {:?}", String::from_utf8_lossy(&out).chars().take(60).collect::<String>()))
}

/// One request with retries for transport trouble only (time-outs, resets under machine load): a wrong handler,
/// a wrong status or unexpected bytes are never retried.
fn ask(port: u16, keep: &mut Option<Conn>, rq: &Rq, variant: usize, spell: usize, tag: &str, flaky: &mut u64) -> Got {
    let mut got = Got::Other("unreachable".into());
    for attempt in 0..3 {
        let on_kept = rq.ws && variant % 3 == 2 && keep.is_some();
        got = if rq.ws { ws_once(port, keep, rq, variant % 3, spell, tag) } else { http_once(port, keep, rq, variant, spell, tag) };
        if on_kept {
            if let Got::Miss(how) = &got {
                if how == "eof" || how == "reset" {
                    // No byte on a connection that carried requests before: a real miss, or the server had closed the
                    // connection in the meantime (keeping it open is not part of this property). A fresh connection
                    // decides; when it reaches a handler the difference is reported as drift, never as a violation.
                    let again = ws_once(port, keep, rq, 0, spell, tag);
                    if let Got::Hit(_, _) = again {
                        KEPT_CLOSED.fetch_add(1, std::sync::atomic::Ordering::Relaxed);
                        got = again;
                    }
                }
            }
        }
        match &got {
            Got::Other(e) if e.starts_with("read") || e.starts_with("write") || e.starts_with("eof") || e.starts_with("ws read") || e.starts_with("connect") => {
                let timed_out = e.contains("timed out") || e.contains("temporarily unavailable") || e.contains("WouldBlock");
                if attempt < 2 && !(timed_out && attempt == 1) {
                    *flaky += 1;
                    *keep = None;
                    thread::sleep(Duration::from_millis(200));
                } else {
                    if timed_out {
                        HANGS.fetch_add(1, std::sync::atomic::Ordering::SeqCst);
                    }
                    break;
                }
            }
            _ => break,
        }
    }
    got
}

/// An empty request target (`GET  HTTP/1.1`) or one that starts with `?` is not a valid request line; the parser
/// accepts it today (path = ""), and then the routing rule applies - but a parser that refuses it with 400 would
/// not contradict the property. Both outcomes are accepted for exactly these targets.
fn refused_degenerate(rq: &Rq, got: &Got) -> bool {
    (rq.target.is_empty() || rq.target.starts_with('?'))
        && match got {
            Got::Other(e) => e == "status 400" || e == "OPTIONS answered 400",
            Got::Miss(how) => how == "http 400",
            _ => false,
        }
}

fn got_json(g: &Got) -> Value {
    match g {
        Got::Hit(s, j) if *s == usize::MAX => json!({"hit": true, "sub": -2, "idx": -2, "note": "OPTIONS: matched"}),
        Got::Hit(s, j) => json!({"hit": true, "sub": s, "idx": j}),
        Got::Miss(how) => json!({"hit": false, "sub": 0, "idx": 0, "note": how}),
        Got::Other(e) => json!({"hit": false, "sub": -1, "idx": -1, "note": e}),
    }
}

fn rq_json(r: &Rq) -> Value {
    json!({"kind": if r.ws { "ws" } else { "http" }, "host": if r.hostp { json!(r.host) } else { Value::Null }, "target": r.target})
}

// ------------------------------------------------------------------------------------------------
// replay of TLC vectors
// ------------------------------------------------------------------------------------------------
struct Job {
    idx: usize,
    app: Value,
    ops: Vec<Op>,
    exp: Vec<(usize, usize)>,
}

fn ops_from_app(app: &Value, order: usize, full_api: bool) -> Vec<Op> {
    let mut hosts: Vec<Op> = vec![];
    for s in app["hosts"].as_array().cloned().unwrap_or_default() {
        let http: Vec<SubOp> = s["http"].as_array().unwrap().iter().map(|p| SubOp::Route(syms(p))).collect();
        let ws: Vec<SubOp> = s["ws"].as_array().unwrap().iter().map(|p| SubOp::Ws(syms(p))).collect();
        let mut so = vec![];
        if order % 2 == 0 {
            so.extend(http);
            so.extend(ws);
        } else {
            // alternate the two kinds; the order inside each kind is the registration order
            let (mut a, mut b) = (http.into_iter(), ws.into_iter());
            loop {
                let (x, y) = (b.next(), a.next());
                if x.is_none() && y.is_none() {
                    break;
                }
                so.extend(x);
                so.extend(y);
            }
        }
        hosts.push(Op::Host(syms(&s["host"]), so));
    }
    let dh: Vec<String> = app["def"]["http"].as_array().unwrap().iter().map(syms).collect();
    let dw: Vec<String> = app["def"]["ws"].as_array().unwrap().iter().map(syms).collect();
    let mut def: Vec<Op> = vec![];
    if full_api && order % 4 == 3 {
        // App::with_default_subapp: catch-alls registered on the app BEFORE it must vanish; the first half of each
        // default list comes with the new sub-app (WebSocket routes included), the rest is appended afterwards
        def.push(Op::Route("*".into()));
        def.push(Op::Ws("*".into()));
        let (kh, kw) = ((dh.len() + 1) / 2, (dw.len() + 1) / 2);
        let mut so: Vec<SubOp> = dw[..kw].iter().map(|p| SubOp::Ws(p.clone())).collect();
        so.extend(dh[..kh].iter().map(|p| SubOp::Route(p.clone())));
        def.push(Op::DefSub(so));
        def.extend(dh[kh..].iter().map(|p| Op::Route(p.clone())));
        def.extend(dw[kw..].iter().map(|p| if p == "*" { Op::WsAll } else { Op::Ws(p.clone()) }));
    } else {
        def.extend(dh.iter().map(|p| Op::Route(p.clone())));
        // the deprecated App::with_websocket_handler is with_websocket_route("*", ..)
        def.extend(dw.iter().map(|p| if full_api && order % 2 == 1 && p == "*" { Op::WsAll } else { Op::Ws(p.clone()) }));
    }
    let mut ops = vec![];
    match if full_api && order % 4 == 3 { 1 } else { order % 3 } {
        0 => {
            ops.extend(hosts);
            ops.extend(def);
        }
        1 => {
            ops.extend(def);
            ops.extend(hosts);
        }
        _ => {
            let (mut a, mut b) = (hosts.into_iter(), def.into_iter());
            loop {
                let (x, y) = (b.next(), a.next());
                if x.is_none() && y.is_none() {
                    break;
                }
                ops.extend(x);
                ops.extend(y);
            }
        }
    }
    ops
}

fn non_ascii(s: &str) -> bool {
    !s.is_ascii()
}

/// A mismatch on an input OUTSIDE the property's quantifier (Host: absent / exact / wildcard-matching / with port /
/// non-matching; paths with and without query; patterns: literals, prefixes, suffixes, infixes, multiple and
/// adjacent `*`, overlapping and shadowing) is reported as drift of the specification, not as a violation.
fn beyond(app: &Value, rq: &Rq, variant: usize, exp: (usize, usize), got: &Got) -> Option<&'static str> {
    if !rq.ws && variant == 3 {
        return Some("OPTIONS (answered by the framework, no route handler runs)");
    }
    if rq.hostp && rq.host.is_empty() {
        return Some("Host header present with an empty value");
    }
    if rq.target.is_empty() || rq.target.starts_with('?') {
        return Some("empty path");
    }
    if non_ascii(&rq.host) || non_ascii(&rq.target) {
        return Some("non-ASCII characters in Host or request target");
    }
    let mut hs = vec![exp];
    if let Got::Hit(s, j) = got {
        if *s != usize::MAX {
            hs.push((*s, *j));
        }
    }
    let kind = if rq.ws { "ws" } else { "http" };
    for (sub, idx) in hs {
        if idx == 0 {
            continue;
        }
        let sa = if sub == 0 { &app["def"] } else { &app["hosts"][sub - 1] };
        let empty_route = sa[kind].get(idx - 1).and_then(|p| p.as_array()).map(|a| a.is_empty()).unwrap_or(false);
        let empty_host = sub != 0 && sa["host"].as_array().map(|a| a.is_empty()).unwrap_or(false);
        if empty_route || empty_host {
            return Some("the empty pattern is involved");
        }
    }
    None
}

#[derive(Default)]
struct Tally {
    apps: u64,
    requests: u64,
    evaluations: u64,
    mismatches: u64,
    tool_errors: u64,
    unstopped: u64,
    flaky: u64,
    refused_degenerate: u64,
    start_failures: u64,
    drifts: u64,
    first_drift: Vec<Value>,
    first: Vec<Value>,
    samples: Vec<Value>,
}

fn replay<S: Server>(variants_mode: &str, workers: usize) {
    let variants_mode = variants_mode.to_string();
    let mut reqs: Vec<Rq> = vec![];
    let mut jobs: VecDeque<Job> = VecDeque::new();
    for line in stdin_lines() {
        let v: Value = match serde_json::from_str(&line) {
            Ok(v) => v,
            Err(_) => continue,
        };
        if let Some(rs) = v.get("reqs").and_then(|r| r.as_array()) {
            reqs = rs
                .iter()
                .map(|r| Rq { ws: r["kind"] == "ws", hostp: r["hostp"].as_bool().unwrap(), host: syms(&r["host"]), target: syms(&r["target"]) })
                .collect();
        } else if v.get("app").is_some() {
            let idx = jobs.len();
            let exp: Vec<(usize, usize)> = v["exp"].as_array().unwrap().iter().map(|e| (e[0].as_u64().unwrap() as usize, e[1].as_u64().unwrap() as usize)).collect();
            let ops = ops_from_app(&v["app"], idx, S::FULL_API);
            jobs.push_back(Job { idx, app: v["app"].clone(), ops, exp });
        }
    }
    let reqs = Arc::new(reqs);
    let jobs = Arc::new(Mutex::new(jobs));
    let tally = Arc::new(Mutex::new(Tally::default()));
    let mut hs = vec![];
    for _w in 0..workers {
        let (reqs, jobs, tally) = (reqs.clone(), jobs.clone(), tally.clone());
        let variants_mode = variants_mode.clone();
        hs.push(thread::spawn(move || loop {
            if too_many_hangs() {
                break;
            }
            let job = match jobs.lock().unwrap().pop_front() {
                Some(j) => j,
                None => break,
            };
            let tag = format!("A{}", job.idx);
            let all_variants = variants_mode == "all" || (variants_mode == "mixed" && job.idx % 3 == 0);
            let run = match S::start(&job.ops, &tag) {
                Ok(r) => r,
                Err(_) => {
                    let mut t = tally.lock().unwrap();
                    t.tool_errors += 1;
                    t.start_failures += 1;
                    continue;
                }
            };
            let mut keep: Option<Conn> = None;
            let mut local = Tally::default();
            local.apps = 1;
            for (ri, rq) in reqs.iter().enumerate() {
                if ri >= job.exp.len() {
                    break;
                }
                local.requests += 1;
                let exp = job.exp[ri];
                if too_many_hangs() {
                    break;
                }
                let variants: Vec<usize> = if rq.ws {
                    if all_variants { vec![0, 1, 2] } else { vec![(job.idx + ri / 2) % 3] }
                } else if all_variants {
                    vec![0, 1, 2, 3]
                } else if (job.idx + ri) % 7 == 0 {
                    vec![(job.idx + ri / 2) % 3, 3]
                } else {
                    vec![(job.idx + ri / 2) % 3]
                };
                for v in variants {
                    let got = ask(run.port(), &mut keep, rq, v, job.idx + ri + v, &tag, &mut local.flaky);
                    local.evaluations += 1;
                    if refused_degenerate(rq, &got) {
                        local.refused_degenerate += 1;
                        continue;
                    }
                    let ok = match (&got, exp) {
                        (Got::Miss(_), (0, 0)) => true,
                        (Got::Hit(s, _), (_, j)) if *s == usize::MAX => j != 0,
                        (Got::Hit(s, j), (es, ej)) => ej != 0 && *s == es && *j == ej,
                        _ => false,
                    };
                    if let Got::Other(e) = &got {
                        if e.starts_with("FOREIGN") || e.starts_with("connect") {
                            local.tool_errors += 1;
                            continue;
                        }
                    }
                    if !ok {
                        if let Some(why) = beyond(&job.app, rq, v, exp, &got) {
                            local.drifts += 1;
                            if local.first_drift.len() < 4 {
                                local.first_drift.push(json!({"beyond": why, "app_index": job.idx, "app": job.app, "request_index": ri + 1,
                                    "request": rq_json(rq), "variant": v, "expected": [exp.0, exp.1], "got": got_json(&got)}));
                            }
                            continue;
                        }
                        local.mismatches += 1;
                        if local.first.len() < 10 {
                            local.first.push(json!({"app_index": job.idx, "app": job.app, "request_index": ri + 1, "request": rq_json(rq),
                                "variant": v, "expected": [exp.0, exp.1], "got": got_json(&got)}));
                        }
                    } else if local.samples.len() < 2 && exp.1 != 0 && v == 0 && ri % 37 == job.idx % 37 {
                        local.samples.push(json!({"app": job.app, "request": rq_json(rq), "handler": [exp.0, exp.1]}));
                    }
                }
            }
            drop(keep);
            if !run.stop() {
                local.unstopped += 1;
            }
            let mut t = tally.lock().unwrap();
            t.apps += local.apps;
            t.requests += local.requests;
            t.evaluations += local.evaluations;
            t.mismatches += local.mismatches;
            t.tool_errors += local.tool_errors;
            t.unstopped += local.unstopped;
            t.flaky += local.flaky;
            t.refused_degenerate += local.refused_degenerate;
            t.drifts += local.drifts;
            for f in local.first_drift {
                if t.first_drift.len() < 12 {
                    t.first_drift.push(f);
                }
            }
            for f in local.first {
                if t.first.len() < 40 {
                    t.first.push(f);
                }
            }
            for s in local.samples {
                if t.samples.len() < 6 {
                    t.samples.push(s);
                }
            }
        }));
    }
    for h in hs {
        let _ = h.join();
    }
    let t = tally.lock().unwrap();
    out_line(&json!({"summary": true, "apps": t.apps, "requests": t.requests, "evaluations": t.evaluations, "mismatches": t.mismatches,
        "tool_errors": t.tool_errors, "start_failures": t.start_failures, "unstopped": t.unstopped, "transport_retries": t.flaky,
        "refused_degenerate": t.refused_degenerate, "ws_upgrades_on_kept_connection": WS_ON_KEPT.load(std::sync::atomic::Ordering::Relaxed), "hangs": HANGS.load(std::sync::atomic::Ordering::SeqCst), "aborted_after_hangs": too_many_hangs(),
        "drifts": t.drifts, "first_drift": t.first_drift, "upgrade_on_kept_connection_closed": KEPT_CLOSED.load(std::sync::atomic::Ordering::Relaxed), "starts_without_monitor_event": NO_EVENT_STARTS.load(std::sync::atomic::Ordering::Relaxed),
        "first": t.first, "samples": t.samples}));
}

// ------------------------------------------------------------------------------------------------
// random apps, logged for Trace_Routing.tla
// ------------------------------------------------------------------------------------------------
fn rand_path(rng: &mut Rng) -> String {
    // upper case and characters whose case mappings change them (or their length) are literal symbols too:
    // \u{e9} e-acute, \u{130} capital I with dot (lower case is two characters), \u{212a} Kelvin sign (lower case `k`)
    let segs = ["a", "b", "c", "ab", "aab", "a.b", "A", "Ab", "\u{e9}", "a\u{130}b", "\u{212a}", "*"];
    let depth = rng.range(0, 3);
    let mut s = String::new();
    for _ in 0..depth {
        s.push('/');
        // a literal `*` segment is rare
        let k = if rng.chance(1, 12) { 11 } else if rng.chance(1, 5) { rng.range(6, 10) } else { rng.below(6) };
        s.push_str(segs[k]);
    }
    if depth == 0 || rng.chance(1, 6) {
        s.push('/');
    }
    s
}

/// A pattern derived from a text: random spans replaced by `*` (sometimes `**`), sometimes perturbed.
fn pattern_from(rng: &mut Rng, text: &str) -> String {
    let t: Vec<char> = text.chars().collect();
    let mut p = String::new();
    let mut i = 0;
    let density = rng.range(0, 3); // 0: literal
    while i < t.len() {
        if density > 0 && rng.chance(density, 6) {
            p.push('*');
            if rng.chance(1, 5) {
                p.push('*');
            }
            i += rng.below(4);
        } else {
            p.push(t[i]);
            i += 1;
        }
    }
    if density > 0 && rng.chance(1, 4) {
        p.push('*');
    }
    if rng.chance(1, 8) && !p.is_empty() {
        // perturb: drop or change one character (mostly no longer matches)
        let mut cs: Vec<char> = p.chars().collect();
        let k = rng.below(cs.len());
        if rng.chance(1, 2) {
            cs.remove(k);
        } else {
            cs[k] = *rng.pick(&['a', 'b', '/', '*']);
        }
        p = cs.into_iter().collect();
    }
    p
}

const HOST_POOL: [&str; 13] =
    ["a.x", "b.x", "a.b.x", "c.y", "a.x:8", "b.x:8", "localhost", "x", "127.0.0.1:8", "A.X", "a.x:80", "\u{df}.x", "\u{212a}.x"];

/// `big`: far beyond the property's width - 8..16 host sub-apps, 20..45 routes per list, most of them copies of a
/// few patterns (an implementation that sorts, dedups or indexes its routes shows there).
fn rand_app(rng: &mut Rng, full_api: bool, big: bool) -> (Vec<Op>, Vec<String>, Vec<&'static str>) {
    let pool: Vec<String> = (0..rng.range(3, 6)).map(|_| rand_path(rng)).collect();
    // the Host values this app is mostly asked for; its host patterns are derived from them
    let hpool: Vec<&'static str> = (0..rng.range(2, 4)).map(|_| *rng.pick(&HOST_POOL)).collect();
    let route = |rng: &mut Rng| -> String {
        match rng.below(30) {
            0 => "*".to_string(),
            1 => "/*".to_string(),
            2 => String::new(), // the empty pattern matches the empty path only
            _ => {
                let base = rng.pick(&pool).clone();
                pattern_from(rng, &base)
            }
        }
    };
    let sub_ops = |rng: &mut Rng| -> Vec<SubOp> {
        let nh = if big { rng.range(20, 45) } else { rng.range(0, 6) };
        let nw = if big { rng.range(0, 34) } else { rng.range(0, 6) };
        let mut h: VecDeque<SubOp> = (0..nh).map(|_| SubOp::Route(route(rng))).collect();
        let mut w: VecDeque<SubOp> = (0..nw).map(|_| SubOp::Ws(route(rng))).collect();
        if big {
            // many copies: every element but a few is overwritten by one of the first three
            for i in 3..h.len() {
                if rng.chance(3, 4) {
                    h[i] = h[rng.below(3)].clone();
                }
            }
            for i in 3..w.len() {
                if rng.chance(3, 4) {
                    w[i] = w[rng.below(3)].clone();
                }
            }
        }
        // duplicates: the first registration must keep winning
        if h.len() >= 2 && rng.chance(1, 4) {
            let d = h[0].clone();
            h.push_back(d);
            if !big {
                h.truncate(6);
            }
        }
        let mut out = vec![];
        while !h.is_empty() || !w.is_empty() {
            if w.is_empty() || (!h.is_empty() && rng.chance(1, 2)) {
                out.push(h.pop_front().unwrap());
            } else {
                out.push(w.pop_front().unwrap());
            }
        }
        out
    };
    let nhosts = if big { rng.range(8, 16) } else { rng.range(0, 4) };
    let mut hosts: VecDeque<Op> = VecDeque::new();
    for _ in 0..nhosts {
        let mut hp;
        loop {
            let base = if rng.chance(5, 6) { *rng.pick(&hpool) } else { *rng.pick(&HOST_POOL) };
            hp = match rng.below(25) {
                0 => String::new(), // matches the empty Host value only
                1 => "**".to_string(),
                _ => pattern_from(rng, base),
            };
            if hp != "*" {
                break; // with_host refuses exactly "*"
            }
        }
        let so = if big && rng.chance(1, 2) { vec![] } else { sub_ops(rng) };
        hosts.push_back(Op::Host(hp, so));
    }
    if hosts.len() >= 2 && rng.chance(1, 5) {
        // the same host pattern twice
        if let Op::Host(h0, _) = hosts[0].clone() {
            let so = sub_ops(rng);
            let k = hosts.len() - 1;
            hosts[k] = Op::Host(h0, so);
        }
    }
    let mut def: VecDeque<Op> = sub_ops(rng)
        .into_iter()
        .map(|s| match s {
            SubOp::Route(p) => Op::Route(p),
            SubOp::Ws(p) => Op::Ws(p),
        })
        .collect();
    let mut ops = vec![];
    while !hosts.is_empty() || !def.is_empty() {
        if def.is_empty() || (!hosts.is_empty() && rng.chance(1, 2)) {
            ops.push(hosts.pop_front().unwrap());
        } else {
            ops.push(def.pop_front().unwrap());
        }
    }
    if full_api && rng.chance(1, 5) {
        // replace the default sub-app somewhere in the middle of the registration sequence
        let at = rng.below(ops.len() + 1);
        ops.insert(at, Op::DefSub(sub_ops(rng)));
    }
    if full_api && rng.chance(1, 8) {
        let at = rng.below(ops.len() + 1);
        ops.insert(at, Op::WsAll);
    }
    (ops, pool, hpool)
}

fn rand_req(rng: &mut Rng, pool: &[String], hpool: &[&'static str]) -> Rq {
    let mut target = if rng.chance(4, 5) { rng.pick(pool).clone() } else { rand_path(rng) };
    if rng.chance(1, 40) {
        target = String::new(); // the empty path (see refused_degenerate)
    }
    if rng.chance(1, 6) {
        // near miss: one more / one less character
        if rng.chance(1, 2) {
            target.push(*rng.pick(&['a', 'b', '/']));
        } else if target.len() > 1 {
            target.pop();
        }
    }
    if rng.chance(2, 5) {
        // "The choice depends only on ... the path without its query": the query is filled with whatever a parser of
        // request targets might mistake for a path, an authority or an absolute-form target (a return URL, an Origin,
        // a second `?`, a fragment, an encoded `?`, `@`, `*`), built from paths and hosts that ARE routed differently
        let q = match rng.below(12) {
            0 => "?".to_string(),
            1 => "?x=1".to_string(),
            2 => format!("?{}", rng.pick(pool)),
            3 => "?a?b".to_string(),
            4 => format!("?to=http://{}{}", rng.pick(hpool), rng.pick(pool)),
            5 => format!("?next=https://{}", rng.pick(hpool)),
            6 => format!("?r=//{}{}", rng.pick(hpool), rng.pick(pool)),
            7 => format!("?u={}://{}", rng.pick(&["ws", "ftp", "x"]), rng.pick(pool).trim_start_matches('/')),
            8 => format!("?{}#{}", rng.pick(pool), rng.pick(pool)),
            9 => format!("?q=%3F{}&p=%2F..%2F", rng.pick(pool)),
            10 => format!("?@{}:{}", rng.pick(hpool), rng.pick(pool)),
            _ => format!("?*{}*", rng.pick(pool)),
        };
        target.push_str(&q);
    }
    let hostp = !rng.chance(1, 7);
    let mut host = if !hostp {
        String::new()
    } else if rng.chance(3, 4) {
        rng.pick(hpool).to_string()
    } else {
        rng.pick(&HOST_POOL).to_string()
    };
    if hostp {
        match rng.below(16) {
            0 => host = String::new(),              // `Host:` with an empty value
            1 => host = host.to_ascii_uppercase(),   // another value, whatever the patterns say in lower case
            2 => host = host.to_ascii_lowercase(),
            _ => {}
        }
    }
    Rq { ws: rng.chance(2, 5), hostp, host, target }
}

fn ops_json(ops: &[Op]) -> Value {
    let sub = |so: &SubOp| match so {
        SubOp::Route(p) => json!({"op": "route", "p": unsyms(p)}),
        SubOp::Ws(p) => json!({"op": "ws", "p": unsyms(p)}),
    };
    Value::Array(
        ops.iter()
            .map(|o| match o {
                Op::Route(p) => json!({"op": "route", "p": unsyms(p), "h": [], "sub": []}),
                Op::Ws(p) => json!({"op": "ws", "p": unsyms(p), "h": [], "sub": []}),
                Op::Host(h, so) => json!({"op": "host", "p": [], "h": unsyms(h), "sub": so.iter().map(sub).collect::<Vec<_>>()}),
                Op::DefSub(so) => json!({"op": "defsub", "p": [], "h": [], "sub": so.iter().map(sub).collect::<Vec<_>>()}),
                Op::WsAll => json!({"op": "wsall", "p": [], "h": [], "sub": []}),
            })
            .collect(),
    )
}

fn random<S: Server>(napps: usize, nreq: usize, workers: usize) {
    let mut rng = Rng::from_env();
    let mut jobs: VecDeque<(usize, Vec<Op>, Vec<Rq>)> = VecDeque::new();
    for i in 0..napps {
        let big = i % 12 == 5;
        let (ops, pool, hpool) = rand_app(&mut rng, S::FULL_API, big);
        let reqs: Vec<Rq> = (0..if big { nreq / 2 } else { nreq }).map(|_| rand_req(&mut rng, &pool, &hpool)).collect();
        jobs.push_back((i, ops, reqs));
    }
    let jobs = Arc::new(Mutex::new(jobs));
    let errors = Arc::new(Mutex::new(0u64));
    let start_failures = Arc::new(Mutex::new(0u64));
    let mut hs = vec![];
    for _ in 0..workers {
        let (jobs, errors, start_failures) = (jobs.clone(), errors.clone(), start_failures.clone());
        hs.push(thread::spawn(move || loop {
            if too_many_hangs() {
                break;
            }
            let (idx, ops, reqs) = match jobs.lock().unwrap().pop_front() {
                Some(j) => j,
                None => break,
            };
            let tag = format!("Z{}", idx);
            let run = match S::start(&ops, &tag) {
                Ok(r) => r,
                Err(_) => {
                    *errors.lock().unwrap() += 1;
                    *start_failures.lock().unwrap() += 1;
                    continue;
                }
            };
            let mut lines = vec![json!({"t": "app", "ops": ops_json(&ops), "kind": "http", "hostp": false, "host": [], "target": [],
                "got": {"hit": false, "sub": 0, "idx": 0}, "note": ""})];
            let mut keep: Option<Conn> = None;
            for (ri, rq) in reqs.iter().enumerate() {
                let v = (idx + ri) % 3;
                let mut flaky = 0u64;
                if too_many_hangs() {
                    break;
                }
                let got = ask(run.port(), &mut keep, rq, v, idx + 3 * ri, &tag, &mut flaky);
                if let Got::Other(e) = &got {
                    if e.starts_with("FOREIGN") || e.starts_with("connect") {
                        *errors.lock().unwrap() += 1;
                        continue;
                    }
                }
                if refused_degenerate(rq, &got) {
                    continue;
                }
                let g = got_json(&got);
                lines.push(json!({"t": "req", "ops": [], "kind": if rq.ws { "ws" } else { "http" }, "hostp": rq.hostp, "host": unsyms(&rq.host),
                    "target": unsyms(&rq.target), "got": {"hit": g["hit"], "sub": g["sub"], "idx": g["idx"]},
                    "note": g.get("note").cloned().unwrap_or(json!(""))}));
            }
            drop(keep);
            if !run.stop() {
                *errors.lock().unwrap() += 1000000;
            }
            let stdout = std::io::stdout();
            let mut l = stdout.lock();
            for x in lines {
                let _ = writeln!(l, "{}", x);
            }
        }));
    }
    for h in hs {
        let _ = h.join();
    }
    eprintln!(
        "{}",
        json!({"summary": true, "apps": napps, "tool_errors": *errors.lock().unwrap() % 1000000, "unstopped": *errors.lock().unwrap() / 1000000,
            "start_failures": *start_failures.lock().unwrap(), "hangs": HANGS.load(std::sync::atomic::Ordering::SeqCst), "aborted_after_hangs": too_many_hangs()})
    );
}


pub fn run_main<S: Server>() {
    quiet_panics();
    let a: Vec<String> = std::env::args().collect();
    let flag = |name: &str| a.iter().position(|x| x == name).and_then(|i| a.get(i + 1)).cloned();
    let workers: usize = flag("--workers").and_then(|s| s.parse().ok()).unwrap_or(6);
    match a.get(1).map(|s| s.as_str()) {
        Some("replay") => replay::<S>(flag("--variants").as_deref().unwrap_or("one"), workers),
        Some("random") => random::<S>(a[2].parse().unwrap(), a[3].parse().unwrap(), workers),
        _ => {
            eprintln!("usage: routing replay [--variants one|all|mixed] [--workers N] | routing random <apps> <requests> [--workers N]");
            std::process::exit(2)
        }
    }
}
