//! C07 conformance: humphrey's response serialiser (`Vec<u8>::from(Response)`), response parser
//! (`Response::from_stream`), Set-Cookie builder and HTTP client against spec/http/HttpResp.tla and
//! spec/http/Client.tla.
//!
//!   httpresp replay <level>        stdin: vectors printed by TLC (Gen_HttpResp_*.cfg), one JSON per line
//!                                    {"k":"codes","rows":[{"c","p","alt"}..]}
//!                                    {"k":"s","r":{version,code,headers,body},"lines":[..],"rt":bool,"tail","tail_CrlfAfterBody"}
//!                                    {"k":"p","head":str,"frames":[text,data,text,..],"exp":{version,code,headers,body}}
//!                                    {"k":"c",name,value,attrs,expires,maxage(decimal string),millis,domain,path,samesite,exp,pair,avsets}
//!                                  stdout: mismatch records + one {"summary":true,..}
//!   httpresp random <n> <maxbody>  stdout: ndjson log of random large cases run on the real code, for Trace_HttpResp
//!   httpresp client <level>        stdin: {"k":"client",follow,script:[..],exp:{..}} behaviours from Gen_Client_*.cfg;
//!                                  plays them with a scripted server on 127.0.0.1:80 / 127.0.0.2:80
//!   httpresp client-random <n>     stdout: ndjson event log of random redirect scripts, for Trace_Client
//!
//! Body symbols of the spec ("a", LF) are mapped to concrete bytes by MAPS; a mapping keeps lengths, so
//! every Content-Length / chunk size computed by TLC stays right.
use hv::util::*;
use humphrey::http::cookie::{SameSite, SetCookie};
use humphrey::http::headers::{Header, HeaderType, Headers};
use humphrey::http::{Response, StatusCode};
use humphrey::Client;
use serde_json::{json, Value};
use std::collections::{BTreeMap, HashMap};
use std::convert::TryFrom;
use std::io::{self, Read, Write};
use std::net::{TcpListener, TcpStream};
use std::sync::{Arc, Mutex};
use std::time::Duration;

// ------------------------------------------------------------------------------------------------
// scripted reader

/// Delivers `data` in segments ending at the offsets in `cuts` (ascending). For a message framed by
/// Content-Length or chunked coding a read after the last byte is what a keep-alive connection would block
/// on: it is flagged (`over`) and fails, it is never an EOF. A message without framing header can only be
/// delimited by the server closing the connection, so there (`closes`) the end of the data is an EOF and
/// reading up to it is legitimate.
struct Scripted<'a> {
    data: &'a [u8],
    cuts: &'a [usize],
    ci: usize,
    pos: usize,
    over: bool,
    closes: bool,
}

impl<'a> Scripted<'a> {
    fn new(data: &'a [u8], cuts: &'a [usize]) -> Self {
        Scripted { data, cuts, ci: 0, pos: 0, over: false, closes: !framed(data) }
    }
}

impl<'a> Read for Scripted<'a> {
    fn read(&mut self, buf: &mut [u8]) -> io::Result<usize> {
        if buf.is_empty() {
            return Ok(0);
        }
        if self.pos >= self.data.len() {
            if self.closes {
                return Ok(0);
            }
            self.over = true;
            return Err(io::Error::new(io::ErrorKind::WouldBlock, "read past the end of the message"));
        }
        while self.ci < self.cuts.len() && self.cuts[self.ci] <= self.pos {
            self.ci += 1;
        }
        let end = if self.ci < self.cuts.len() { self.cuts[self.ci].min(self.data.len()) } else { self.data.len() };
        let n = (end - self.pos).min(buf.len());
        buf[..n].copy_from_slice(&self.data[self.pos..self.pos + n]);
        self.pos += n;
        Ok(n)
    }
}

/// Does the head of the message carry Content-Length or Transfer-Encoding?
fn framed(data: &[u8]) -> bool {
    let end = data.windows(4).position(|w| w == b"\r\n\r\n").unwrap_or(data.len());
    let head = String::from_utf8_lossy(&data[..end]).to_ascii_lowercase();
    head.split("\r\n").skip(1).any(|l| l.starts_with("content-length:") || l.starts_with("transfer-encoding:"))
}

/// Split plans for a message of `len` bytes: all at once, one byte per read, (level >= 2) every single
/// split point, and `nrand` seeded random segmentations.
fn plans(len: usize, rng: &mut Rng, every_point: bool, nrand: usize) -> Vec<Vec<usize>> {
    let mut out: Vec<Vec<usize>> = vec![vec![]];
    if len > 1 {
        out.push((1..len).collect());
        if every_point {
            for i in 1..len {
                out.push(vec![i]);
            }
        }
        for _ in 0..nrand {
            let k = rng.range(1, 6.min(len - 1));
            let mut c: Vec<usize> = (0..k).map(|_| rng.range(1, len - 1)).collect();
            c.sort_unstable();
            c.dedup();
            out.push(c);
        }
    }
    out
}

// ------------------------------------------------------------------------------------------------
// observation of the real code

#[derive(Clone, Debug, PartialEq)]
struct Parsed {
    res: String, // "ok" | "err_response" | "err_stream" | "panic"
    version: String,
    code: u16,
    headers: Vec<(String, String)>,
    body: Vec<u8>,
    over: bool,
    consumed: usize,
}

/// Header list in stored order per name: names as `iter()` yields them, values through `get_all`
/// (which keeps insertion order), so the observation does not depend on the sort inside `iter()`.
fn headers_of(h: &Headers) -> Vec<(String, String)> {
    let mut names: Vec<HeaderType> = vec![];
    for x in h.iter() {
        if !names.contains(&x.name) {
            names.push(x.name.clone());
        }
    }
    let mut out = vec![];
    for n in names {
        for v in h.get_all(&n) {
            out.push((n.to_string(), v.to_string()));
        }
    }
    out
}

fn parse_with(data: &[u8], cuts: &[usize]) -> Parsed {
    let r = std::panic::catch_unwind(|| {
        let mut rd = Scripted::new(data, cuts);
        let res = Response::from_stream(&mut rd);
        (res, rd.over, rd.pos)
    });
    match r {
        Err(_) => Parsed { res: "panic".into(), version: String::new(), code: 0, headers: vec![], body: vec![], over: false, consumed: 0 },
        Ok((Err(e), over, pos)) => Parsed {
            res: format!("err_{:?}", e).to_lowercase(),
            version: String::new(),
            code: 0,
            headers: vec![],
            body: vec![],
            over,
            consumed: pos,
        },
        Ok((Ok(resp), over, pos)) => {
            let n = headers_of(&resp.headers);
            let total = resp.headers.len();
            let mut p = Parsed { res: "ok".into(), version: resp.version.clone(), code: resp.status_code.into(), headers: n, body: resp.body, over, consumed: pos };
            if p.headers.len() != total {
                p.res = "header_count".into();
            }
            p
        }
    }
}

/// Equality of header lists in the sense of DESIGN 5a: per (case-insensitive) name the same values in the same order.
fn group(h: &[(String, String)]) -> BTreeMap<String, Vec<String>> {
    let mut m: BTreeMap<String, Vec<String>> = BTreeMap::new();
    for (n, v) in h {
        m.entry(n.to_ascii_lowercase()).or_default().push(v.clone());
    }
    m
}
fn same_headers(a: &[(String, String)], b: &[(String, String)]) -> bool {
    a.len() == b.len() && group(a) == group(b)
}

fn jheaders(v: &Value) -> Vec<(String, String)> {
    v.as_array().map(|a| a.iter().map(|h| (h["n"].as_str().unwrap_or("").to_string(), h["v"].as_str().unwrap_or("").to_string())).collect()).unwrap_or_default()
}
fn headers_json(h: &[(String, String)]) -> Value {
    Value::Array(h.iter().map(|(n, v)| json!({"n": n, "v": v})).collect())
}

/// concrete bytes of the two body symbols under mapping m
const MAPS: [(u8, u8); 5] = [(b'a', b'\n'), (0x00, 0xFF), (b'\r', b'\n'), (b'0', b'\r'), (0x80, b':')];
fn map_body(s: &str, m: usize) -> Vec<u8> {
    s.bytes().map(|b| if b == b'a' { MAPS[m].0 } else if b == b'\n' { MAPS[m].1 } else { b }).collect()
}
fn show(b: &[u8]) -> String {
    let s: String = b.iter().take(400).map(|c| if (0x20..0x7f).contains(c) && *c != b'\\' { (*c as char).to_string() } else { format!("\\x{:02x}", c) }).collect();
    if b.len() > 400 { format!("{}...({} bytes)", s, b.len()) } else { s }
}

fn status_of(code: u16) -> Option<StatusCode> {
    StatusCode::try_from(code).ok()
}

/// Splits serialised bytes into the classes the property names: status line, header lines, blank line, rest.
struct Classes {
    status_line: String,
    hlines: Vec<String>,
    blank: bool,
    rest: Vec<u8>,
}
fn classes(bytes: &[u8]) -> Classes {
    let pos = bytes.windows(4).position(|w| w == b"\r\n\r\n");
    match pos {
        None => Classes { status_line: String::from_utf8_lossy(bytes).to_string(), hlines: vec![], blank: false, rest: vec![] },
        Some(p) => {
            let head = String::from_utf8_lossy(&bytes[..p]).to_string();
            let mut it = head.split("\r\n");
            let sl = it.next().unwrap_or("").to_string();
            Classes { status_line: sl, hlines: it.map(|s| s.to_string()).collect(), blank: true, rest: bytes[p + 4..].to_vec() }
        }
    }
}
/// "Name: value" -> (name, value) (field-name ":" OWS field-value)
fn split_hline(l: &str) -> Option<(String, String)> {
    let (n, v) = l.split_once(':')?;
    if n.is_empty() || n.contains(' ') {
        return None;
    }
    Some((n.to_string(), v.trim_matches(|c| c == ' ' || c == '\t').to_string()))
}

/// cookie-av with its name in lower case (ABNF literals are case-insensitive); the value as it is, except SameSite's
fn norm_av(av: &str) -> String {
    match av.split_once('=') {
        None => av.to_ascii_lowercase(),
        Some((n, _)) if n.eq_ignore_ascii_case("samesite") => av.to_ascii_lowercase(),
        Some((n, v)) => format!("{}={}", n.to_ascii_lowercase(), v),
    }
}

fn build_response(version: &str, code: u16, headers: &[(String, String)], body: &[u8], via_new: bool) -> Option<Response> {
    let sc = status_of(code)?;
    let mut r = if via_new { Response::new(sc, body) } else { Response::empty(sc).with_bytes(body) };
    r.version = version.to_string();
    for (n, v) in headers {
        // second variant: a Set-Cookie that is a plain pair goes through SetCookie / with_cookie
        match (via_new && n.eq_ignore_ascii_case("set-cookie") && !v.contains(';'), v.split_once('=')) {
            (true, Some((cn, cv))) => r = r.with_cookie(SetCookie::new(cn, cv)),
            _ => r = r.with_header(n.as_str(), v),
        }
    }
    Some(r)
}

// ------------------------------------------------------------------------------------------------
// replay of TLC vectors

struct Tally {
    evals: u64,
    mism: u64,
    first: Vec<Value>,
    dev_hits: BTreeMap<String, u64>,
    dev_first: BTreeMap<String, Value>,
    samples: Vec<Value>,
    notes: Vec<Value>, // observations beyond the property (reported as drift, never as a mismatch)
}
impl Tally {
    fn bad(&mut self, v: Value) {
        self.mism += 1;
        if self.first.len() < 40 {
            self.first.push(v);
        }
    }
    fn dev(&mut self, d: &str, v: Value) {
        *self.dev_hits.entry(d.to_string()).or_insert(0) += 1;
        self.dev_first.entry(d.to_string()).or_insert(v);
    }
}

fn replay(level: usize) {
    let mut rng = Rng::from_env();
    let mut t = Tally { evals: 0, mism: 0, first: vec![], dev_hits: BTreeMap::new(), dev_first: BTreeMap::new(), samples: vec![], notes: vec![] };
    let mut unmodelled: std::collections::HashSet<u16> = std::collections::HashSet::new(); // codes of the spec without a variant in status.rs
    let mut unconsumed = 0u64;
    let (mut n_s, mut n_p, mut n_c, mut n_codes) = (0u64, 0u64, 0u64, 0u64);
    let mut nontrivial = 0u64; // distinct parse vectors with >= 2 chunks or >= 2 headers, distinct api vectors with body and headers
    let mut rt_checked = 0u64;
    let nmaps = if level >= 2 { MAPS.len() } else { 3 };
    for line in stdin_lines() {
        let v: Value = match serde_json::from_str(&line) {
            Ok(v) => v,
            Err(_) => continue,
        };
        match v["k"].as_str().unwrap_or("") {
            "codes" => {
                n_codes += 1;
                let mut spec: HashMap<u16, Vec<String>> = HashMap::new();
                for r in v["rows"].as_array().unwrap() {
                    spec.insert(r["c"].as_u64().unwrap() as u16, vec![r["p"].as_str().unwrap().to_string(), r["alt"].as_str().unwrap().to_string(), r["alt2"].as_str().unwrap().to_string()]);
                }
                for n in 0u16..=999 {
                    t.evals += 1;
                    match (status_of(n), spec.get(&n)) {
                        (None, None) => {}
                        (Some(sc), Some(reg)) => {
                            let back: u16 = sc.into();
                            let phrase: &str = sc.into();
                            if back != n || phrase.is_empty() || !reg.iter().any(|p| p == phrase) {
                                t.bad(json!({"kind": "codes", "code": n, "code_back": back, "phrase": phrase, "registered": reg}));
                            }
                        }
                        // the model and status.rs disagree about which codes exist: the property speaks of "any status code
                        // Humphrey models", so a variant added to (or dropped from) status.rs is not a violation - it is a
                        // gap of this check's table and reported as such
                        (a, b) => { t.notes.push(json!({"kind": "codes-domain", "code": n, "in_status_rs": a.is_some(), "in_spec": b.is_some()})); if a.is_none() { unmodelled.insert(n); } }
                    }
                }
            }
            "s" => {
                n_s += 1;
                let r = &v["r"];
                let version = r["version"].as_str().unwrap();
                let code = r["code"].as_u64().unwrap() as u16;
                if unmodelled.contains(&code) {
                    continue;
                }
                let headers = jheaders(&r["headers"]);
                let body_sym = r["body"].as_str().unwrap();
                let lines: Vec<&str> = v["lines"].as_array().unwrap().iter().map(|x| x.as_str().unwrap()).collect();
                let rt = v["rt"].as_bool().unwrap();
                let tail_ok = v["tail"].as_str().unwrap().as_bytes();
                let tail_dev = v["tail_CrlfAfterBody"].as_str().unwrap().as_bytes();
                if !body_sym.is_empty() && !headers.is_empty() {
                    nontrivial += 1;
                }
                let maps = if body_sym.is_empty() { 1 } else { nmaps };
                for m in 0..maps {
                    let body = map_body(body_sym, m);
                    for via_new in [false, true] {
                        t.evals += 1;
                        let resp = match build_response(version, code, &headers, &body, via_new) {
                            Some(x) => x,
                            None => {
                                t.bad(json!({"kind": "ser", "what": "status code has no variant", "code": code}));
                                continue;
                            }
                        };
                        let bytes = match std::panic::catch_unwind(move || Vec::<u8>::from(resp)) {
                            Ok(b) => b,
                            Err(_) => {
                                t.bad(json!({"kind": "ser", "what": "panic in From<Response>", "r": r}));
                                continue;
                            }
                        };
                        let c = classes(&bytes);
                        let got_h: Option<Vec<(String, String)>> = c.hlines.iter().map(|l| split_hline(l)).collect();
                        let mut what = vec![];
                        if !lines.contains(&c.status_line.as_str()) {
                            what.push("status line");
                        }
                        match &got_h {
                            Some(h) if same_headers(h, &headers) => {}
                            _ => what.push("header lines"),
                        }
                        if !c.blank {
                            what.push("blank line");
                        }
                        let mut dev: Option<&str> = None;
                        if c.rest.len() < body.len() || c.rest[..body.len()] != body[..] {
                            what.push("body");
                        } else {
                            let tail = &c.rest[body.len()..];
                            if tail != tail_ok {
                                if what.is_empty() && tail == tail_dev {
                                    dev = Some("CrlfAfterBody");
                                } else {
                                    what.push("bytes after the body");
                                }
                            }
                        }
                        let rec = json!({"kind": "ser", "vector": v, "what": what, "r": r, "map": m, "via_new": via_new, "accepted_status_lines": lines, "got_bytes": show(&bytes)});
                        if !what.is_empty() {
                            t.bad(rec);
                        } else if let Some(d) = dev {
                            t.dev(d, rec);
                        } else if t.samples.iter().filter(|x| x.get("serialised").is_some()).count() < 2 && !headers.is_empty() && m + 1 == maps && n_s % 7 == 5 {
                            t.samples.push(json!({"response": r, "serialised": show(&bytes)}));
                        }
                        // parse what the real serialiser produced with the real parser
                        if rt && (!via_new || headers.len() >= 30) {
                            let mut exp_h = headers.clone();
                            let _ = &mut exp_h;
                            for cuts in plans(bytes.len(), &mut rng, false, 1) {
                                t.evals += 1;
                                rt_checked += 1;
                                let p = parse_with(&bytes, &cuts);
                                if !(p.res == "ok" && p.version == version && p.code == code && same_headers(&p.headers, &headers) && p.body == body && !p.over) {
                                    t.bad(json!({"kind": "roundtrip", "vector": v, "r": r, "map": m, "cuts": cuts, "serialised": show(&bytes),
                                        "got": {"res": p.res, "version": p.version, "code": p.code, "headers": headers_json(&p.headers), "body": show(&p.body), "read_past_end": p.over}}));
                                    break;
                                }
                            }
                        }
                    }
                }
            }
            "p" => {
                n_p += 1;
                let head = v["head"].as_str().unwrap();
                let frames: Vec<&str> = v["frames"].as_array().unwrap().iter().map(|x| x.as_str().unwrap()).collect();
                let exp = &v["exp"];
                let e_version = exp["version"].as_str().unwrap();
                let e_code = exp["code"].as_u64().unwrap() as u16;
                if unmodelled.contains(&e_code) {
                    continue;
                }
                let e_headers = jheaders(&exp["headers"]);
                let e_body_sym = exp["body"].as_str().unwrap();
                if frames.len() >= 5 || e_headers.len() >= 3 {
                    nontrivial += 1;
                }
                let maps = if e_body_sym.is_empty() { 1 } else { nmaps };
                for m in 0..maps {
                    let mut wire = head.as_bytes().to_vec();
                    for (i, f) in frames.iter().enumerate() {
                        if i % 2 == 1 { wire.extend(map_body(f, m)) } else { wire.extend(f.as_bytes()) }
                    }
                    let e_body = map_body(e_body_sym, m);
                    for cuts in plans(wire.len(), &mut rng, level >= 2 && m == 0 || level >= 3, if level >= 2 { 2 } else { 1 }) {
                        t.evals += 1;
                        let p = parse_with(&wire, &cuts);
                        let ok = p.res == "ok" && p.version == e_version && p.code == e_code && same_headers(&p.headers, &e_headers) && p.body == e_body && !p.over;
                        // (whether the parser also consumed the last CRLF of the message is not an observable of the property)
                        if ok && p.consumed != wire.len() {
                            unconsumed += 1;
                        }
                        if !ok {
                            t.bad(json!({"kind": "parse", "vector": v, "wire": show(&wire), "map": m, "cuts": cuts, "expected": exp,
                                "got": {"res": p.res, "version": p.version, "code": p.code, "headers": headers_json(&p.headers), "body": show(&p.body),
                                        "read_past_end": p.over, "consumed": p.consumed, "of": wire.len()}}));
                            break;
                        }
                    }
                    if t.samples.iter().filter(|x| x.get("wire").is_some()).count() < 2 && frames.len() >= 5 && m == 2 && n_p % 211 == 7 {
                        t.samples.push(json!({"wire": show(&wire), "parsed": exp}));
                    }
                }
            }
            "c" => {
                n_c += 1;
                let attrs: Vec<&str> = v["attrs"].as_array().unwrap().iter().map(|x| x.as_str().unwrap()).collect();
                if attrs.len() >= 2 {
                    nontrivial += 1;
                }
                // "~" in the spec's strings stands for a non-ASCII character: substituted in input and expectation alike
                let uses_tilde = v["domain"].as_str().unwrap().contains('~') || v["path"].as_str().unwrap().contains('~');
                for sub in if uses_tilde { vec!["\u{e9}", "\u{4e16}", "~"] } else { vec!["~"] } {
                    t.evals += 1;
                    let f = |k: &str| v[k].as_str().unwrap().replace('~', sub);
                    let secs: u64 = match v["maxage"].as_str().unwrap().parse() {
                        Ok(x) => x,
                        Err(_) => { t.bad(json!({"kind": "cookie", "vector": v, "what": ["Max-Age of the vector is not a u64"]})); continue; }
                    };
                    let millis = v["millis"].as_u64().unwrap() as u32;
                    let mut c = SetCookie::new(f("name"), f("value"));
                    // builder calls in an order different from the serialisation order
                    for a in ["HttpOnly", "Path", "Expires", "Secure", "SameSite", "Domain", "Max-Age"] {
                        if !attrs.contains(&a) {
                            continue;
                        }
                        c = match a {
                            "Expires" => c.with_expires(f("expires")),
                            "Max-Age" => c.with_max_age(Duration::new(secs, millis * 1_000_000)),
                            "Domain" => c.with_domain(f("domain")),
                            "Path" => c.with_path(f("path")),
                            "SameSite" => c.with_same_site(match v["samesite"].as_str().unwrap() {
                                "Strict" => SameSite::Strict,
                                "Lax" => SameSite::Lax,
                                _ => SameSite::None,
                            }),
                            "Secure" => c.with_secure(true),
                            _ => c.with_http_only(true),
                        };
                    }
                    let h: Header = match std::panic::catch_unwind({ let c = c.clone(); move || Header::from(c) }) {
                        Ok(h) => h,
                        Err(_) => { t.bad(json!({"kind": "cookie", "vector": v, "what": ["panic in From<SetCookie>"]})); continue; }
                    };
                    // acceptable attribute sets (one per acceptable Max-Age: truncated or rounded fraction)
                    let avsets: Vec<Vec<String>> = v["avsets"].as_array().unwrap().iter().map(|set| {
                        let mut x: Vec<String> = set.as_array().unwrap().iter().map(|y| norm_av(&y.as_str().unwrap().replace('~', sub))).collect();
                        x.sort();
                        x
                    }).collect();
                    let mut parts = h.value.split("; ");
                    let pair = parts.next().unwrap_or("").to_string();
                    let mut got_avs: Vec<String> = parts.map(norm_av).collect();
                    got_avs.sort();
                    let mut what = vec![];
                    if h.name != HeaderType::SetCookie {
                        what.push("header name");
                    }
                    if pair != f("pair") {
                        what.push("cookie pair");
                    }
                    if !avsets.contains(&got_avs) {
                        what.push("attributes");
                    }
                    // through a response: one line per Set-Cookie, in the order added, and back through the parser
                    let resp = Response::empty(StatusCode::OK).with_cookie(c).with_cookie(SetCookie::new("other", "1"));
                    let bytes: Vec<u8> = resp.into();
                    let cl = classes(&bytes);
                    let sc: Vec<String> = cl.hlines.iter().filter_map(|l| split_hline(l)).filter(|(n, _)| n.eq_ignore_ascii_case("set-cookie")).map(|(_, v)| v).collect();
                    if sc != vec![h.value.clone(), "other=1".to_string()] || cl.hlines.len() != 2 {
                        what.push("Set-Cookie lines of the response");
                    }
                    let p = parse_with(&bytes, &[]);
                    if !(p.res == "ok" && p.headers.iter().map(|(_, v)| v.clone()).collect::<Vec<_>>() == vec![h.value.clone(), "other=1".to_string()]) {
                        what.push("Set-Cookie after parsing back");
                    }
                    if !what.is_empty() {
                        let short = |s: &str| if s.len() > 300 { format!("{}...({} bytes)", &s[..120], s.len()) } else { s.to_string() };
                        t.bad(json!({"kind": "cookie", "vector": v, "what": what, "attrs": attrs, "max_age": {"secs": v["maxage"], "millis": millis},
                            "accepted_attribute_sets": avsets, "got": short(&h.value)}));
                        break;
                    } else if t.samples.iter().filter(|x| x.get("header_value").is_some()).count() < 2 && attrs.len() == 7
                        && (v["maxage"] == "16777217" || v["samesite"] == "Strict") && h.value.len() < 300 {
                        t.samples.push(json!({"cookie_attrs": attrs, "max_age": {"secs": v["maxage"], "millis": millis}, "header_value": h.value}));
                    }
                }
            }
            _ => {}
        }
    }
    out_line(&json!({"summary": true, "evaluations": t.evals, "mismatches": t.mism, "first": t.first, "dev_hits": t.dev_hits, "dev_first": t.dev_first,
        "vectors": {"s": n_s, "p": n_p, "c": n_c, "codes": n_codes}, "nontrivial": nontrivial, "roundtrips": rt_checked, "samples": t.samples,
        "notes": t.notes, "unconsumed_tail_cases": unconsumed}));
}

// ------------------------------------------------------------------------------------------------
// random large cases, logged for Trace_HttpResp

const ALL_CODES: [u16; 39] = [100, 101, 200, 201, 202, 203, 204, 205, 206, 300, 301, 302, 303, 304, 305, 307, 400, 401, 403, 404, 405, 406, 407,
    408, 409, 410, 411, 412, 413, 414, 415, 416, 417, 500, 501, 502, 503, 504, 505];
fn bodiless(c: u16) -> bool {
    c < 200 || c == 204 || c == 205 || c == 304
}
const NAMES: [&str; 12] = ["Content-Type", "Date", "Server", "ETag", "Location", "Cache-Control", "x-dup", "X-Dup", "x-other", "Link", "Age", "Allow"];

// registered response / representation fields that Humphrey's HeaderType table does not know today (a name a later
// version adds to the enum and to the parser's table but forgets in the serialiser's table is written as an empty name;
// added after the seeded change `C07-r5-...-headertype-variants` was missed): every one of them is used, in turn, by the
// first cases of a run, in the spelling given here, lower-cased and upper-cased
const RESP_EXTRA: &[&str] = &["Retry-After", "Vary", "Accept-Ranges", "Content-Range", "Range", "Content-Language", "Content-Location",
    "Content-Disposition", "Content-Security-Policy", "Content-Security-Policy-Report-Only", "Strict-Transport-Security",
    "X-Content-Type-Options", "X-Frame-Options", "X-XSS-Protection", "Referrer-Policy", "Permissions-Policy", "Cross-Origin-Opener-Policy",
    "Cross-Origin-Embedder-Policy", "Cross-Origin-Resource-Policy", "Alt-Svc", "Accept-Patch", "Accept-Post", "Accept-CH", "Clear-Site-Data",
    "Proxy-Authenticate", "Proxy-Authorization", "Authentication-Info", "Server-Timing", "Timing-Allow-Origin", "SourceMap", "NEL",
    "Report-To", "Refresh", "P3P", "Trailer", "TE", "Keep-Alive", "Preference-Applied", "Sec-WebSocket-Accept", "Sec-WebSocket-Protocol",
    "Sec-WebSocket-Extensions", "Sec-WebSocket-Version", "Content-MD5", "Digest", "Want-Digest", "X-Powered-By", "X-Request-Id",
    "X-Robots-Tag", "X-UA-Compatible", "X-DNS-Prefetch-Control", "Tk", "DAV", "Lock-Token", "MS-Author-Via", "Status", "Pragma", "Expires",
    "Last-Modified", "Warning", "Upgrade", "Via", "WWW-Authenticate", "Access-Control-Allow-Origin", "Access-Control-Allow-Methods",
    "Access-Control-Allow-Headers", "Access-Control-Allow-Credentials", "Access-Control-Expose-Headers", "Access-Control-Max-Age",
    "Origin-Agent-Cluster", "Priority", "Cache-Status", "CDN-Cache-Control", "Proxy-Status", "Speculation-Rules", "Supports-Loading-Mode",
    "If-Match", "If-None-Match", "If-Modified-Since", "If-Unmodified-Since", "If-Range", "Max-Forwards", "Forwarded", "From", "Expect",
    "Referer", "User-Agent", "Accept", "Accept-Encoding", "Accept-Language", "Accept-Charset", "Authorization", "Cookie", "Host", "Origin"];

fn forced_name(i: usize) -> Option<String> {
    let k = i / 2;
    let n = RESP_EXTRA.len();
    if k >= 3 * n { return None; }
    let base = RESP_EXTRA[k % n];
    Some(match k / n { 0 => base.to_string(), 1 => base.to_ascii_lowercase(), _ => base.to_ascii_uppercase() })
}

fn rand_token(rng: &mut Rng, max: usize) -> String {
    const CH: &[u8] = b"abcdefghijklmnopqrstuvwxyzABCDEFGHIJKLMNOPQRSTUVWXYZ0123456789-_./=;, :";
    let n = rng.range(1, max);
    let mut s: String = (0..n).map(|_| CH[rng.below(CH.len())] as char).collect();
    // values never start or end with whitespace (DESIGN 5a)
    while s.starts_with(' ') || s.ends_with(' ') {
        s = s.trim().to_string();
        if s.is_empty() {
            s.push('v');
        }
    }
    s
}

/// a header value: a token, one time in five with a character inside it that is legal in a field value but easily taken for
/// dirt - HTAB (field-content may contain it) and C1 controls (their UTF-8 bytes are obs-text) - never first or last (DESIGN 5a).  Added after a
/// seeded "response-splitting defence" that strips every char::is_control() from values on serialisation was missed (round 8).
fn rand_value(rng: &mut Rng, max: usize) -> String {
    let s = rand_token(rng, max);
    if s.chars().count() < 2 || !rng.chance(1, 5) {
        return s;
    }
    let c = *rng.pick(&['\t', '\u{80}', '\u{85}', '\u{9f}']);   // not DEL: 0x7F is neither VCHAR nor obs-text
    let at = rng.range(1, s.chars().count() - 1);
    let mut out = String::new();
    for (i, ch) in s.chars().enumerate() {
        if i == at { out.push(c); }
        out.push(ch);
    }
    out
}

const MAX_AGES: [u64; 14] = [0, 1, 3600, 31536000, (1 << 24) - 1, 1 << 24, (1 << 24) + 1, (1 << 25) + 1, i32::MAX as u64, 1 << 31,
    u32::MAX as u64, (1 << 32) + 1, (1 << 53) + 1, u64::MAX];

fn rand_cookie(rng: &mut Rng) -> (SetCookie, Value) {
    let name = format!("c{}", rng.below(1000));
    let mut value = rand_token(rng, 12).replace([' ', ';', ',', ':'], "x");
    if rng.chance(1, 4) { value.push('='); }
    let mut attrs: Vec<&str> = vec![];
    let mut c = SetCookie::new(&name, &value);
    // lifetimes: boundary values, or uniformly random among the numbers of a random bit length 1..64
    let secs: u64 = if rng.chance(1, 3) { *rng.pick(&MAX_AGES) } else { let bits = rng.range(1, 64); let x = rng.next_u64() >> (64 - bits); x | (1u64 << (bits - 1)) | (rng.next_u64() & 1) };
    let millis: u32 = *rng.pick(&[0, 0, 1, 250, 499, 500, 750, 999]);
    let ss = *rng.pick(&["Strict", "Lax", "None"]);
    let path = *rng.pick(&["/p", "/a b", "/q=1", "/"]);
    let domain = *rng.pick(&["example.org", ".example.org", "a=b.example"]);
    let expires = *rng.pick(&["Thu, 01 Jan 2026 00:00:00 GMT", "Fri, 31 Dec 9999 23:59:59 GMT"]);
    if rng.chance(1, 2) { c = c.with_path(path); attrs.push("Path"); }
    if rng.chance(1, 2) { c = c.with_http_only(true); attrs.push("HttpOnly"); }
    if rng.chance(2, 3) { c = c.with_max_age(Duration::new(secs, millis * 1_000_000)); attrs.push("Max-Age"); }
    if rng.chance(1, 2) { c = c.with_domain(domain); attrs.push("Domain"); }
    if rng.chance(1, 2) { c = c.with_secure(true); attrs.push("Secure"); }
    if rng.chance(1, 2) { c = c.with_expires(expires); attrs.push("Expires"); }
    if rng.chance(1, 2) {
        c = c.with_same_site(match ss { "Strict" => SameSite::Strict, "Lax" => SameSite::Lax, _ => SameSite::None });
        attrs.push("SameSite");
    }
    let h: Header = c.clone().into();
    let j = json!({"name": name, "value": value, "attrs": attrs, "expires": expires, "maxage": secs.to_string(), "millis": millis,
        "domain": domain, "path": path, "samesite": ss, "got": h.value});
    (c, j)
}

fn lh(b: &[u8]) -> Value {
    json!([b.len(), format!("{:016x}", fnv64(b))])
}
fn ascii_safe(b: &[u8]) -> bool {
    b.iter().all(|c| (0x20..0x7f).contains(c) || *c == b'\r' || *c == b'\n' || *c == b'\t')
}

fn random(n: usize, maxbody: usize) {
    let mut rng = Rng::from_env();
    for i in 0..n {
        let small = i % 4 == 3; // every 4th case is small enough for TLC to parse the bytes themselves
        let code = *rng.pick(&ALL_CODES);
        let version = if rng.chance(1, 5) { "HTTP/1.0" } else { "HTTP/1.1" };
        // 0..40 fields; two cases in five have 33..48 (a sort that is not stable only shows above 32 fields)
        let nh = if small { rng.below(4) } else if rng.chance(2, 5) { rng.range(33, 48) } else { rng.below(41) };
        let dup_share = rng.range(2, 4); // 1 in dup_share plain fields is an x-dup
        let body: Vec<u8> = if bodiless(code) { vec![] } else if small {
            let k = rng.below(12);
            (0..k).map(|_| *rng.pick(b"ab\r\n0:; Z")).collect()
        } else {
            match rng.below(5) { 0 => vec![], 1 => { let k = rng.below(64); rng.bytes(k) } 2 => rng.bytes(maxbody), _ => { let k = rng.below(maxbody + 1); rng.bytes(k) } }
        };
        if i % 2 == 0 {
            // ---- a response built through the public API, serialised, and parsed back
            let mut resp = Response::empty(status_of(code).unwrap());
            resp.version = version.to_string();
            let mut headers: Vec<(String, String)> = vec![];
            let mut cookies: Vec<Value> = vec![];
            for _ in 0..nh {
                if rng.chance(1, 4) {
                    let (c, j) = rand_cookie(&mut rng);
                    headers.push(("Set-Cookie".into(), j["got"].as_str().unwrap().to_string()));
                    cookies.push(j);
                    resp = resp.with_cookie(c);
                } else {
                    let name = if rng.chance(1, dup_share) { "x-dup" } else { *rng.pick(&NAMES) };
                    let value = rand_token(&mut rng, 24);
                    headers.push((name.to_string(), value.clone()));
                    resp = resp.with_header(name, value);
                }
            }
            if let Some(name) = forced_name(i) {
                let value = rand_value(&mut rng, 24);
                headers.push((name.clone(), value.clone()));
                resp = resp.with_header(name.as_str(), value);
            }
            resp = resp.with_bytes(&body);
            let with_cl = rng.chance(3, 4);
            if with_cl {
                headers.push(("Content-Length".into(), body.len().to_string()));
                resp = resp.with_header(HeaderType::ContentLength, body.len().to_string());
            }
            let bytes: Vec<u8> = match std::panic::catch_unwind(move || Vec::<u8>::from(resp)) { Ok(b) => b, Err(_) => b"PANIC".to_vec() };
            let c = classes(&bytes);
            let body_part: &[u8] = if c.rest.len() >= body.len() { &c.rest[..body.len()] } else { &c.rest[..] };
            let tail: &[u8] = if c.rest.len() >= body.len() { &c.rest[body.len()..] } else { &[] };
            let cuts: Vec<usize> = if rng.chance(1, 3) || bytes.len() < 2 { vec![] } else { let k = rng.range(1, 8); let mut c: Vec<usize> = (0..k).map(|_| rng.range(1, bytes.len() - 1)).collect(); c.sort_unstable(); c.dedup(); c };
            let p = parse_with(&bytes, &cuts);
            let wire_ok = small && ascii_safe(&bytes);
            out_line(&json!({"k": "ser", "r": {"version": version, "code": code, "headers": headers_json(&headers), "body": lh(&body), "withcl": with_cl},
                "cookies": cookies,
                "got": {"status_line": c.status_line, "hlines": c.hlines, "blank": c.blank, "body": lh(body_part), "tail": String::from_utf8_lossy(tail)},
                "haswire": wire_ok, "wire": if wire_ok { String::from_utf8_lossy(&bytes).to_string() } else { String::new() },
                "rbody": if wire_ok { String::from_utf8_lossy(&body).to_string() } else { String::new() },
                "parsed": {"res": p.res, "version": p.version, "code": p.code, "headers": headers_json(&p.headers), "body": lh(&p.body), "over": p.over}}));
        } else {
            // ---- a conforming server's message, parsed by the real parser under a random segmentation
            let registered: &str = status_of(code).unwrap().into();
            let phrase = registered.to_string();
            let mut headers: Vec<(String, String)> = vec![];
            for _ in 0..nh {
                let name = if rng.chance(1, 3) { "X-Dup" } else if rng.chance(1, 5) { "Set-Cookie" } else { *rng.pick(&NAMES) };
                headers.push((name.to_string(), rand_value(&mut rng, 24)));
            }
            if let Some(name) = forced_name(i) {
                let at = rng.below(headers.len() + 1);
                headers.insert(at, (name, rand_token(&mut rng, 24)));
            }
            let framing = if bodiless(code) { "none" } else if version == "HTTP/1.1" && rng.chance(1, 2) { "chunked" } else { "cl" };
            let fpos = rng.below(headers.len() + 1);
            match framing {
                "chunked" => headers.insert(fpos, ("Transfer-Encoding".into(), "chunked".into())),
                "cl" => headers.insert(fpos, ("Content-Length".into(), body.len().to_string())),
                _ => {}
            }
            let case = rng.below(3);
            let ows = *rng.pick(&[" ", "", "  ", " \t"]);
            let mut wire: Vec<u8> = format!("{} {} {}\r\n", version, code, phrase).into_bytes();
            for (n, v) in &headers {
                let nn = match case { 0 => n.clone(), 1 => n.to_ascii_lowercase(), _ => n.to_ascii_uppercase() };
                wire.extend(format!("{}:{}{}\r\n", nn, ows, v).as_bytes());
            }
            wire.extend(b"\r\n");
            let mut sizes: Vec<usize> = vec![];
            let mut sizelines: Vec<String> = vec![];
            if framing == "chunked" {
                let mut left = body.len();
                let mut off = 0;
                while left > 0 {
                    let k = match rng.below(4) { 0 => 1, 1 => rng.range(1, 17.min(left)), 2 => rng.range(1, left), _ => rng.range(1, 4096.min(left)) }.min(left);
                    let sl = match rng.below(3) { 0 => format!("{:x}", k), 1 => format!("{:X}", k), _ => format!("0{:x}", k) };
                    wire.extend(sl.as_bytes());
                    wire.extend(b"\r\n");
                    wire.extend(&body[off..off + k]);
                    wire.extend(b"\r\n");
                    sizes.push(k);
                    sizelines.push(sl);
                    off += k;
                    left -= k;
                }
                wire.extend(b"0\r\n\r\n");
                sizes.push(0);
                sizelines.push("0".into());
            } else {
                wire.extend(&body);
            }
            let cuts: Vec<usize> = match rng.below(4) {
                0 => vec![],
                1 if wire.len() <= 4096 => (1..wire.len()).collect(),
                _ => { let k = rng.range(1, 12); let mut c: Vec<usize> = (0..k).map(|_| rng.range(1, wire.len() - 1)).collect(); c.sort_unstable(); c.dedup(); c }
            };
            let p = parse_with(&wire, &cuts);
            let wire_ok = small && ascii_safe(&wire);
            out_line(&json!({"k": "parse", "sent": {"version": version, "code": code, "phrase": phrase, "headers": headers_json(&headers), "framing": framing,
                    "sizes": sizes, "sizelines": sizelines, "body": lh(&body)},
                "haswire": wire_ok, "wire": if wire_ok { String::from_utf8_lossy(&wire).to_string() } else { String::new() },
                "gbody": if wire_ok { String::from_utf8_lossy(&p.body).to_string() } else { String::new() },
                "nsegments": cuts.len() + 1,
                "got": {"res": p.res, "version": p.version, "code": p.code, "headers": headers_json(&p.headers), "body": lh(&p.body), "over": p.over, "all": p.consumed == wire.len()}}));
        }
    }
}

// ------------------------------------------------------------------------------------------------
// the client against a scripted loopback server

#[derive(Clone, Debug)]
struct Entry {
    code: u16,
    location: String,
    framing: String,
    id: u64,
    body: Vec<u8>,
}
#[derive(Default)]
struct ServerState {
    script: HashMap<(String, String), Entry>,
    // a STATEFUL server (behaviours whose chain comes back to a URL it has been at: /h0 -> /h1 -> /h0 -> 200): the answers of a
    // URL in the order they are to be given, the last one repeating; looked up before `script`
    seq: HashMap<(String, String), Vec<Entry>>,
    served: HashMap<(String, String), usize>,
    log: Vec<Value>,
    seg: usize,     // 0: one write, 1: byte by byte (small messages), 2: a few random segments
    seed: u64,
    errors: Vec<String>,
}

fn phrase_for(code: u16) -> &'static str {
    match code { 200 => "OK", 201 => "Created", 301 => "Moved Permanently", 302 => "Found", 303 => "See Other", 304 => "Not Modified",
        307 => "Temporary Redirect", 404 => "Not Found", 500 => "Internal Server Error", _ => "Status" }
}

fn render_entry(e: &Entry, rng: &mut Rng) -> Vec<u8> {
    let mut w: Vec<u8> = format!("HTTP/1.1 {} {}\r\nX-Hop: {}\r\n", e.code, phrase_for(e.code), e.id).into_bytes();
    if !e.location.is_empty() {
        w.extend(format!("Location: {}\r\n", e.location).as_bytes());
    }
    match e.framing.as_str() {
        "cl" => {
            w.extend(format!("Content-Length: {}\r\n\r\n", e.body.len()).as_bytes());
            w.extend(&e.body);
        }
        "chunked" => {
            w.extend(b"Transfer-Encoding: chunked\r\n\r\n");
            let mut off = 0;
            while off < e.body.len() {
                let left = e.body.len() - off;
                let k = if rng.chance(1, 3) { left } else { rng.range(1, left.min(5000)) };
                w.extend(if rng.chance(1, 2) { format!("{:x}\r\n", k) } else { format!("{:X}\r\n", k) }.as_bytes());
                w.extend(&e.body[off..off + k]);
                w.extend(b"\r\n");
                off += k;
            }
            w.extend(b"0\r\n\r\n");
        }
        _ => w.extend(b"\r\n"),
    }
    w
}

fn serve(mut s: TcpStream, host: &str, st: &Arc<Mutex<ServerState>>) {
    let _ = s.set_read_timeout(Some(Duration::from_secs(5)));
    let _ = s.set_nodelay(true);
    let mut req: Vec<u8> = vec![];
    let mut b = [0u8; 2048];
    while !req.windows(4).any(|w| w == b"\r\n\r\n") {
        match s.read(&mut b) {
            Ok(0) | Err(_) => break,
            Ok(n) => req.extend(&b[..n]),
        }
    }
    let text = String::from_utf8_lossy(&req).to_string();
    let target = text.split(' ').nth(1).unwrap_or("").to_string();
    let path = target.split('?').next().unwrap_or("").to_string();
    let (wire, seg, unframed) = {
        let mut g = st.lock().unwrap();
        let key = (host.to_string(), path.clone());
        let k = { let c = g.served.entry(key.clone()).or_insert(0); *c += 1; *c - 1 };
        let e = g.seq.get(&key).and_then(|v| v.get(k.min(v.len().saturating_sub(1))).cloned())
            .or_else(|| g.script.get(&key).cloned()).unwrap_or(Entry { code: 404, location: String::new(), framing: "cl".into(), id: 1000, body: b"lost".to_vec() });
        g.log.push(json!({"ev": "Req", "host": host, "path": path}));
        g.log.push(json!({"ev": "Resp", "host": host, "path": path, "code": e.code, "location": e.location, "id": e.id}));
        if !text.starts_with("GET ") { g.errors.push(format!("request is not a GET: {:?}", text.lines().next())); }
        let mut rng = Rng::new(g.seed ^ e.id.wrapping_mul(0x9E37) ^ fnv64(path.as_bytes()));
        (render_entry(&e, &mut rng), g.seg, e.framing == "none")
    };
    let mut rng = Rng::new(fnv64(&wire) ^ seg as u64);
    let r = match seg {
        1 if wire.len() <= 600 => wire.iter().try_for_each(|c| s.write_all(&[*c]).and_then(|_| s.flush())),
        2 if wire.len() > 2 => {
            let mut cuts: Vec<usize> = (0..rng.range(1, 4)).map(|_| rng.range(1, wire.len() - 1)).collect();
            cuts.sort_unstable();
            cuts.push(wire.len());
            let mut from = 0;
            cuts.iter().try_for_each(|c| { let r = s.write_all(&wire[from..*c]).and_then(|_| s.flush()); from = *c; std::thread::yield_now(); r })
        }
        _ => s.write_all(&wire),
    };
    if r.is_err() {
        st.lock().unwrap().errors.push("write to the client failed".into());
    }
    // a response without framing header is delimited by closing (a client may legitimately read up to the EOF)
    if unframed {
        let _ = s.shutdown(std::net::Shutdown::Write);
    }
    // otherwise a keep-alive server: the connection stays open until the client has what it wants and closes
    let mut sink = [0u8; 256];
    loop {
        match s.read(&mut sink) {
            Ok(0) => break,
            Ok(_) => continue,
            Err(_) => {
                st.lock().unwrap().errors.push("client did not close the connection within 5 s of the response".into());
                break;
            }
        }
    }
}

fn start_servers() -> Result<Arc<Mutex<ServerState>>, String> {
    let st = Arc::new(Mutex::new(ServerState::default()));
    // 127.0.0.12 / 127.0.0.21: hosts whose names have another host's name as a proper prefix (a client that compares
    // authorities by string prefix confuses them; added after the seeded `C07-r5-...-same-origin-shortcut` was missed)
    for host in ["127.0.0.1", "127.0.0.2", "127.0.0.12", "127.0.0.21"] {
        // the client can only address port 80 (parse_url appends ":80"); another check may hold it for a moment
        let wait_s: u64 = std::env::var("VERIF_PORT80_WAIT").ok().and_then(|s| s.parse().ok()).unwrap_or(40);
        let t0 = std::time::Instant::now();
        let l = loop {
            match TcpListener::bind((host, 80)) {
                Ok(l) => break l,
                Err(e) if e.kind() == io::ErrorKind::AddrInUse && t0.elapsed().as_secs() < wait_s => std::thread::sleep(Duration::from_millis(250)),
                Err(e) => return Err(format!("cannot bind {}:80: {}", host, e)),
            }
        };
        let st2 = st.clone();
        std::thread::spawn(move || {
            for c in l.incoming().flatten() {
                let st3 = st2.clone();
                // one thread per connection: a client that (wrongly) opened two at once must not deadlock the server
                std::thread::spawn(move || serve(c, host, &st3));
            }
        });
    }
    Ok(st)
}

fn body_for(id: u64, is_final: bool, rng: &mut Rng, big: bool) -> Vec<u8> {
    if !is_final {
        return format!("hop {} says: look elsewhere\r\n", id).into_bytes();
    }
    let n = if big { 65536 } else { rng.below(300) };
    let mut b = rng.bytes(n);
    b.extend(format!("<final {}>", id).as_bytes());
    b
}

struct Outcome {
    res: String,
    code: u16,
    location: String,
    id: String,
    body: Vec<u8>,
    cl: String,
}

fn run_client(url: &str, follow: bool) -> Outcome {
    let url = url.to_string();
    let r = std::panic::catch_unwind(move || {
        let mut c = Client::new();
        c.get(&url).map(|rq| rq.with_redirects(follow)).and_then(|rq| rq.send()).map_err(|e| e.to_string())
    });
    match r {
        Err(_) => Outcome { res: "panic".into(), code: 0, location: String::new(), id: String::new(), body: vec![], cl: String::new() },
        Ok(Err(e)) => Outcome { res: format!("err: {}", e), code: 0, location: String::new(), id: String::new(), body: vec![], cl: String::new() },
        Ok(Ok(resp)) => Outcome {
            res: "ok".into(),
            code: resp.status_code.into(),
            location: resp.headers.get(&HeaderType::Location).unwrap_or("").to_string(),
            id: resp.headers.get("X-Hop").unwrap_or("").to_string(),
            cl: resp.headers.get(&HeaderType::ContentLength).unwrap_or("").to_string(),
            body: resp.body,
        },
    }
}

fn client_replay(level: usize) {
    let st = match start_servers() {
        Ok(s) => s,
        Err(e) => {
            out_line(&json!({"summary": true, "available": false, "reason": e}));
            return;
        }
    };
    let mut rng = Rng::from_env();
    let (mut n, mut evals, mut mism, mut nontrivial, mut conns) = (0u64, 0u64, 0u64, 0u64, 0u64);
    let mut followed_optional = 0u64;
    let mut first: Vec<Value> = vec![];
    let mut samples: Vec<Value> = vec![];
    for line in stdin_lines() {
        let v: Value = match serde_json::from_str(&line) { Ok(v) => v, Err(_) => continue };
        if v["k"] != "client" { continue; }
        n += 1;
        let script = v["script"].as_array().unwrap();
        let follow = v["follow"].as_bool().unwrap();
        let exp = &v["exp"];
        if script.len() >= 3 { nontrivial += 1; }
        let segs: &[usize] = if level >= 2 && script.len() <= 3 { &[0, 1, 2] } else if n % 7 == 0 { &[2] } else { &[0] };
        for &seg in segs {
            evals += 1;
            let mut entries: HashMap<(String, String), Entry> = HashMap::new();
            let mut seqs: HashMap<(String, String), Vec<Entry>> = HashMap::new();
            let mut bodies: HashMap<u64, Vec<u8>> = HashMap::new();
            let last = script.len() - 1;
            for (i, e) in script.iter().enumerate() {
                let id = e["id"].as_u64().unwrap();
                let framing = e["framing"].as_str().unwrap().to_string();
                let body = if framing == "none" { vec![] } else { body_for(id, i == last, &mut rng, level >= 2 && i == last && n % 50 == 0) };
                bodies.insert(id, body.clone());
                let key = (e["host"].as_str().unwrap().to_string(), e["path"].as_str().unwrap().to_string());
                let ent = Entry { code: e["code"].as_u64().unwrap() as u16, location: e["location"].as_str().unwrap().to_string(), framing, id, body };
                seqs.entry(key.clone()).or_default().push(ent.clone());
                entries.insert(key, ent);
            }
            // the trap a non-followed Location points to
            entries.insert(("127.0.0.1".into(), "/h99".into()), Entry { code: 200, location: String::new(), framing: "cl".into(), id: 999, body: b"trap".to_vec() });
            entries.insert(("127.0.0.2".into(), "/h99".into()), Entry { code: 200, location: String::new(), framing: "cl".into(), id: 999, body: b"trap".to_vec() });
            {
                let mut g = st.lock().unwrap();
                g.script = entries;
                g.seq = seqs;
                g.served.clear();
                g.log.clear();
                g.errors.clear();
                g.seg = seg;
                g.seed = rng.next_u64();
            }
            let url = format!("http://{}{}", script[0]["host"].as_str().unwrap(), script[0]["path"].as_str().unwrap());
            let o = run_client(&url, follow);
            let (log, errors) = { let g = st.lock().unwrap(); (g.log.clone(), g.errors.clone()) };
            conns += (log.len() / 2) as u64;
            let e_id = exp["id"].as_u64().unwrap();
            let e_body = bodies.get(&e_id).cloned().unwrap_or_default();
            let ok = o.res == "ok" && o.code as u64 == exp["code"].as_u64().unwrap() && o.location == exp["location"].as_str().unwrap()
                && o.id == e_id.to_string() && o.body == e_body
                && (exp["framing"] == "none" || o.cl == e_body.len().to_string());
            // `errors` (server-side notes: write failed, client slow to close) are reported with a mismatch but are
            // not observables of the property and never make one
            let optional = follow && [300u64, 303, 305].contains(&exp["code"].as_u64().unwrap()) && !exp["location"].as_str().unwrap().is_empty()
                && o.res == "ok" && o.code == 200 && o.id == "999" && o.body == b"trap";
            if !ok && optional {
                // the model (client.rs as it is) returns the 303; the statement ("ends at the final non-redirect response")
                // equally allows following it to where it points
                followed_optional += 1;
            } else if !ok {
                mism += 1;
                if first.len() < 20 {
                    first.push(json!({"kind": "client", "follow": follow, "script": script, "expected": exp, "segmentation": seg,
                        "got": {"res": o.res, "code": o.code, "location": o.location, "x_hop": o.id, "content_length": o.cl, "body": show(&o.body), "body_expected": show(&e_body)},
                        "requests_seen_by_server": log, "server_notes": errors}));
                }
                break;
            } else if samples.len() < 3 && script.len() == 4 && n % 5 == 0 {
                samples.push(json!({"chain": script, "returned": exp}));
            }
        }
    }
    out_line(&json!({"summary": true, "available": true, "behaviours": n, "evaluations": evals, "mismatches": mism, "first": first,
        "nontrivial": nontrivial, "connections": conns, "samples": samples, "followed_optional_3xx": followed_optional}));
}

fn client_random(n: usize) {
    let st = match start_servers() {
        Ok(s) => s,
        Err(e) => {
            out_line(&json!({"ev": "Unavailable", "reason": e}));
            return;
        }
    };
    let mut rng = Rng::from_env();
    let hosts = ["127.0.0.1", "127.0.0.2", "127.0.0.12", "127.0.0.21"];
    for run in 0..n {
        // a random script: hops until a non-followed status; Location relative or absolute to either host
        let len = rng.below(6); // the property quantifies over chains of 0..5 redirects (a client may cap longer ones)
        let follow = rng.chance(7, 8);
        let mut entries: HashMap<(String, String), Entry> = HashMap::new();
        let mut bodies: HashMap<u64, Vec<u8>> = HashMap::new();
        let mut host = *rng.pick(&hosts);
        let first = (host.to_string(), format!("/r{}/0", run));
        for i in 0..=len {
            let path = format!("/r{}/{}", run, i);
            let is_final = i == len;
            let code: u16 = if is_final { *rng.pick(&[200, 200, 201, 206, 303, 300, 304, 305, 400, 404, 410, 500, 503]) } else { *rng.pick(&[301, 302, 307]) };
            let next_path = format!("/r{}/{}", run, i + 1);
            let mut next_host = host;
            let location = if is_final {
                // a 3xx that is not followed by the code under test still says where to go (a conforming server sends Location
                // with 303/305; a client that follows it must not be failed for a script no server would play)
                if [303u16, 300, 305].contains(&code) { "/h99".to_string() } else { String::new() }
            } else if rng.chance(1, 2) {
                next_path.clone()
            } else {
                next_host = *rng.pick(&hosts);
                format!("http://{}{}", next_host, next_path)
            };
            let framing = if code == 304 { "none" } else if rng.chance(1, 2) { "chunked" } else { "cl" };
            let id = i as u64;
            let body = if framing == "none" { vec![] } else { body_for(id, is_final, &mut rng, is_final && run % 10 == 0) };
            bodies.insert(id, body.clone());
            entries.insert((host.to_string(), path), Entry { code, location, framing: framing.into(), id, body });
            host = next_host;
        }
        for h in hosts {
            entries.insert((h.to_string(), "/h99".into()), Entry { code: 200, location: String::new(), framing: "cl".into(), id: 999, body: b"trap".to_vec() });
        }
        {
            let mut g = st.lock().unwrap();
            g.script = entries;
            g.seq.clear();
            g.served.clear();
            g.log.clear();
            g.errors.clear();
            g.seg = rng.below(3);
            g.seed = rng.next_u64();
        }
        out_line(&json!({"ev": "Reset", "follow": follow, "host": first.0, "path": first.1, "code": 0, "location": "", "id": 0, "res": "", "body_ok": true}));
        let o = run_client(&format!("http://{}{}", first.0, first.1), follow);
        let (log, errors) = { let g = st.lock().unwrap(); (g.log.clone(), g.errors.clone()) };
        for e in &log {
            out_line(&json!({"ev": e["ev"], "follow": follow, "host": e["host"], "path": e["path"], "code": e.get("code").cloned().unwrap_or(json!(0)),
                "location": e.get("location").cloned().unwrap_or(json!("")), "id": e.get("id").cloned().unwrap_or(json!(0)), "res": "", "body_ok": true}));
        }
        let idn: u64 = o.id.parse().unwrap_or(7777);
        let body_ok = bodies.get(&idn).map(|b| *b == o.body).unwrap_or(idn == 999 && o.body == b"trap");
        let _ = &errors;
        out_line(&json!({"ev": "Done", "follow": follow, "host": "", "path": "", "code": o.code, "location": o.location, "id": idn, "res": o.res, "body_ok": body_ok}));
    }
}

fn main() {
    quiet_panics();
    let a: Vec<String> = std::env::args().collect();
    let num = |i: usize, d: usize| a.get(i).and_then(|s| s.parse().ok()).unwrap_or(d);
    match a.get(1).map(|s| s.as_str()) {
        Some("replay") => replay(num(2, 1)),
        Some("random") => random(num(2, 1000), num(3, 65536)),
        Some("client") => client_replay(num(2, 1)),
        Some("client-random") => client_random(num(2, 100)),
        _ => {
            eprintln!("usage: httpresp replay|random|client|client-random ...");
            std::process::exit(2)
        }
    }
}
