//! C13 conformance: humphrey_json::Value::{parse, parse_max_depth, serialize, serialize_pretty} against
//! Json8259.tla.  The oracle is always TLC: either it printed the accepted set with denotations (method A,
//! `enum`), or it validates what this program logs (method C, `docs` / `ser` -> Trace_Json8259.tla).
//!
//!   json probe                 -> {"limit": L}   largest pure-array nesting Value::parse accepts
//!   json enum <L>              stdin: TLC output of MC_Json8259 (header + one line per accepted token string)
//!                              enumerates the same space, checks accept <=> printed, value = printed denotation
//!   json docs <n> <L> <maxlen> grammar documents, systematic families, single-edit mutants -> ndjson log
//!   json ser <n> <per> <every> random Values, serialize / serialize_pretty(0..8): all ten outputs are re-parsed here;
//!                              of every <every>-th value <per> outputs are logged (ndjson) for TLC; failures always
//!   json idx <n>               get / get_mut / Index / IndexMut on parsed documents -> ndjson log (extension, not part of C13)
//!   json log <L>               stdin: {"s":[cps]} lines -> one doc record each (replay, attribution of mismatches)
use hv::util::*;
use humphrey_json::Value;
use serde_json::{json, Value as J};
use std::collections::HashMap;
use std::str::FromStr;
use std::sync::atomic::{AtomicBool, AtomicU64, Ordering};
use std::sync::{Arc, Mutex};

// ------------------------------------------------------------------------------------------------
// calling the code under test
// ------------------------------------------------------------------------------------------------
// A call that does not return is a finding too (and must not become a tool time-out): every thread publishes what
// it is about to hand to the code under test; a watchdog reports the input of a call that has not returned after
// HANG_SECS seconds (far beyond any load effect: a call normally takes microseconds) and ends the process with code 3.
const HANG_SECS: u64 = 120;
fn hang_secs() -> u64 { std::env::var("VERIF_HANG_SECS").ok().and_then(|s| s.parse().ok()).unwrap_or(HANG_SECS) }

struct Slot { seq: AtomicU64, busy: AtomicBool, what: Mutex<(String, String)> }
static SLOTS: Mutex<Vec<Arc<Slot>>> = Mutex::new(Vec::new());
thread_local! {
    static SLOT: Arc<Slot> = {
        let s = Arc::new(Slot { seq: AtomicU64::new(0), busy: AtomicBool::new(false), what: Mutex::new((String::new(), String::new())) });
        SLOTS.lock().unwrap().push(s.clone());
        s
    };
}

fn enter(kind: &str, text: &str) {
    SLOT.with(|s| {
        { let mut w = s.what.lock().unwrap(); w.0.clear(); w.0.push_str(kind); w.1.clear(); w.1.push_str(text); }
        s.seq.fetch_add(1, Ordering::SeqCst);
        s.busy.store(true, Ordering::SeqCst);
    });
}

fn leave() {
    SLOT.with(|s| s.busy.store(false, Ordering::SeqCst));
}

fn start_watchdog() {
    std::thread::spawn(|| {
        let mut seen: Vec<(u64, u64)> = vec![];          // (seq, seconds it has been busy with that seq)
        loop {
            std::thread::sleep(std::time::Duration::from_secs(1));
            let slots: Vec<Arc<Slot>> = SLOTS.lock().unwrap().clone();
            seen.resize(slots.len(), (0, 0));
            for (i, s) in slots.iter().enumerate() {
                let q = s.seq.load(Ordering::SeqCst);
                if s.busy.load(Ordering::SeqCst) && seen[i].0 == q { seen[i].1 += 1; } else { seen[i] = (q, 0); }
                if seen[i].1 >= hang_secs() {
                    let w = s.what.lock().unwrap().clone();
                    out_line(&json!({"k": "hang", "call": w.0, "in": cps(&w.1), "seconds": hang_secs()}));
                    std::process::exit(3);
                }
            }
        }
    });
}

fn call_parse(s: &str, d: Option<usize>) -> Result<Value, String> {
    let s2 = s.to_string();
    enter("parse", s);
    if s == "<<self-test: hang>>" && std::env::var("VERIF_HANG_SELFTEST").is_ok() { loop { std::thread::sleep(std::time::Duration::from_secs(1)); } }
    let r = std::panic::catch_unwind(move || match d {
        None => Value::parse(&s2),
        Some(d) => Value::parse_max_depth(&s2, d),
    });
    leave();
    match r {
        Ok(Ok(v)) => Ok(v),
        Ok(Err(e)) => Err(format!("{}", e)),
        Err(_) => Err("panic".to_string()),
    }
}

fn cps(s: &str) -> Vec<u32> {
    s.chars().map(|c| c as u32).collect()
}

fn from_cps(v: &[u32]) -> String {
    v.iter().map(|&c| char::from_u32(c).unwrap_or('\u{fffd}')).collect()
}

/// shortest round-trip decimal of a finite f64 as (digits, exponent): value = digits * 10^exponent
fn decimal(x: f64) -> (Vec<u8>, i64) {
    if x == 0.0 {
        return (vec![], 0);
    }
    let s = format!("{:e}", x.abs());
    let (m, e) = s.split_once('e').unwrap();
    let e: i64 = e.parse().unwrap();
    let mut digits: Vec<u8> = m.bytes().filter(|b| b.is_ascii_digit()).map(|b| b - b'0').collect();
    let frac = digits.len() as i64 - 1;
    while digits.last() == Some(&0) {
        digits.pop();
    }
    let stripped = (frac + 1) - digits.len() as i64;
    (digits, e - frac + stripped)
}

/// the value in the shape Trace_Json8259 expects: the nodes of the tree in preorder (a flat list, because
/// the JSON reader used by TLC refuses documents nested deeper than 255)
fn flat_into(v: &Value, out: &mut Vec<J>) {
    match v {
        Value::Null => out.push(json!({"t": "null"})),
        Value::Bool(b) => out.push(json!({"t": "bool", "b": b})),
        Value::Number(n) => out.push(
            if n.is_nan() {
                json!({"t": "nan"})
            } else if n.is_infinite() {
                json!({"t": "num", "neg": *n < 0.0, "dg": [], "ex": 0, "inf": true})
            } else {
                let (dg, ex) = decimal(*n);
                json!({"t": "num", "neg": n.is_sign_negative(), "dg": dg, "ex": ex, "inf": false})
            }),
        Value::String(s) => out.push(json!({"t": "str", "s": cps(s)})),
        Value::Array(a) => {
            out.push(json!({"t": "arr", "n": a.len()}));
            for x in a { flat_into(x, out); }
        }
        Value::Object(o) => {
            out.push(json!({"t": "obj", "n": o.len(), "k": o.iter().map(|(k, _)| cps(k)).collect::<Vec<_>>()}));
            for (_, x) in o { flat_into(x, out); }
        }
    }
}

fn tree(v: &Value) -> J {
    let mut out = vec![];
    flat_into(v, &mut out);
    J::Array(out)
}

/// bit-exact equality (Value's PartialEq compares numbers with ==, which identifies 0 and -0)
fn identical(a: &Value, b: &Value) -> bool {
    match (a, b) {
        (Value::Number(x), Value::Number(y)) => x.to_bits() == y.to_bits(),
        (Value::Array(x), Value::Array(y)) => x.len() == y.len() && x.iter().zip(y).all(|(p, q)| identical(p, q)),
        (Value::Object(x), Value::Object(y)) => {
            x.len() == y.len() && x.iter().zip(y).all(|((k1, v1), (k2, v2))| k1 == k2 && identical(v1, v2))
        }
        _ => a == b,
    }
}

// ------------------------------------------------------------------------------------------------
// enum: the space TLC enumerated, against the set TLC accepted
// ------------------------------------------------------------------------------------------------
fn u32s(j: &J) -> Vec<u32> {
    j.as_array().map(|a| a.iter().map(|x| x.as_u64().unwrap_or(0) as u32).collect()).unwrap_or_default()
}

/// Does the parsed value equal the denotation printed by TLC?  `over`: set when a literal of the denotation
/// is beyond the f64 range (then the property allows rejection or an infinity).
fn same_denotation(v: &Value, d: &J, over: &mut bool) -> Result<(), String> {
    let t = d["t"].as_str().unwrap_or("");
    match (t, v) {
        ("null", Value::Null) => Ok(()),
        ("bool", Value::Bool(b)) => if Some(*b) == d["b"].as_bool() { Ok(()) } else { Err("bool".into()) },
        ("num", Value::Number(n)) => {
            let lit = from_cps(&u32s(&d["n"]));
            let exp = f64::from_str(&lit).map_err(|_| format!("literal {} not convertible", lit))?;
            if exp.is_infinite() {
                *over = true;
                // beyond the f64 range: an infinity or the largest finite value of that sign (or rejection) are all accepted
                if (n.is_infinite() || n.abs() == f64::MAX) && (*n < 0.0) == (exp < 0.0) { Ok(()) } else { Err(format!("number {} for literal {}", n, lit)) }
            } else if *n == exp { Ok(()) } else { Err(format!("number {:e} for literal {}", n, lit)) }
        }
        ("str", Value::String(s)) => if cps(s) == u32s(&d["s"]) { Ok(()) } else { Err(format!("string {:?}", s)) },
        ("arr", Value::Array(a)) => {
            let da = d["a"].as_array().cloned().unwrap_or_default();
            if da.len() != a.len() { return Err("array length".into()); }
            for (x, y) in a.iter().zip(da.iter()) { same_denotation(x, y, over)?; }
            Ok(())
        }
        ("obj", Value::Object(o)) => {
            let da = d["a"].as_array().cloned().unwrap_or_default();
            let dk = d["k"].as_array().cloned().unwrap_or_default();
            if da.len() != o.len() { return Err("member count".into()); }
            for (i, (k, x)) in o.iter().enumerate() {
                if cps(k) != u32s(&dk[i]) { return Err(format!("member {} has key {:?} (order?)", i, k)); }
                same_denotation(x, &da[i], over)?;
            }
            Ok(())
        }
        _ => Err(format!("type: denoted {} got {:?}", t, std::mem::discriminant(v))),
    }
}

fn has_overflow(d: &J) -> bool {
    match d["t"].as_str().unwrap_or("") {
        "num" => f64::from_str(&from_cps(&u32s(&d["n"]))).map(|x| x.is_infinite()).unwrap_or(false),
        "arr" | "obj" => d["a"].as_array().map(|a| a.iter().any(has_overflow)).unwrap_or(false),
        _ => false,
    }
}

struct Acc { v: J, d: usize, lone: bool }

#[derive(Default)]
struct EnumStats { strings: u64, evals: u64, accepted_seen: u64, mism: u64, first: Vec<J>, samples: Vec<J>, either: u64,
                   pm_mism: u64, pm_first: Vec<J>, dup_mism: u64, dup_first: Vec<J> }

/// does an object of the denotation repeat a name?  (RFC 8259 section 4 leaves the receiver's behaviour open: a value
/// mismatch on such a text is judged by TLC against the allowed policies instead of being counted here)
fn has_dup_keys(d: &J) -> bool {
    let kids = d["a"].as_array().map(|a| a.iter().any(has_dup_keys)).unwrap_or(false);
    match d["t"].as_str().unwrap_or("") {
        "obj" => {
            let ks: Vec<Vec<u32>> = d["k"].as_array().map(|a| a.iter().map(u32s).collect()).unwrap_or_default();
            kids || (0..ks.len()).any(|i| (0..i).any(|j| ks[i] == ks[j]))
        }
        "arr" => kids,
        _ => false,
    }
}

fn check_one(toks: &[u8], s: &str, acc: &HashMap<Vec<u8>, Acc>, limit: usize, st: &mut EnumStats) {
    st.strings += 1;
    let e = acc.get(toks);
    if e.is_some() { st.accepted_seen += 1; }
    let either = e.map_or(false, |a| a.lone || has_overflow(&a.v));
    if either { st.either += 1; }
    for d in [None, Some(0usize), Some(1), Some(2), Some(3)] {
        st.evals += 1;
        let lim = d.unwrap_or(limit);
        let expect_ok = e.map_or(false, |a| a.d <= lim);
        let got = call_parse(s, d);
        let call = match d { None => "parse".to_string(), Some(k) => format!("parse_max_depth({})", k) };
        let mut problem: Option<String> = None;
        match (&got, e) {
            (Ok(v), Some(a)) if expect_ok => {
                if !a.lone {
                    let mut over = false;
                    if let Err(why) = same_denotation(v, &a.v, &mut over) { problem = Some(format!("value: {}", why)); }
                }
            }
            (Ok(_), _) => problem = Some(if e.is_some() { "accepted beyond the depth limit".into() } else { "accepted, not JSON".into() }),
            (Err(err), Some(_)) if expect_ok => {
                if !either { problem = Some(format!("rejected ({}), is JSON", err)); }
            }
            (Err(_), _) => {}
        }
        if let Some(p) = problem {
            let rec = json!({"text": s, "cps": cps(s), "tokens": toks, "call": call, "problem": p,
                    "spec": e.map(|a| json!({"json": true, "depth": a.d, "denotes": a.v})).unwrap_or(json!({"json": false})),
                    "got": match &got { Ok(v) => json!({"ok": v.serialize()}), Err(x) => json!({"err": x}) }});
            if d.is_some() {
                // parse_max_depth is not named by the property (only Value::parse is): reported as drift, never gating
                st.pm_mism += 1;
                if st.pm_first.len() < 10 { st.pm_first.push(rec); }
            } else if p.starts_with("value:") && e.map_or(false, |a| has_dup_keys(&a.v)) {
                st.dup_mism += 1;
                if st.dup_first.len() < 30 { st.dup_first.push(rec); }
            } else {
                st.mism += 1;
                if st.first.len() < 40 { st.first.push(rec); }
            }
        } else if d.is_none() && st.samples.len() < 4 && e.is_some() && toks.len() >= 4 && (st.accepted_seen % 97 == 3) {
            st.samples.push(json!({"text": s, "accepted": got.is_ok(), "depth": e.unwrap().d}));
        }
    }
}

fn enumerate(prefix: &mut Vec<u8>, text: &mut String, alpha: &[String], maxlen: usize, acc: &HashMap<Vec<u8>, Acc>, limit: usize, st: &mut EnumStats) {
    check_one(prefix, text, acc, limit, st);
    if prefix.len() == maxlen { return; }
    for (i, t) in alpha.iter().enumerate() {
        prefix.push(i as u8 + 1);
        let l = text.len();
        text.push_str(t);
        enumerate(prefix, text, alpha, maxlen, acc, limit, st);
        text.truncate(l);
        prefix.pop();
    }
}

fn do_enum(limit: usize) {
    let mut alpha: Vec<String> = vec![];
    let mut maxlen = 0usize;
    let mut acc: HashMap<Vec<u8>, Acc> = HashMap::new();
    let mut nontrivial = 0u64;
    for line in stdin_lines() {
        let v: J = match serde_json::from_str(&line) { Ok(v) => v, Err(_) => continue };
        if v.get("header").is_some() {
            alpha = v["alphabet"].as_array().unwrap().iter().map(|t| from_cps(&u32s(t))).collect();
            maxlen = v["maxlen"].as_u64().unwrap() as usize;
        } else if v.get("t").is_some() {
            let toks: Vec<u8> = v["t"].as_array().unwrap().iter().map(|x| x.as_u64().unwrap() as u8).collect();
            if toks.len() >= 2 { nontrivial += 1; }
            acc.insert(toks, Acc { v: v["v"].clone(), d: v["d"].as_u64().unwrap() as usize, lone: v["lone"].as_bool().unwrap() });
        }
    }
    if alpha.is_empty() { eprintln!("no header line"); std::process::exit(2); }
    // one thread per first token (plus the empty string)
    let mut total = EnumStats::default();
    check_one(&[], "", &acc, limit, &mut total);
    let results: Vec<EnumStats> = std::thread::scope(|sc| {
        let hs: Vec<_> = (0..alpha.len()).map(|i| {
            let alpha = &alpha; let acc = &acc;
            std::thread::Builder::new().stack_size(64 << 20).spawn_scoped(sc, move || {
                let mut st = EnumStats::default();
                if maxlen >= 1 {
                    let mut p = vec![i as u8 + 1];
                    let mut t = alpha[i].clone();
                    enumerate(&mut p, &mut t, alpha, maxlen, acc, limit, &mut st);
                }
                st
            }).unwrap()
        }).collect();
        hs.into_iter().map(|h| h.join().unwrap()).collect()
    });
    for r in results {
        total.strings += r.strings; total.evals += r.evals; total.accepted_seen += r.accepted_seen; total.mism += r.mism; total.either += r.either;
        total.pm_mism += r.pm_mism; total.dup_mism += r.dup_mism;
        for x in r.pm_first { if total.pm_first.len() < 10 { total.pm_first.push(x); } }
        for x in r.dup_first { if total.dup_first.len() < 30 { total.dup_first.push(x); } }
        for x in r.first { if total.first.len() < 40 { total.first.push(x); } }
        for x in r.samples { if total.samples.len() < 6 { total.samples.push(x); } }
    }
    out_line(&json!({"summary": true, "alphabet": alpha, "maxlen": maxlen, "strings": total.strings, "evaluations": total.evals,
        "accepted_by_spec": acc.len(), "accepted_seen": total.accepted_seen, "nontrivial": nontrivial, "either": total.either,
        "mismatches": total.mism, "first": total.first, "samples": total.samples,
        "pm_mismatches": total.pm_mism, "pm_first": total.pm_first, "dup_value_mismatches": total.dup_mism, "dup_first": total.dup_first}));
}

// ------------------------------------------------------------------------------------------------
// docs: grammar-generated documents, systematic families, mutants -> log for Trace_Json8259
// ------------------------------------------------------------------------------------------------
fn probe_limit() -> usize {
    let mut last_ok = 0;
    for n in 0..=4096usize {
        let s = format!("{}{}", "[".repeat(n), "]".repeat(n));
        let s = if n == 0 { "0".to_string() } else { s };
        if call_parse(&s, None).is_ok() { last_ok = n; } else { break; }
    }
    last_ok
}

/// maximal runs of number characters outside string literals that start like a number, in document order
fn numeric_runs(s: &str) -> Vec<String> {
    let mut out = vec![];
    let mut run = String::new();
    let mut in_str = false;
    let mut esc = false;
    for c in s.chars() {
        if in_str {
            if esc { esc = false; } else if c == '\\' { esc = true; } else if c == '"' { in_str = false; }
            continue;
        }
        if c.is_ascii_digit() || "+-.eE".contains(c) {
            run.push(c);
        } else {
            if run.starts_with(|x: char| x == '-' || x.is_ascii_digit()) { out.push(run.clone()); }
            run.clear();
            if c == '"' { in_str = true; }
        }
    }
    if run.starts_with(|x: char| x == '-' || x.is_ascii_digit()) { out.push(run); }
    out
}

fn numbers_preorder(v: &Value, out: &mut Vec<f64>) {
    match v {
        Value::Number(n) => out.push(*n),
        Value::Array(a) => a.iter().for_each(|x| numbers_preorder(x, out)),
        Value::Object(o) => o.iter().for_each(|(_, x)| numbers_preorder(x, out)),
        _ => {}
    }
}

/// Decimal -> f64 is Rust's (trusted): every number of an accepted document must be f64::from_str of the
/// corresponding number-like run of the text.  "na" when the runs cannot be paired with the numbers.
fn number_crosscheck(s: &str, got: &Result<Value, String>) -> &'static str {
    if let Ok(v) = got {
        let mut nums = vec![];
        numbers_preorder(v, &mut nums);
        let runs = numeric_runs(s);
        if nums.is_empty() || nums.len() != runs.len() { return "na"; }
        // compared as multisets: where a member ends up when a name is repeated is not the business of this check
        // (zeros of either sign are one value; beyond the range, the largest finite value stands for the infinity)
        let norm = |x: f64| -> u64 { if x == 0.0 { 0 } else if x.abs() == f64::MAX { (f64::INFINITY * x.signum()).to_bits() } else { x.to_bits() } };
        let mut want: Vec<u64> = vec![];
        for r in &runs {
            match f64::from_str(r) { Ok(x) => want.push(norm(x)), Err(_) => return "na" }
        }
        let mut have: Vec<u64> = nums.iter().map(|n| norm(*n)).collect();
        want.sort();
        have.sort();
        return if want == have { "ok" } else { "bad" };
    }
    "na"
}

fn log_doc(s: &str, limit: usize, extra_depths: &[usize], count: &mut u64) {
    let got = call_parse(s, None);
    let mut depths: Vec<usize> = vec![0, 1, 2, 3, 5, limit.saturating_sub(1), limit, limit + 1];
    depths.extend_from_slice(extra_depths);
    depths.sort();
    depths.dedup();
    let mut first_ok: Option<Value> = got.as_ref().ok().cloned();
    let mut same = true;
    let mut pm = vec![];
    for d in depths {
        let r = call_parse(s, Some(d));
        if let Ok(v) = &r {
            match &first_ok { Some(f) => if !identical(f, v) { same = false; }, None => first_ok = Some(v.clone()) }
        }
        pm.push(json!({"d": d, "ok": r.is_ok()}));
    }
    // a very large limit and usize::MAX must behave alike (the counter must not wrap)
    let big = call_parse(s, Some(1_000_000));
    let top = call_parse(s, Some(usize::MAX));
    match (&big, &top) {
        (Ok(a), Ok(b)) => if !identical(a, b) { same = false; },
        (Err(_), Err(_)) => {}
        _ => same = false,
    }
    if let (Ok(v), Some(f)) = (&big, &first_ok) { if !identical(f, v) { same = false; } }
    pm.push(json!({"d": 1_000_000, "ok": big.is_ok()}));
    if first_ok.is_none() { first_ok = big.ok(); }
    let v = first_ok.as_ref().map(tree).unwrap_or(json!([]));
    *count += 1;
    out_line(&json!({"k": "doc", "in": cps(s), "ok": got.is_ok(), "L": limit, "pm": pm, "same": same,
                     "nx": number_crosscheck(s, &got), "v": v}));
}

/// one representative per Unicode class that Rust's char predicates, case mappings or trim treat specially
const CLASS_CHARS: [&str; 30] = ["\u{663}", "\u{ff11}", "\u{1d7d9}", "²", "½", "Ⅷ", "\u{a0}", "\u{85}", "\u{1680}", "\u{2028}", "\u{2029}", "\u{3000}",
    "\u{2003}", "ß", "İ", "ﬁ", "ǅ", "e\u{301}", "\u{7f}", "\u{80}", "\u{9f}", "\u{e000}", "\u{f8ff}", "\u{100000}", "\u{feff}", "\u{200b}", "\u{202e}",
    "\u{fffd}", "\u{ad}", "\u{1f}\u{20}"];

/// parse -> serialize / serialize_pretty -> parse for an accepted text: one "ser" record per indent (src = the text)
fn roundtrip_records(doc: &str, inds: &[i64], count: &mut u64) {
    if let Ok(v) = call_parse(doc, None) {
        for &ind in inds {
            let v2 = v.clone();
            enter("serialize", doc);
            let out = std::panic::catch_unwind(move || if ind < 0 { v2.serialize() } else { v2.serialize_pretty(ind as usize) });
            leave();
            let (text, re) = match out {
                Ok(text) => { let re = matches!(call_parse(&text, None), Ok(b) if b == v); (text, re) }
                Err(_) => ("<panic>".to_string(), false),
            };
            *count += 1;
            out_line(&json!({"k": "ser", "v": tree(&v), "ind": ind, "out": cps(&text), "re": re, "src": cps(doc)}));
        }
    }
}

const WS: [&str; 10] = ["", "", "", " ", "\n", "\t", "\r", "  ", " \n", "\r\n\t "];

fn gen_ws(rng: &mut Rng, dense: bool) -> &'static str {
    if dense { WS[rng.below(WS.len())] } else if rng.chance(1, 6) { WS[3 + rng.below(7)] } else { "" }
}

fn hex4(rng: &mut Rng, u: u32) -> String {
    let s = format!("{:04x}", u);
    s.chars().map(|c| if rng.chance(1, 2) { c.to_ascii_uppercase() } else { c }).collect()
}

fn gen_string(rng: &mut Rng, lone_ok: bool) -> String {
    let mut s = String::from("\"");
    let n = rng.below(7);
    for _ in 0..n {
        match rng.below(14) {
            0 => s.push_str(*rng.pick(&["\\\"", "\\\\", "\\/", "\\b", "\\f", "\\n", "\\r", "\\t"])),
            1 => { // BMP escape, not a surrogate
                let mut u = rng.below(0x10000) as u32;
                if (0xd800..0xe000).contains(&u) { u -= 0x800; }
                if rng.chance(1, 3) { u = *rng.pick(&[0u32, 0x1f, 0x20, 0x22, 0x5c, 0x7f, 0xd7ff, 0xe000, 0xffff, 0x41]); }
                s.push_str("\\u"); s.push_str(&hex4(rng, u));
            }
            2 => { // surrogate pair
                let hi = 0xd800 + rng.below(0x400) as u32;
                let lo = 0xdc00 + rng.below(0x400) as u32;
                let (hi, lo) = if rng.chance(1, 4) { (*rng.pick(&[0xd800u32, 0xdbff]), *rng.pick(&[0xdc00u32, 0xdfff])) } else { (hi, lo) };
                s.push_str("\\u"); s.push_str(&hex4(rng, hi)); s.push_str("\\u"); s.push_str(&hex4(rng, lo));
            }
            3 => s.push(*rng.pick(&['é', '\u{2028}', '😀', '\u{10ffff}', '\u{ffff}', '\u{7f}', '\u{80}', '\u{a0}', '\u{feff}', '\u{e000}', '\u{d7ff}'])),
            4 if lone_ok && rng.chance(1, 6) => { // unpaired surrogate escape: either outcome
                let u = 0xd800 + rng.below(0x800) as u32;
                s.push_str("\\u"); s.push_str(&hex4(rng, u));
            }
            5 => s.push(*rng.pick(&[' ', '!', '#', '[', ']', '{', '}', ':', ',', '\'', '/'])),
            _ => s.push((b'a' + rng.below(26) as u8) as char),
        }
    }
    s.push('"');
    s
}

fn gen_number(rng: &mut Rng) -> String {
    let mut s = String::new();
    if rng.chance(1, 3) { s.push('-'); }
    match rng.below(10) {
        0 => s.push('0'),
        _ => {
            s.push((b'1' + rng.below(9) as u8) as char);
            for _ in 0..rng.below(6) { s.push((b'0' + rng.below(10) as u8) as char); }
        }
    }
    if rng.chance(1, 3) {
        s.push('.');
        for _ in 0..rng.range(1, 6) { s.push((b'0' + rng.below(10) as u8) as char); }
    }
    if rng.chance(1, 3) {
        s.push(*rng.pick(&['e', 'E']));
        match rng.below(3) { 0 => s.push('+'), 1 => s.push('-'), _ => {} }
        if rng.chance(1, 5) { s.push('0'); }
        let top = if rng.chance(1, 8) { 290 } else { 25 };
        s.push_str(&format!("{}", rng.below(top)));
    }
    s
}

fn gen_value(rng: &mut Rng, depth: usize, dense: bool, lone_ok: bool, out: &mut String) {
    let k = if depth == 0 { rng.below(5) } else { rng.below(9) };
    match k {
        0 => out.push_str(*rng.pick(&["true", "false", "null"])),
        1 | 2 => out.push_str(&gen_number(rng)),
        3 | 4 => out.push_str(&gen_string(rng, lone_ok)),
        5 | 6 => {
            out.push('[');
            out.push_str(gen_ws(rng, dense));
            let n = rng.below(4);
            for i in 0..n {
                if i > 0 { out.push_str(gen_ws(rng, dense)); out.push(','); out.push_str(gen_ws(rng, dense)); }
                gen_value(rng, depth - 1, dense, lone_ok, out);
            }
            if n > 0 { out.push_str(gen_ws(rng, dense)); }
            out.push(']');
        }
        _ => {
            out.push('{');
            out.push_str(gen_ws(rng, dense));
            let n = rng.below(4);
            for i in 0..n {
                if i > 0 { out.push_str(gen_ws(rng, dense)); out.push(','); out.push_str(gen_ws(rng, dense)); }
                if rng.chance(1, 5) { out.push_str(*rng.pick(&["\"a\"", "\"\"", "\"k\""])); } else { out.push_str(&gen_string(rng, lone_ok)); }
                out.push_str(gen_ws(rng, dense)); out.push(':'); out.push_str(gen_ws(rng, dense));
                gen_value(rng, depth - 1, dense, lone_ok, out);
            }
            if n > 0 { out.push_str(gen_ws(rng, dense)); }
            out.push('}');
        }
    }
}

fn gen_doc(rng: &mut Rng, maxlen: usize) -> String {
    loop {
        let mut s = String::new();
        let dense = rng.chance(1, 3);
        s.push_str(gen_ws(rng, true));
        let dep = rng.range(0, 4);
        gen_value(rng, dep, dense, true, &mut s);
        s.push_str(gen_ws(rng, true));
        if s.chars().count() <= maxlen { return s; }
    }
}

const HOSTILE: &[&str] = &[
    "NaN", "nan", "inf", "-inf", "+inf", "Infinity", "-Infinity", "infinity", "+1", "01", "-01", ".5", "-.5", "1.", "1.e5", "1.5e", "1e+",
    "0x10", "1_0", "1f32", "0e0", "0E-0", "-0", "-0.0", "-", "--1", "+", "1e5", "1E5", "1e+05", "1e-05", "00", "0.", "0.0", "1e999", "-1e999",
    "[1e999]", "{\"a\":-1E400}", "1e-999", "1e308", "1.7976931348623157e308", "1.7976931348623159e308", "2e308", "123456789012345678901234567890", "0.1000000000000000055511151231257827",
    "9007199254740993", "4.9e-324", "2.4703282292062327e-324", "2.4703282292062328e-324", "0.30000000000000004",
    "{\"a\":1 \"b\":2}", "{\"a\":\"x\"\"b\":\"y\"}", "{\"a\":[]\"b\":[]}", "{\"a\":{}\"b\":{}}", "{\"a\":1\n\"b\":2}", "{\"a\":1,\"b\":2}", "{\"a\":1,,\"b\":2}", "{,}", "{\"a\":1,}", "{,\"a\":1}",
    "{\"a\":1,\"a\":2}", "{\"\":0}", "{\"a\"}", "{\"a\":}", "{\"a\" 1}", "{a:1}", "{'a':1}", "{1:1}", "{\"a\":1}}", "{{}}", "{[]}", "{\"a\":1]", "[1}",
    "\"\\u+041\"", "\"\\u-041\"", "\"\\u 041\"", "\"\\u0041\"", "\"\\u004\"", "\"\\u00411\"", "\"\\U0041\"", "\"\\x41\"", "\"\\a\"", "\"\\'\"", "\"\\0\"", "\"\\\n\"", "\"\\ud83d\\ude00\"",
    "\"\\ud83d\\u+e00\"", "\"\\ud800\"", "\"\\ud800\\u0041\"", "\"\\udc00\\ud800\"", "\"\\ud800\\ud800\"", "\"\\udc00\"", "\"\\ud800x\"", "\"\\ud800\\n\"", "\"\\uD83D\\uDE00\\uDE00\"",
    "'a'", "\"a", "a\"", "\"", "\"\"", "\"\"\"", "\"\\\"", "\"\\\\\"", "\"\t\"", "\"\n\"", "\"\u{0}\"", "\"\u{1f}\"", "\"\u{7f}\"", "\"\u{80}\"", "\"\u{2028}\"", "\"/\"", "\"\\/\"",
    "[1,]", "[,1]", "[,]", "[1,,2]", "[1 2]", "[1,2", "1,2", "[]]", "[[]", "[", "]", "[]", "{}", "[ ]", "{ }", "[\n]", "[\u{c}]", "[1\u{b}]",
    "\u{feff}1", "\u{feff}", "\u{a0}1", "1\u{a0}", "\u{2028}1", "\u{c}1", "1\u{c}", "\u{b}1", "\u{85}1", "\u{3000}1", " \t\n\r1 \t\n\r", "", " ", "\n",
    "/*c*/1", "1//c", "#1", "1 2", "1 true", "true false", "nul", "null", "nulll", "Null", "NULL", "tru", "true", "truee", "True", "false", "fals", "falsee", "undefined", "nil",
    "truefalse", "true,", "[true", "[truefalse]", "[true false]", "[nullnull]", "{\"a\":truex}", "\"a\"\"b\"", "\"a\" \"b\"", "1\"a\"", "\"a\"1", "[\"a\"1]", "[1\"a\"]",
];

fn mutants(doc: &str, rng: &mut Rng, per_pos: usize, limit: usize, count: &mut u64) {
    const POOL: [char; 30] = ['"', '\\', ',', ':', '{', '}', '[', ']', '0', '1', '9', '-', '+', '.', 'e', 'E', 'u', 'a', 't', 'n', ' ', '\n', '\t', '\u{c}', '\u{0}', '\'', '/', 'é', '😀', 'F'];
    let ch: Vec<char> = doc.chars().collect();
    for i in 0..ch.len() {
        let del: String = ch[..i].iter().chain(ch[i + 1..].iter()).collect();
        log_doc(&del, limit, &[], count);
        let dup: String = ch[..=i].iter().chain(ch[i..].iter()).collect();
        log_doc(&dup, limit, &[], count);
        for _ in 0..per_pos {
            let c = *rng.pick(&POOL);
            if c == ch[i] { continue; }
            let rep: String = ch[..i].iter().cloned().chain(std::iter::once(c)).chain(ch[i + 1..].iter().cloned()).collect();
            log_doc(&rep, limit, &[], count);
            if rng.chance(1, 4) {
                let ins: String = ch[..i].iter().cloned().chain(std::iter::once(c)).chain(ch[i..].iter().cloned()).collect();
                log_doc(&ins, limit, &[], count);
            }
        }
        if i + 1 < ch.len() && rng.chance(1, 3) {
            let mut sw = ch.clone();
            sw.swap(i, i + 1);
            log_doc(&sw.iter().collect::<String>(), limit, &[], count);
        }
    }
}

fn nest(kinds: &[u8], core: &str, ws: &str) -> String {
    let mut s = String::new();
    for k in kinds { if *k == 0 { s.push('['); } else { s.push_str("{\"k\":"); } s.push_str(ws); }
    s.push_str(core);
    for k in kinds.iter().rev() { s.push_str(ws); s.push(if *k == 0 { ']' } else { '}' }); }
    s
}

fn do_docs(n: usize, limit: usize, maxlen: usize) {
    let mut rng = Rng::from_env();
    let mut count = 0u64;
    let mut fam: Vec<(String, u64)> = vec![];
    let mark = |name: &str, count: u64, fam: &mut Vec<(String, u64)>| fam.push((name.to_string(), count));
    // 1. fixed notable texts
    for s in HOSTILE { log_doc(s, limit, &[], &mut count); }
    mark("notable", count, &mut fam);
    // 2. every escape form
    for c in 0x20u8..0x7f { log_doc(&format!("\"\\{}\"", c as char), limit, &[], &mut count); }
    let hexish = ['0', '9', 'a', 'f', 'A', 'F', 'g', 'G', '+', '-', ' ', '"', 'x', '_', '٣', 'Ａ'];
    for pos in 0..4 {
        for c in hexish {
            let mut q: Vec<char> = "12b4".chars().collect();
            q[pos] = c;
            log_doc(&format!("\"\\u{}\"", q.iter().collect::<String>()), limit, &[], &mut count);
        }
    }
    for len in 0..4 { log_doc(&format!("\"\\u{}\"", &"0041"[..len]), limit, &[], &mut count); }
    let edge = [0xd7ffu32, 0xd800, 0xdbff, 0xdc00, 0xdfff, 0xe000];
    for a in edge {
        log_doc(&format!("\"\\u{:04x}\"", a), limit, &[], &mut count);
        log_doc(&format!("[\"\\u{:04X}\", 1]", a), limit, &[], &mut count);
        for b in edge { log_doc(&format!("\"\\u{:04x}\\u{:04X}\"", a, b), limit, &[], &mut count); }
    }
    mark("escapes", count, &mut fam);
    // 3. raw characters inside strings: every control character must be rejected, everything else accepted
    for c in (0u32..0x30).chain([0x5b, 0x5c, 0x5d, 0x7e, 0x7f, 0x80, 0x9f, 0xa0, 0xff, 0x2028, 0x2029, 0xd7ff, 0xe000, 0xfffd, 0xfffe, 0xffff, 0x10000, 0x1f600, 0x10ffff]) {
        let ch = char::from_u32(c).unwrap();
        log_doc(&format!("\"{}\"", ch), limit, &[], &mut count);
        log_doc(&format!("{{\"a{}\":\"{}b\"}}", ch, ch), limit, &[], &mut count);
    }
    mark("raw characters", count, &mut fam);
    // 4. whitespace placements: every gap of a fixed document x every candidate character
    let pieces = ["{", "\"a\"", ":", "[", "1", ",", "true", "]", ",", "\"b\"", ":", "null", ",", "\"c\"", ":", "{", "}", "}"];
    for gap in 0..=pieces.len() {
        for w in [" ", "\t", "\n", "\r", " \t\r\n", "\u{c}", "\u{b}", "\u{a0}", "\u{feff}", "\u{2028}", "\u{0}", "\u{85}", "\u{2003}"] {
            let mut s = String::new();
            for (i, p) in pieces.iter().enumerate() { if i == gap { s.push_str(w); } s.push_str(p); }
            if gap == pieces.len() { s.push_str(w); }
            log_doc(&s, limit, &[], &mut count);
        }
    }
    for w in [" ", "\t", "\n", "\r"] { // whitespace inside tokens is not whitespace
        for t in ["tr{}ue", "1{}2", "1.{}5", "-{}1", "1e{}5", "nu{}ll", "\"a{}b\"", "\"\\{}n\"", "\"\\u00{}41\""] {
            log_doc(&t.replace("{}", w), limit, &[], &mut count);
        }
    }
    mark("whitespace", count, &mut fam);
    // 5. nesting around the limit and up to 300
    let mut depths: Vec<usize> = vec![1, 2, 3, 4, 6, 7, 50, 299, 300];
    for d in limit.saturating_sub(2)..=limit + 2 { depths.push(d); }
    depths.retain(|d| *d >= 1 && *d <= 400);
    depths.sort(); depths.dedup();
    for &d in &depths {
        let extra = [d.saturating_sub(1), d, d + 1, 300, 400];
        let arr: Vec<u8> = vec![0; d];
        let obj: Vec<u8> = vec![1; d];
        let alt: Vec<u8> = (0..d).map(|i| (i % 2) as u8).collect();
        let rnd: Vec<u8> = (0..d).map(|_| rng.below(2) as u8).collect();
        log_doc(&nest(&arr, "", ""), limit, &extra, &mut count);
        log_doc(&nest(&arr, "0", ""), limit, &extra, &mut count);
        log_doc(&nest(&obj, "{}", ""), limit, &extra, &mut count);        // depth d + 1
        log_doc(&nest(&obj, "null", ""), limit, &extra, &mut count);
        log_doc(&nest(&alt, "\"]\"", ""), limit, &extra, &mut count);
        log_doc(&nest(&rnd, "[]", " "), limit, &extra, &mut count);       // depth d + 1
        // breadth does not count: siblings at depth d
        let mut s = nest(&arr[..d - 1], "[],[],{}", "");
        log_doc(&s, limit, &extra, &mut count);
        s = format!("[{},{}]", nest(&arr[..d - 1], "1", ""), nest(&obj[..d - 1], "2", ""));
        log_doc(&s, limit, &extra, &mut count);
        // unbalanced
        let mut t = nest(&arr, "", ""); t.pop();
        log_doc(&t, limit, &extra, &mut count);
        let mut t = nest(&arr, "", ""); t.push(']');
        log_doc(&t, limit, &extra, &mut count);
    }
    mark("nesting", count, &mut fam);
    // 5a. a few long documents (buffers in the parser start at 256 characters / 16 elements)
    {
        let mut st = String::from("\"");
        for i in 0..300 { st.push_str(["x", "\\n", "é", "\\u00e9", "😀", "\\ud83d\\ude00", " ", "\\\\"][i % 8]); }
        st.push('"');
        log_doc(&st, limit, &[], &mut count);
        let arr: Vec<String> = (0..100).map(|i| format!("{}", i * 37 % 101)).collect();
        log_doc(&format!("[{}]", arr.join(",")), limit, &[], &mut count);
        log_doc(&format!("[{}]", arr.join(" ,\n ")), limit, &[], &mut count);
        let mem: Vec<String> = (0..60).map(|i| format!("\"k{}\":[{}]", i, i)).collect();
        log_doc(&format!("{{{}}}", mem.join(",")), limit, &[], &mut count);
        let sib: Vec<&str> = (0..300).map(|i| if i % 2 == 0 { "[]" } else { "{}" }).collect();
        log_doc(&format!("[{}]", sib.join(",")), limit, &[], &mut count);       // 300 sibling containers: depth 2
        log_doc(&format!("{{\"a\":[{}]}}", sib.join(",")), limit, &[], &mut count);
    }
    mark("long documents", count, &mut fam);
    // 5d. boundary values, Unicode classes, degenerate forms, repetition and scale
    {
        // integers around the powers of two that matter for u8 .. u64 / the f32 and f64 mantissas, exact decimal text, both signs
        let mut lits: Vec<String> = vec![];
        for k in [8u32, 16, 24, 31, 32, 53, 63, 64] {
            let p: u128 = 1u128 << k;
            for x in [p - 2, p - 1, p, p + 1, p + 2] { lits.push(format!("{}", x)); lits.push(format!("-{}", x)); lits.push(format!("{}.0", x)); lits.push(format!("{}e0", x)); }
        }
        for e in 15..=23 { lits.push(format!("1{}", "0".repeat(e))); lits.push(format!("-1{}", "0".repeat(e))); lits.push(format!("9{}", "9".repeat(e))); }
        for l in ["-01", "-00.5", "00.5", "-00", "-0.5", "-0e0", "-0E+0", "-0.0e-0", "0.1e1", "-1E-0", "1e309", "-1e309", "1e-309", "179769313486231570000e288",
                  "1.7976931348623157E+308", "-1.7976931348623157e+308", "-1.7976931348623159e308", "2.2250738585072014E-308", "5e-324", "-5e-324", "3e-324", "2e-324"] { lits.push(l.to_string()); }
        for l in &lits {
            log_doc(l, limit, &[], &mut count);
            log_doc(&format!("[{},{}]", l, l), limit, &[], &mut count);
            log_doc(&format!("{{\"a\":{}}}", l), limit, &[], &mut count);
        }
        // digits and numerics outside ASCII are not digits; words are lower case only; lone / doubled delimiters
        for d in ["\u{661}\u{662}", "\u{ff11}", "\u{1d7d9}", "1²", "½", "Ⅷ", "1\u{663}", "-\u{ff11}", "1.\u{ff15}", "1e\u{ff15}", "[\u{ff11}]", "{\"a\":\u{663}}", "\u{ff0d}1", "1\u{ff0e}5",
                  "TRUE", "False", "FALSE", "nUll", "tRUE", "[TRUE]", "{\"a\":Null}", "[true,FALSE]", "truE",
                  "{\"a\"::1}", "{\"a\":1,,}", "[1,,]", ":", ",", "'", "=", "{:}", "{\"a\":1:}", "[:]", "{\"a\",1}", "[1:2]", "{\"a\":\n1}", "{\"a\"\n:\n1\n}", "[\n1\n,\n2\n]",
                  "{\"a\"=1}", "{\"a\":1;\"b\":2}", "[1;2]", "\"\"\"\"", "{\"\":\"\"}", "[\"\"]", "[[]]", "[{}]", "{\"\":{}}", "{\"\":[]}", "[[],[]]", "[{},{}]", "[[],{},[]]",
                  "{\" a \":\"  b  \",\"\\ta\\n\":\"\\u0020x\\u0020\",\"\":\" \"}"] {
            log_doc(d, limit, &[], &mut count);
        }
        for c in CLASS_CHARS {
            let raw_ok = !c.chars().any(|x| (x as u32) < 0x20);
            if raw_ok {
                log_doc(&format!("{{\"{c}a{c}b{c}\":\"{c}a{c}b{c}\",\" {c} \":\" {c} \"}}", c = c), limit, &[], &mut count);
                log_doc(&format!("[\"{c}\",\"x{c}\",\"{c}x\"]", c = c), limit, &[], &mut count);
            }
            log_doc(&format!("[1,{}2]", c), limit, &[], &mut count);          // not white space
            log_doc(&format!("{}[]", c), limit, &[], &mut count);
            log_doc(&format!("{{\"a\"{}:1}}", c), limit, &[], &mut count);
        }
        for u in 0x7fu32..=0xa0 {                                              // DEL and every C1 control: allowed unescaped
            let ch = char::from_u32(u).unwrap();
            log_doc(&format!("{{\"{}k\":\"v{}\"}}", ch, ch), limit, &[], &mut count);
        }
        // surrogate pairs in every supplementary plane, escaped (both cases) and unescaped, in strings and keys
        for plane in 1u32..=16 {
            for cp in [plane * 0x10000, plane * 0x10000 + 0xffff, plane * 0x10000 + 0x3ff, plane * 0x10000 + 0x400, plane * 0x10000 + 1 + rng.below(0xfffe) as u32] {
                let ch = char::from_u32(cp).unwrap();
                let mut b = [0u16; 2];
                let u = ch.encode_utf16(&mut b);
                let lower = format!("\\u{:04x}\\u{:04x}", u[0], u[1]);
                let upper = format!("\\u{:04X}\\u{:04X}", u[0], u[1]);
                log_doc(&format!("{{\"{}\":\"{}{}x{}\"}}", lower, upper, ch, lower), limit, &[], &mut count);
            }
        }
        // repetition and scale: many empty containers side by side (the depth counter must come back), many members,
        // the same name several times among many others, deep siblings
        let many = |item: &str, k: usize| -> String { vec![item; k].join(",") };
        for (item, k) in [("[]", 300usize), ("{}", 300), ("[[]]", 260), ("{\"a\":{}}", 260), ("[{}]", 260)] {
            log_doc(&format!("[{}]", many(item, k)), limit, &[4], &mut count);
            log_doc(&format!("[[{}]]", many(item, k)), limit, &[4], &mut count);
            log_doc(&format!("{{\"a\":[{}],\"b\":[{}]}}", many(item, k), many(item, 3)), limit, &[4], &mut count);
        }
        let mem: Vec<String> = (0..400).map(|i| format!("\"m{}\":{}", i, i)).collect();
        log_doc(&format!("{{{}}}", mem.join(",")), limit, &[], &mut count);
        for reps in [2usize, 3, 10] {
            let mem: Vec<String> = (0..70).map(|i| if i % (70 / reps) == 3 { format!("\"dup\":{}", i) } else { format!("\"m{}\":[{}]", i, i) }).collect();
            log_doc(&format!("{{{}}}", mem.join(",")), limit, &[], &mut count);
        }
        let a200: Vec<u8> = vec![0; 200];
        let o200: Vec<u8> = vec![1; 200];
        log_doc(&format!("[{},{},{}]", nest(&a200, "", ""), nest(&a200, "1", ""), nest(&o200, "{}", "")), limit, &[200, 201, 202], &mut count);
        log_doc(&format!("{{\"x\":{},\"y\":{}}}", nest(&o200, "null", ""), nest(&a200, "[]", "")), limit, &[200, 201, 202], &mut count);
    }
    mark("boundary values, Unicode classes, degenerate forms, repetition", count, &mut fam);
    // 5b. number literals beyond what TLC compares exactly (> 15 digits, extremes): value checked with from_str (nx)
    let mut lits: Vec<String> = vec![
        "9007199254740993".into(), "9007199254740992.5".into(), "18446744073709551616".into(), "9223372036854775808".into(), "-9223372036854775809".into(),
        "1.00000000000000011102230246251565404236316680908203125".into(), "1.00000000000000011102230246251565404236316680908203126".into(),
        "1.00000000000000011102230246251565404236316680908203124".into(), "1e23".into(), "8.41e21".into(), "2.2250738585072011e-308".into(),
        "2.2250738585072014e-308".into(), "4.9406564584124654e-324".into(), "2.4703282292062328e-324".into(), "1e-323".into(), "1e-324".into(), "1e-325".into(),
        "1.7976931348623157e308".into(), "1.7976931348623158e308".into(), "1.797693134862315807e308".into(), "1E+308".into(), "1e0000000000000000005".into(),
        "1e-0000000000000000005".into(), "0e999999999999".into(), "0.0e-999999999999".into(), "1e2147483648".into(), "1e-2147483649".into(), "1e18446744073709551616".into(),
        format!("0.{}1", "0".repeat(400)), format!("1{}", "0".repeat(308)), format!("1{}", "0".repeat(309)), format!("1{}.5e-300", "0".repeat(300)),
        format!("0.{}", "3".repeat(40)), format!("{}.{}e-40", "7".repeat(40), "1".repeat(30)), format!("-{}", "9".repeat(400)),
    ];
    for _ in 0..(if n >= 1000 { 400 } else { 120 }) {
        let mut l = String::new();
        if rng.chance(1, 3) { l.push('-'); }
        let nd = *rng.pick(&[16usize, 17, 17, 18, 19, 20, 21, 25, 40]);
        let point = rng.below(nd);
        for i in 0..nd {
            let d = if i == 0 { rng.range(1, 9) } else { rng.below(10) };
            l.push((b'0' + d as u8) as char);
            if i == point && i + 1 < nd && rng.chance(2, 3) { l.push('.'); }
        }
        if rng.chance(2, 3) { l.push(*rng.pick(&['e', 'E'])); l.push_str(*rng.pick(&["", "+", "-"])); l.push_str(&format!("{}", rng.below(330))); }
        lits.push(l);
    }
    for l in &lits {
        log_doc(l, limit, &[], &mut count);
        log_doc(&format!("[{}]", l), limit, &[], &mut count);
        log_doc(&format!("{{\"a\" : {} , \"b\":[1,{}]}}", l, l), limit, &[], &mut count);
    }
    mark("long and extreme number literals", count, &mut fam);
    // 5c. every BMP code point through \uXXXX (16 per string; surrogates are in family 2), and raw code points
    let stride = if n >= 1000 { 1 } else { 4 };
    for base in (0u32..0x10000).step_by(16 * stride) {
        if (0xd800..0xe000).contains(&base) { continue; }
        let mut d = String::from("\"");
        for u in base..base + 16 { d.push_str("\\u"); d.push_str(&hex4(&mut rng, u)); }
        d.push('"');
        log_doc(&d, limit, &[], &mut count);
    }
    for _ in 0..(if n >= 1000 { 600 } else { 120 }) {
        let mut d = String::from("\"");
        for _ in 0..16 {
            let c = loop { let c = rand_char(&mut rng); if c as u32 >= 0x20 && c != '"' && c != '\\' { break c; } };
            d.push(c);
        }
        d.push('"');
        log_doc(&d, limit, &[], &mut count);
    }
    mark("all BMP escapes, raw code points", count, &mut fam);
    // 6. random grammar documents and all their single-edit mutants
    let mut valid_docs = 0u64;
    for i in 0..n {
        let doc = gen_doc(&mut rng, maxlen);
        log_doc(&doc, limit, &[], &mut count);
        valid_docs += 1;
        // values built by the real parser go through the serialisers as well (parse -> serialize -> parse)
        let ind = rng.below(9) as i64;
        roundtrip_records(&doc, &[-1, ind], &mut count);
        // mutants of the shorter documents (all positions); longer ones every other round
        if doc.chars().count() <= 60 || i % 4 == 0 { mutants(&doc, &mut rng, 2, limit, &mut count); }
    }
    mark("grammar documents and mutants", count, &mut fam);
    // 7. mutants of a few fixed documents that exercise the known-defect classes
    for d in ["{\"a\":1,\"b\":[true,null],\"c\":{\"d\":\"x\"}}", "[-0.5e+10,\"\\u00e9\\ud83d\\ude00\",{}]", "{\"k\":\"v\",\"k\":[1,2]}"] {
        log_doc(d, limit, &[], &mut count);
        mutants(d, &mut rng, 6, limit, &mut count);
    }
    mark("fixed documents and mutants", count, &mut fam);
    let mut prev = 0;
    let fams: Vec<J> = fam.iter().map(|(n, c)| { let x = json!({"family": n, "records": c - prev}); prev = *c; x }).collect();
    eprintln!("{}", json!({"summary": true, "records": count, "grammar_docs": valid_docs, "families": fams, "limit": limit}));
}

// ------------------------------------------------------------------------------------------------
// ser: random values through serialize / serialize_pretty -> log for Trace_Json8259
// ------------------------------------------------------------------------------------------------
fn rand_char(rng: &mut Rng) -> char {
    loop {
        let c = match rng.below(16) {
            0 => rng.below(0x20) as u32,                                  // C0 controls
            1 => *rng.pick(&[0x22u32, 0x5c, 0x2f, 0x08, 0x0c, 0x0a, 0x0d, 0x09, 0x7f, 0x00, 0x1f, 0x20]),
            2 => 0x80 + rng.below(0x20) as u32,                           // C1 controls
            3 => *rng.pick(&[0x2028u32, 0x2029, 0xfeff, 0xfffe, 0xffff, 0xd7ff, 0xe000, 0x10000, 0x10ffff, 0xfffd, 0x1f600]),
            4 | 5 => rng.below(0x10000) as u32,                           // BMP
            6 | 7 => 0x10000 + rng.below(0x100000) as u32,                // supplementary planes
            8 => rng.below(0x110000) as u32,
            _ => 0x20 + rng.below(0x5f) as u32,                           // printable ASCII
        };
        if let Some(ch) = char::from_u32(c) { return ch; }
    }
}

fn rand_string(rng: &mut Rng) -> String {
    let n = match rng.below(8) { 0 => 0, 1 => rng.below(40), _ => rng.below(8) };
    (0..n).map(|_| rand_char(rng)).collect()
}

fn rand_number(rng: &mut Rng) -> f64 {
    loop {
        let x = match rng.below(16) {
            0 => -0.0,
            1 => 0.0,
            2 => rng.below(2000) as f64 - 1000.0,
            3 => f64::from_bits(rng.next_u64() % (1u64 << 52)),                 // subnormal
            4 => *rng.pick(&[f64::MAX, f64::MIN, f64::MIN_POSITIVE, 5e-324, -5e-324, f64::EPSILON, 2.2250738585072009e-308]),
            5 => (rng.next_u64() as i64) as f64,                                // beyond 2^53
            6 => *rng.pick(&[9007199254740992.0, 9007199254740993.0, 9007199254740994.0, -9007199254740992.0, 1e21, 1e22, 1e23, 1e-7, 0.1 + 0.2, 1.0 / 3.0, 123456789012345680000.0]),
            7 => (rng.next_u64() % 1_000_000_000) as f64 / 10f64.powi(rng.below(12) as i32),
            8 => -((rng.next_u64() % 1_000_000) as f64) * 10f64.powi(rng.below(300) as i32),
            9 => (rng.next_u64() % 1_000_000) as f64 * 10f64.powi(-(rng.below(320) as i32)),
            _ => f64::from_bits(rng.next_u64()),
        };
        if x.is_finite() { return x; }
    }
}

fn rand_value(rng: &mut Rng, depth: usize) -> Value {
    let k = if depth == 0 { rng.below(6) } else { rng.below(10) };
    match k {
        0 => Value::Null,
        1 => Value::Bool(rng.chance(1, 2)),
        2 | 3 => Value::Number(rand_number(rng)),
        4 | 5 => Value::String(rand_string(rng)),
        6 | 7 => Value::Array((0..rng.below(5)).map(|_| rand_value(rng, depth - 1)).collect()),
        _ => {
            let n = rng.below(5);
            let mut o: Vec<(String, Value)> = vec![];
            for _ in 0..n {
                let key = if !o.is_empty() && rng.chance(1, 8) { o[rng.below(o.len())].0.clone() } else { rand_string(rng) };
                o.push((key, rand_value(rng, depth - 1)));
            }
            Value::Object(o)
        }
    }
}

fn do_ser(n: usize, per: usize, every: usize) {
    let mut rng = Rng::from_env();
    let mut outputs = 0u64;
    let mut logged = 0u64;
    let mut reparse_bad = 0u64;
    let mut bits_inexact = 0u64;
    let mut variants = [0u64; 6];
    // systematic strings first: 16 consecutive code points per string (also as a key), always logged
    let mut fixed: Vec<Value> = vec![];
    let bases: Vec<u32> = (0u32..0x300).step_by(16).chain([0x7f0, 0x2020, 0xd7f0, 0xe000, 0xfdd0, 0xfff0, 0x10000, 0x1f600, 0xe0000, 0x10fff0]).collect();
    for b in bases {
        let st: String = (b..b + 16).filter_map(char::from_u32).collect();
        fixed.push(Value::String(st.clone()));
        fixed.push(Value::Object(vec![(st.clone(), Value::Array(vec![Value::String(st), Value::Number(-0.0)]))]));
    }
    // supplementary planes 1..16: the first and the last 16 code points of each, as a string and as a key
    for plane in 1u32..=16 {
        for b in [plane * 0x10000, plane * 0x10000 + 0xfff0, plane * 0x10000 + 0x8000] {
            let st: String = (b..b + 16).filter_map(char::from_u32).collect();
            fixed.push(Value::Object(vec![(st.clone(), Value::String(st))]));
        }
    }
    // Unicode classes at the start, in the middle and at the end of strings and keys (nothing may be trimmed, folded or escaped wrongly)
    for c in CLASS_CHARS {
        let st = format!("{}a{}b{}", c, c, c);
        fixed.push(Value::Object(vec![(st.clone(), Value::String(st)), (format!(" {} ", c), Value::Null)]));
    }
    let nfixed_per = fixed.len();               // of these, `per` outputs are logged
    // boundary numbers (all ten outputs logged): 0, powers of two +-1 around 2^8 .. 2^64, the f64 limits, both signs
    let mut nums: Vec<f64> = vec![0.0, -0.0, 1.0, -1.0, 0.5, -0.5, 0.1, 1e-7, 1e15, 1e16, 1e17, 1e20, 1e21, 1e22, 1e23, 1e300, 1e308,
        f64::MAX, f64::MIN, f64::MIN_POSITIVE, -f64::MIN_POSITIVE, 5e-324, -5e-324, 2.2250738585072009e-308, 1.7976931348623155e308, f64::EPSILON,
        4294967295.5, 0.30000000000000004, 123456789012345680000.0, 1.0 / 3.0];
    for k in [8u32, 16, 24, 31, 32, 53, 63, 64] {
        let p = 2f64.powi(k as i32);
        for x in [p - 1.0, p, p + 1.0, p * (1.0 + f64::EPSILON), p * (1.0 - f64::EPSILON / 2.0)] { nums.push(x); nums.push(-x); }
    }
    for chunk in nums.chunks(8) {
        fixed.push(Value::Array(chunk.iter().map(|x| Value::Number(*x)).collect()));
        fixed.push(Value::Object(chunk.iter().enumerate().map(|(i, x)| (format!("n{}", i), Value::Number(*x))).collect()));
    }
    for x in [f64::MIN, f64::MAX, -9223372036854775808.0, -9223372036854777856.0, -18446744073709551616.0, -0.0, 9007199254740993.0] { fixed.push(Value::Number(x)); }
    // empty containers and empty strings / keys at every nesting position (all ten outputs logged)
    let e_arr = || Value::Array(vec![]);
    let e_obj = || Value::Object(vec![]);
    let e_str = || Value::String(String::new());
    fixed.extend(vec![
        e_arr(), e_obj(), e_str(),
        Value::Array(vec![e_arr()]), Value::Array(vec![e_obj()]), Value::Array(vec![e_arr(), e_obj(), e_str()]),
        Value::Array(vec![Value::Array(vec![e_arr()]), Value::Array(vec![Value::Array(vec![e_obj()])])]),
        Value::Object(vec![("".into(), e_arr())]), Value::Object(vec![("".into(), e_obj()), ("".into(), e_str())]),
        Value::Object(vec![("a".into(), Value::Object(vec![("b".into(), Value::Object(vec![("c".into(), e_obj()), ("d".into(), e_arr())]))]))]),
        Value::Array(vec![e_arr(), Value::Number(1.0), e_obj(), Value::Null, Value::Array(vec![e_obj(), e_obj()])]),
        Value::Array((0..300).map(|i| if i % 2 == 0 { e_arr() } else { e_obj() }).collect()),
        Value::Object((0..40).map(|i| (format!("k{}", i % 7), if i % 3 == 0 { e_arr() } else { Value::Number(i as f64) })).collect()),
    ]);
    let nfixed = fixed.len();
    for vi in 0..n + nfixed {
        let dep = rng.range(0, 4);
        let v = if vi < nfixed { fixed[vi].clone() } else { rand_value(&mut rng, dep) };
        variants[match &v { Value::Null => 0, Value::Bool(_) => 1, Value::Number(_) => 2, Value::String(_) => 3, Value::Array(_) => 4, Value::Object(_) => 5 }] += 1;
        let t = tree(&v);
        // which of the ten outputs are sent to TLC: always the compact one, plus `per - 1` random indents
        let mut chosen: Vec<i64> = vec![-1];
        while chosen.len() < per.min(10) { let i = rng.below(9) as i64; if !chosen.contains(&i) { chosen.push(i); } }
        if vi >= nfixed_per && vi < nfixed { chosen = (-1..=8).collect(); }
        let desc: String = t.to_string().chars().take(2000).collect();
        for ind in -1i64..=8 {
            let v2 = v.clone();
            enter("serialize", &desc);
            let out = std::panic::catch_unwind(move || if ind < 0 { v2.serialize() } else { v2.serialize_pretty(ind as usize) });
            leave();
            outputs += 1;
            let (text, re) = match out {
                Ok(text) => {
                    let back = call_parse(&text, None);
                    let re = matches!(&back, Ok(b) if *b == v);
                    if let Ok(b) = &back { if re && !identical(b, &v) { bits_inexact += 1; } }
                    (text, re)
                }
                Err(_) => ("<panic>".to_string(), false),
            };
            if !re { reparse_bad += 1; }
            if ((vi < nfixed || vi % every == 0) && chosen.contains(&ind)) || !re {
                logged += 1;
                out_line(&json!({"k": "ser", "v": t, "ind": ind, "out": cps(&text), "re": re}));
            }
        }
    }
    eprintln!("{}", json!({"summary": true, "values": n + nfixed, "outputs": outputs, "logged": logged, "reparse_not_equal": reparse_bad,
        "equal_but_not_bit_identical": bits_inexact, "variants": {"null": variants[0], "bool": variants[1], "number": variants[2], "string": variants[3], "array": variants[4], "object": variants[5]}}));
}

// ------------------------------------------------------------------------------------------------
// idx: Value::get / get_mut / Index / IndexMut on parsed documents -> log for Trace_Json8259 (extension)
// ------------------------------------------------------------------------------------------------
fn do_idx(n: usize) {
    let mut rng = Rng::from_env();
    let mut logged = 0u64;
    let mut docs = 0u64;
    while docs < n as u64 {
        // containers at the top, no unpaired surrogates (they are rejected by the parser anyway)
        let mut s = String::new();
        let dense = rng.chance(1, 4);
        let k = rng.below(10);
        if k < 5 {
            s.push('{');
            let m = rng.below(5);
            for i in 0..m {
                if i > 0 { s.push(','); }
                s.push_str(*rng.pick(&["\"a\"", "\"b\"", "\"\"", "\"k\\u00e9\"", "\"a\""]));
                s.push(':');
                gen_value(&mut rng, 2, dense, false, &mut s);
            }
            s.push('}');
        } else if k < 9 {
            s.push('[');
            let m = rng.below(5);
            for i in 0..m { if i > 0 { s.push(','); } gen_value(&mut rng, 2, dense, false, &mut s); }
            s.push(']');
        } else {
            gen_value(&mut rng, 0, dense, false, &mut s);
        }
        if s.chars().count() > 200 { continue; }
        let v = match call_parse(&s, None) { Ok(v) => v, Err(_) => continue };
        docs += 1;
        let keys: [&str; 5] = ["a", "b", "", "k\u{e9}", "zz"];
        for _ in 0..4 {
            let key = *rng.pick(&keys);
            let idx = rng.below(6);
            let op = *rng.pick(&["get_key", "get_idx", "index_key", "index_idx", "get_mut_key", "get_mut_idx", "assign_key"]);
            let mut w = v.clone();
            let (some, panic, res): (bool, bool, Option<Value>) = match op {
                "get_key" => { let r = w.get(key).cloned(); (r.is_some(), false, r) }
                "get_idx" => { let r = w.get(idx).cloned(); (r.is_some(), false, r) }
                "index_key" => { let r = w[key].clone(); (true, false, Some(r)) }
                "index_idx" => { let r = w[idx].clone(); (true, false, Some(r)) }
                "get_mut_key" => { let r = w.get_mut(key).map(|x| x.clone()); (r.is_some(), false, r) }
                "get_mut_idx" => { let r = w.get_mut(idx).map(|x| x.clone()); (r.is_some(), false, r) }
                _ => {
                    let mut w2 = w.clone();
                    let key2 = key.to_string();
                    match std::panic::catch_unwind(move || { w2[key2.as_str()] = Value::Bool(true); w2 }) {
                        Ok(after) => { w = after; (true, false, None) }
                        Err(_) => (false, true, None),
                    }
                }
            };
            logged += 1;
            out_line(&json!({"k": "idx", "in": cps(&s), "op": op, "key": cps(key), "n": idx, "some": some, "panic": panic,
                             "res": res.as_ref().map(tree).unwrap_or(json!([])), "after": tree(&w)}));
        }
    }
    eprintln!("{}", json!({"summary": true, "documents": docs, "records": logged}));
}

/// stdin: {"s":[code points]} lines -> one doc record each (used for replay and for attributing mismatches)
fn do_log(limit: usize) {
    let mut count = 0u64;
    for line in stdin_lines() {
        let v: J = match serde_json::from_str(&line) { Ok(v) => v, Err(_) => continue };
        let s = from_cps(&u32s(&v["s"]));
        log_doc(&s, limit, &[], &mut count);
        roundtrip_records(&s, &[-1, 0, 1, 2, 3, 4, 5, 6, 7, 8], &mut count);
    }
}

fn main() {
    quiet_panics();
    start_watchdog();
    let a: Vec<String> = std::env::args().collect();
    let h = std::thread::Builder::new().stack_size(1 << 30).spawn(move || {
        match a.get(1).map(|s| s.as_str()) {
            Some("probe") => out_line(&json!({"limit": probe_limit()})),
            Some("enum") => do_enum(a[2].parse().unwrap()),
            Some("docs") => do_docs(a[2].parse().unwrap(), a[3].parse().unwrap(), a[4].parse().unwrap()),
            Some("ser") => do_ser(a[2].parse().unwrap(), a[3].parse().unwrap(), a[4].parse().unwrap()),
            Some("log") => do_log(a[2].parse().unwrap()),
            Some("idx") => do_idx(a[2].parse().unwrap()),
            _ => { eprintln!("usage: json probe|enum|docs|ser|log ..."); std::process::exit(2) }
        }
    }).unwrap();
    h.join().unwrap();
}
