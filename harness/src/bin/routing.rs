//! C04 conformance: which handler of a REAL humphrey `App` answers a request, against spec/routing/Routing.tla.
//!
//!   routing replay [--variants one|all|mixed] [--workers N]
//!        stdin: {"reqs":[{kind,hostp,host,target,..}..]} then one line per app {"app":{hosts,def},"exp":[[sub,idx,..]..]}
//!        (vectors printed by TLC, Gen_Routing_*.cfg). Every app is built through the public registration API
//!        (App::with_host / with_route / with_websocket_route, SubApp::with_*), run with App::run on a loopback
//!        port in a thread, queried over raw TCP, and stopped through App::with_shutdown.
//!        stdout: {"summary":true,...}
//!   routing random <apps> <requests per app> [--workers N]
//!        random apps at the property's full width (0..4 host sub-apps x 0..6 routes of each kind + default),
//!        random registration interleavings; stdout: ndjson log for Trace_Routing.tla
//!        ({"t":"app","ops":[..]} followed by its {"t":"req",..,"got":{hit,sub,idx}} records).
//!
//! Every handler answers with its identity `R|<tag>|<sub>|<idx>|<kind>`: sub = position of the host sub-app in
//! registration order (0 = default app), idx = position of the route among the routes of that kind of that
//! sub-app in registration order. HTTP miss = status 404; WebSocket miss = connection closed without a byte
//! (or any non-101 HTTP answer: the property only says "closed without an upgrade").
use hv::util;
use humphrey::http::{Request, Response, StatusCode};
use humphrey::monitor::event::{Event, EventType};
use humphrey::monitor::MonitorConfig;
use humphrey::stream::Stream;
use humphrey::{App, SubApp};
use std::io::Write;
use std::net::{SocketAddr, TcpStream};
use std::sync::mpsc::{channel, Sender};
use std::sync::Arc;
use std::thread::{self, JoinHandle};
use std::time::{Duration, Instant};

#[path = "routing_common/mod.rs"]
mod common;
use common::{free_port, ident, Op, Server, SubOp};

/// (they all push onto the same `routes` vector).
fn sub_http(sub: SubApp<()>, p: &str, id: String, which: usize) -> SubApp<()> {
    match which % 3 {
        0 => sub.with_route(p, move |_r: Request, _s: Arc<()>| Response::new(StatusCode::OK, id.as_bytes())),
        1 => sub.with_stateless_route(p, move |_r: Request| Response::new(StatusCode::OK, id.as_bytes())),
        _ => {
            let leaked: &'static str = Box::leak(p.to_string().into_boxed_str());
            sub.with_path_aware_route(leaked, move |_r: Request, _s: Arc<()>, _route: &'static str| {
                Response::new(StatusCode::OK, id.as_bytes())
            })
        }
    }
}
fn sub_ws(sub: SubApp<()>, p: &str, id: String) -> SubApp<()> {
    sub.with_websocket_route(p, move |_r: Request, mut stream: Stream, _s: Arc<()>| {
        let _ = stream.write_all(id.as_bytes());
        let _ = stream.flush();
    })
}

fn build(ops: &[Op], tag: &str, threads: usize) -> (App<()>, Sender<()>) {
    let (tx, rx) = channel();
    let mut app: App<()> = App::new_with_config(threads, ()).with_shutdown(rx);
    let (mut dh, mut dw, mut nh) = (0usize, 0usize, 0usize);
    for op in ops {
        match op {
            Op::Route(p) => {
                dh += 1;
                let id = ident(tag, 0, dh, "http");
                app = match dh % 3 {
                    0 => app.with_route(p, move |_r: Request, _s: Arc<()>| Response::new(StatusCode::OK, id.as_bytes())),
                    1 => app.with_stateless_route(p, move |_r: Request| Response::new(StatusCode::OK, id.as_bytes())),
                    _ => {
                        let leaked: &'static str = Box::leak(p.to_string().into_boxed_str());
                        app.with_path_aware_route(leaked, move |_r: Request, _s: Arc<()>, _route: &'static str| {
                            Response::new(StatusCode::OK, id.as_bytes())
                        })
                    }
                };
            }
            Op::Ws(p) => {
                dw += 1;
                let id = ident(tag, 0, dw, "ws");
                app = app.with_websocket_route(p, move |_r: Request, mut stream: Stream, _s: Arc<()>| {
                    let _ = stream.write_all(id.as_bytes());
                    let _ = stream.flush();
                });
            }
            Op::DefSub(subops) => {
                // the new default sub-app starts its own numbering
                let mut sub: SubApp<()> = SubApp::new();
                dh = 0;
                dw = 0;
                for so in subops {
                    match so {
                        SubOp::Route(p) => {
                            dh += 1;
                            sub = sub_http(sub, p, ident(tag, 0, dh, "http"), dh);
                        }
                        SubOp::Ws(p) => {
                            dw += 1;
                            sub = sub_ws(sub, p, ident(tag, 0, dw, "ws"));
                        }
                    }
                }
                app = app.with_default_subapp(sub);
            }
            Op::WsAll => {
                dw += 1;
                let id = ident(tag, 0, dw, "ws");
                #[allow(deprecated)]
                {
                    app = app.with_websocket_handler(move |_r: Request, mut stream: Stream, _s: Arc<()>| {
                        let _ = stream.write_all(id.as_bytes());
                        let _ = stream.flush();
                    });
                }
            }
            Op::Host(h, subops) => {
                nh += 1;
                let mut sub: SubApp<()> = SubApp::new();
                let (mut sh, mut sw) = (0usize, 0usize);
                for so in subops {
                    match so {
                        SubOp::Route(p) => {
                            sh += 1;
                            sub = sub_http(sub, p, ident(tag, nh, sh, "http"), sh + nh);
                        }
                        SubOp::Ws(p) => {
                            sw += 1;
                            sub = sub_ws(sub, p, ident(tag, nh, sw, "ws"));
                        }
                    }
                }
                app = app.with_host(h, sub);
            }
        }
    }
    (app, tx)
}

// ------------------------------------------------------------------------------------------------
// running a real app
// ------------------------------------------------------------------------------------------------
struct Running {
    port: u16,
    tx: Sender<()>,
    handle: JoinHandle<bool>,
}


impl Server for Running {
const FULL_API: bool = true;
fn start(ops: &[Op], tag: &str) -> Result<Running, String> {
    for _attempt in 0..8 {
        let port = free_port();
        let (app, tx) = build(ops, tag, 3);
        let (mtx, mrx) = channel::<Event>();
        let app = app.with_monitor(monitor_for(mtx));
        let addr = format!("127.0.0.1:{}", port);
        let handle = thread::spawn(move || app.run(addr).is_ok());
        let deadline = Instant::now() + Duration::from_secs(15);
        let sa: SocketAddr = format!("127.0.0.1:{}", port).parse().unwrap();
        let mut ok = false;
        // Ready means: OUR app listens on the port. A successful connect alone proves nothing (when the port was
        // taken between free_port() and the bind inside App::run, the connect reaches somebody else's listener while
        // our thread has not failed yet). Confirmation, whichever comes first:
        //  - the app reports (MonitorConfig, ConnectionSuccess) that it accepted OUR probe connection, or
        //  - the listening socket on the port belongs to this process (/proc) - monitor events are not part of the
        //    property, an app that reports none must still be testable; ports are unique inside the process.
        'wait: while Instant::now() < deadline {
            if handle.is_finished() {
                break; // bind failed (port taken in between): try another port
            }
            match TcpStream::connect_timeout(&sa, Duration::from_millis(500)) {
                Ok(probe) => {
                    let me = probe.local_addr().ok();
                    let quiet = common::NO_EVENT_STARTS.load(std::sync::atomic::Ordering::Relaxed) >= 3;
                    let until = Instant::now() + Duration::from_secs(5);
                    let mut polls = 0;
                    while Instant::now() < until {
                        match mrx.recv_timeout(Duration::from_millis(20)) {
                            Ok(ev) => {
                                if ev.kind == EventType::ConnectionSuccess && ev.peer.is_some() && ev.peer == me {
                                    ok = true;
                                    break 'wait;
                                }
                            }
                            Err(_) => {
                                if handle.is_finished() {
                                    break 'wait;
                                }
                                polls += 1;
                                // no event (yet): after 0.5 s (at once, when this build has shown that it sends none)
                                // look the listener up instead
                                if (quiet || polls >= 25) && polls % 5 == 0 && common::listener_is_ours(port) {
                                    common::NO_EVENT_STARTS.fetch_add(1, std::sync::atomic::Ordering::Relaxed);
                                    ok = true;
                                    break 'wait;
                                }
                            }
                        }
                    }
                    break; // connected, but not to our app
                }
                Err(_) => thread::sleep(Duration::from_millis(1)),
            }
        }
        drop(mrx);
        if ok {
            return Ok(Running { port, tx, handle });
        }
        drop(tx);
        common::release_port(port);
    }
    Err("could not start the app on a loopback port".into())
}

fn port(&self) -> u16 {
    self.port
}

/// Stops the app through its shutdown receiver. Returns false when App::run did not return within 10 s.
fn stop(self) -> bool {
    let r = self;
    let _ = r.tx.send(());
    let deadline = Instant::now() + Duration::from_secs(10);
    while !r.handle.is_finished() && Instant::now() < deadline {
        thread::sleep(Duration::from_millis(1));
    }
    if r.handle.is_finished() {
        let _ = r.handle.join();
        common::release_port(r.port);
        true
    } else {
        false
    }
}

}

/// ROUTING_NO_MONITOR=1 (self-test of the harness): subscribe to nothing, as if the app reported no events.
fn monitor_for(mtx: std::sync::mpsc::Sender<Event>) -> MonitorConfig {
    if std::env::var("ROUTING_NO_MONITOR").is_ok() {
        MonitorConfig::new(mtx)
    } else {
        MonitorConfig::new(mtx).with_subscription_to(EventType::ConnectionSuccess)
    }
}

fn main() {
    common::run_main::<Running>();
}
