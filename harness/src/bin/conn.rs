//! C01 conformance, threaded runtime: a real humphrey App on loopback driven by the shared client
//! (src/connlib.rs). stdin: one job per line; stdout: one connection record per line.
use hv::util;
use hv::util::*;
#[path = "../connlib.rs"]
mod connlib;
use humphrey::http::cors::Cors;
use humphrey::http::{Request, Response, StatusCode};
use humphrey::App;
use std::net::{SocketAddr, TcpListener, TcpStream};
use std::sync::{Arc, Mutex};
use std::time::Duration;

fn free_port() -> u16 { TcpListener::bind("127.0.0.1:0").unwrap().local_addr().unwrap().port() }

fn start(timeout: Option<Duration>) -> (SocketAddr, connlib::Mon) {
    let (moncfg, mon) = connlib::mon_new();
    let port = free_port();
    let addr: SocketAddr = format!("127.0.0.1:{}", port).parse().unwrap();
    std::thread::spawn(move || {
        let app: App<()> = App::new_with_config(64, ())
            .with_stateless_route("/plain", |_r: Request| Response::new(StatusCode::OK, "plain"))
            .with_stateless_route("/cors", |_r: Request| Response::new(StatusCode::OK, "cors"))
            .with_stateless_route("/echo", |r: Request| Response::new(StatusCode::OK, r.content.unwrap_or_default()))
            .with_stateless_route("/empty", |_r: Request| Response::empty(StatusCode::OK))
            .with_stateless_route("/panic", |_r: Request| -> Response { panic!("handler panic (scripted)") })
            .with_cors_config("/cors", Cors::wildcard())
            .with_connection_timeout(timeout)
            .with_monitor(moncfg);
        let _ = app.run(addr);
    });
    for _ in 0..200 { if TcpStream::connect(addr).is_ok() { return (addr, mon); } std::thread::sleep(Duration::from_millis(10)); }
    panic!("app did not start");
}

fn main() {
    quiet_panics();
    let seed = seed_from_env();
    let plain = start(None);
    let timed = start(Some(Duration::from_millis(connlib::IDLE_TIMEOUT_MS)));
    let jobs: Vec<connlib::Job> = stdin_lines().filter_map(|l| serde_json::from_str::<serde_json::Value>(&l).ok()).map(|v| connlib::parse_job(&v)).collect();
    let queue = Arc::new(Mutex::new(jobs.into_iter().rev().collect::<Vec<_>>()));
    let par: usize = std::env::args().nth(1).and_then(|s| s.parse().ok()).unwrap_or(24);
    let mut hs = vec![];
    for _ in 0..par {
        let q = queue.clone();
        let (plain, timed) = (plain.clone(), timed.clone());
        hs.push(std::thread::spawn(move || loop {
            let job = { q.lock().unwrap().pop() };
            let job = match job { Some(j) => j, None => break };
            let (a, m) = if job.timeout { &timed } else { &plain };
            let rec = connlib::run_job(&job, *a, seed, Some(m));
            util::out_line(&rec);
        }));
    }
    for h in hs { let _ = h.join(); }
    std::process::exit(0);
}
