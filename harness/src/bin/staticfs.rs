//! C06 conformance, threaded runtime: humphrey::handlers::{serve_dir, serve_as_file_path, serve_file} and the
//! server's directory_handler (humphrey-server/src/server/static.rs) called in-process.  Everything else is in
//! staticfs_common (shared with harness-tokio/src/bin/staticfs.rs).
use hv::util as hutil;
#[path = "staticfs_common/mod.rs"]
mod common;

use common::{leak, Backend};
use humphrey::handlers::{serve_as_file_path, serve_dir, serve_file};
use humphrey::http::{Request, Response};
use humphrey_server::config::{CacheConfig, Config, LoggingConfig};
use humphrey_server::logger::LogLevel;
use humphrey_server::r#static::directory_handler;
use humphrey_server::AppState;
use std::sync::Arc;

type PathAware = Box<dyn Fn(Request, Arc<()>, &str) -> Response + Send + Sync>;
type Plain = Box<dyn Fn(Request, Arc<()>) -> Response + Send + Sync>;

/// The entry points bound to one directory, given with and without a trailing slash.
struct Threaded {
    sd: PathAware,
    sd_slash: PathAware,
    fp: Plain,
    fp_slash: Plain,
    dir: &'static str,
    dir_slash: &'static str,
    state: Arc<AppState>,          // cache off (size limit 0)
    // cache on: the second identical request is answered from the cache.  One state per route: in a server a uri is
    // always answered by the same route, so the cache (keyed by uri and host) never sees two routes under one key
    state_cached: std::sync::Mutex<std::collections::HashMap<String, Arc<AppState>>>,
    unit: Arc<()>,
}

fn app_state(cache: bool) -> Arc<AppState> {
    let config = Config {
        logging: LoggingConfig { level: LogLevel::Error, console: false, file: None },
        cache: if cache { CacheConfig { size_limit: 64 << 20, time_limit: 3600 } } else { CacheConfig::default() },
        ..Default::default()
    };
    Arc::new(AppState::from(config))
}

impl Backend for Threaded {
    fn new(dir: &str) -> Self {
        let d = leak(dir.to_string());
        let ds = leak(format!("{}/", dir));
        Threaded {
            sd: Box::new(serve_dir::<()>(d)),
            sd_slash: Box::new(serve_dir::<()>(ds)),
            fp: Box::new(serve_as_file_path::<()>(d)),
            fp_slash: Box::new(serve_as_file_path::<()>(ds)),
            dir: d,
            dir_slash: ds,
            state: app_state(false),
            state_cached: Default::default(),
            unit: Arc::new(()),
        }
    }
    fn handlers() -> &'static [&'static str] {
        &["serve_dir", "directory", "directory_cached", "file_path", "serve_file"]
    }
    fn parse(&self, wire: &[u8]) -> Option<Request> {
        let mut r: &[u8] = wire;
        Request::from_stream(&mut r, "127.0.0.1:4242".parse().unwrap()).ok()
    }
    fn spawn_server(dir: &'static str, port: u16) -> bool {
        std::thread::spawn(move || {
            let app: humphrey::App<()> = humphrey::App::new()
                .with_path_aware_route("/static/*", serve_dir::<()>(dir))
                .with_route("/*", serve_as_file_path::<()>(dir));
            let _ = app.run(("127.0.0.1", port));
            common::SERVER_FAILED.store(true, std::sync::atomic::Ordering::SeqCst);
        });
        true
    }
    fn call(&self, h: &str, route: &str, req: Request, alt: bool) -> Response {
        match h {
            "serve_dir" => if alt { (self.sd_slash)(req, self.unit.clone(), route) } else { (self.sd)(req, self.unit.clone(), route) },
            "directory" => directory_handler(req, self.state.clone(), if alt { self.dir_slash } else { self.dir }, route, 0),
            "directory_cached" => {
                let st = self.state_cached.lock().unwrap().entry(route.to_string()).or_insert_with(|| app_state(true)).clone();
                directory_handler(req, st, if alt { self.dir_slash } else { self.dir }, route, 0)
            }
            "serve_file" => (serve_file::<()>(leak(format!("{}/{}", self.dir, route))))(req, self.unit.clone()),
            _ => if alt { (self.fp_slash)(req, self.unit.clone()) } else { (self.fp)(req, self.unit.clone()) },
        }
    }
}

// ------------------------------------------------------------------------------------------------
// twin routes (spec/static/TwinRoutes.tla): several `directory` routes, ONE cache-enabled AppState
// ------------------------------------------------------------------------------------------------
const TWIN_MARK: &str = "HV-TWIN-FILE:";

fn twin_content(id: i64) -> Vec<u8> {
    // distinct, recognisable, of different lengths, every byte value present
    let mut v = format!("{}{}:", TWIN_MARK, id).into_bytes();
    v.extend((0..=255u8).cycle().take(300 + (id as usize % 7) * 111));
    v.extend(format!(":{}{}", TWIN_MARK, id).as_bytes());
    v
}

/// Which twin file a body is (0: none of them, -1: carries the mark of one but is not intact).
fn twin_id(body: &[u8]) -> i64 {
    let text = String::from_utf8_lossy(body);
    if let Some(at) = text.find(TWIN_MARK) {
        let digits: String = text[at + TWIN_MARK.len()..].chars().take_while(|c| c.is_ascii_digit()).collect();
        if let Ok(id) = digits.parse::<i64>() {
            if body == &twin_content(id)[..] { return id; }
        }
        return -1;
    }
    0
}

/// stdin: TLC's behaviours {"twin":[{"host","route","dir","uri","id","hit"},..]}; every behaviour is replayed on a fresh
/// cache-enabled AppState shared by all routes; stdout: one summary line (mismatches with the whole behaviour).
fn twin(scratch: &str) {
    use serde_json::{json, Value};
    let base = std::path::PathBuf::from(scratch).join(format!("twin-{}", std::process::id()));
    let _ = std::fs::remove_dir_all(&base);
    // the two directories of TwinRoutes!FileAt
    let files: &[(&str, &str, i64)] = &[("A", "index.html", 101), ("A", "report.txt", 102), ("A", "docs/data.json", 103), ("A", "docs/index.html", 104),
        ("B", "index.html", 201), ("B", "report.txt", 202), ("B", "docs/data.json", 203), ("B", "only-b.txt", 205)];
    for (d, rel, id) in files {
        let path = base.join(d).join(rel);
        std::fs::create_dir_all(path.parent().unwrap()).unwrap();
        std::fs::write(&path, twin_content(*id)).unwrap();
    }
    let dir_a = leak(base.join("A").to_str().unwrap().to_string());
    let dir_b = leak(base.join("B").to_str().unwrap().to_string());
    let (mut behaviours, mut requests, mut hits, mut mismatches, mut cross) = (0u64, 0u64, 0u64, 0u64, 0u64);
    let mut first: Vec<Value> = vec![];
    for line in hutil::stdin_lines() {
        let v: Value = match serde_json::from_str(&line) { Ok(v) => v, Err(_) => continue };
        let steps = match v.get("twin").and_then(|t| t.as_array()) { Some(s) => s.clone(), None => continue };
        behaviours += 1;
        let state = app_state(true);
        let mut got_ids: Vec<Value> = vec![];
        let mut bad = false;
        let mut prior_dirs: Vec<String> = vec![];
        for st in &steps {
            let uri = st["uri"].as_str().unwrap_or("/");
            let route = st["route"].as_str().unwrap_or("/*");
            let dir = if st["dir"] == "A" { dir_a } else { dir_b };
            let host = st["host"].as_u64().unwrap_or(0) as usize;
            let wire = format!("GET {} HTTP/1.1\r\nHost: h{}\r\n\r\n", uri, host);
            let mut r: &[u8] = wire.as_bytes();
            let req = match Request::from_stream(&mut r, "127.0.0.1:4242".parse().unwrap()) { Ok(q) => q, Err(_) => { bad = true; break } };
            let st2 = state.clone();
            let res = std::panic::catch_unwind(std::panic::AssertUnwindSafe(move || directory_handler(req, st2, dir, route, host)));
            requests += 1;
            if st["hit"] == true { hits += 1; }
            let (status, gid) = match &res {
                Ok(resp) => { let c: u16 = resp.status_code.into(); (c, twin_id(&resp.body)) }
                Err(_) => (0, -2),
            };
            got_ids.push(json!([status, gid]));
            let want = st["id"].as_i64().unwrap_or(0);
            // what C06 states: a 200 carries the file asked for, intact; where the directory has no such file nothing of
            // any file is returned (the status of a refusal is left open)
            let ok = if want != 0 { status == 200 && gid == want } else { gid == 0 && status != 0 };
            if !ok {
                bad = true;
                if gid > 0 && want / 100 != gid / 100 && prior_dirs.iter().any(|d| d != st["dir"].as_str().unwrap_or("")) { cross += 1; }
            }
            prior_dirs.push(st["dir"].as_str().unwrap_or("").to_string());
        }
        if bad {
            mismatches += 1;
            if first.len() < 5 { first.push(json!({"behaviour": steps, "got": got_ids})); }
        }
    }
    let _ = std::fs::remove_dir_all(&base);
    hutil::out_line(&json!({"summary": true, "mode": "twin", "behaviours": behaviours, "requests": requests, "expected_hits": hits,
        "mismatches": mismatches, "answered_from_other_directory": cross, "first": first}));
}

fn main() {
    let a: Vec<String> = std::env::args().collect();
    if a.get(1).map(|s| s.as_str()) == Some("twin") && a.len() >= 3 {
        hutil::quiet_panics();
        twin(&a[2]);
        return;
    }
    common::main_with::<Threaded>();
}
