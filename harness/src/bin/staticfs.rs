//! C06 conformance, threaded runtime: humphrey::handlers::{serve_dir, serve_as_file_path, serve_file} and the
//! server's directory_handler (humphrey-server/src/server/static.rs) called in-process.  Everything else is in
//! staticfs_common (shared with harness-tokio/src/bin/staticfs.rs).
use hv::util as hutil;
#[path = "staticfs_common/mod.rs"]
mod common;

use common::{leak, Backend};
use humphrey::handlers::{serve_as_file_path, serve_dir, serve_file};
use humphrey::http::{Request, Response};
use humphrey_server::config::{CacheConfig, Config, LoggingConfig};
use humphrey_server::logger::LogLevel;
use humphrey_server::r#static::directory_handler;
use humphrey_server::AppState;
use std::sync::Arc;

type PathAware = Box<dyn Fn(Request, Arc<()>, &str) -> Response + Send + Sync>;
type Plain = Box<dyn Fn(Request, Arc<()>) -> Response + Send + Sync>;

/// The entry points bound to one directory, given with and without a trailing slash.
struct Threaded {
    sd: PathAware,
    sd_slash: PathAware,
    fp: Plain,
    fp_slash: Plain,
    dir: &'static str,
    dir_slash: &'static str,
    state: Arc<AppState>,          // cache off (size limit 0)
    // cache on: the second identical request is answered from the cache.  One state per route: in a server a uri is
    // always answered by the same route, so the cache (keyed by uri and host) never sees two routes under one key
    state_cached: std::sync::Mutex<std::collections::HashMap<String, Arc<AppState>>>,
    unit: Arc<()>,
}

fn app_state(cache: bool) -> Arc<AppState> {
    let config = Config {
        logging: LoggingConfig { level: LogLevel::Error, console: false, file: None },
        cache: if cache { CacheConfig { size_limit: 64 << 20, time_limit: 3600 } } else { CacheConfig::default() },
        ..Default::default()
    };
    Arc::new(AppState::from(config))
}

impl Backend for Threaded {
    fn new(dir: &str) -> Self {
        let d = leak(dir.to_string());
        let ds = leak(format!("{}/", dir));
        Threaded {
            sd: Box::new(serve_dir::<()>(d)),
            sd_slash: Box::new(serve_dir::<()>(ds)),
            fp: Box::new(serve_as_file_path::<()>(d)),
            fp_slash: Box::new(serve_as_file_path::<()>(ds)),
            dir: d,
            dir_slash: ds,
            state: app_state(false),
            state_cached: Default::default(),
            unit: Arc::new(()),
        }
    }
    fn handlers() -> &'static [&'static str] {
        &["serve_dir", "directory", "directory_cached", "file_path", "serve_file"]
    }
    fn parse(&self, wire: &[u8]) -> Option<Request> {
        let mut r: &[u8] = wire;
        Request::from_stream(&mut r, "127.0.0.1:4242".parse().unwrap()).ok()
    }
    fn spawn_server(dir: &'static str, port: u16) -> bool {
        std::thread::spawn(move || {
            let app: humphrey::App<()> = humphrey::App::new()
                .with_path_aware_route("/static/*", serve_dir::<()>(dir))
                .with_route("/*", serve_as_file_path::<()>(dir));
            let _ = app.run(("127.0.0.1", port));
            common::SERVER_FAILED.store(true, std::sync::atomic::Ordering::SeqCst);
        });
        true
    }
    fn call(&self, h: &str, route: &str, req: Request, alt: bool) -> Response {
        match h {
            "serve_dir" => if alt { (self.sd_slash)(req, self.unit.clone(), route) } else { (self.sd)(req, self.unit.clone(), route) },
            "directory" => directory_handler(req, self.state.clone(), if alt { self.dir_slash } else { self.dir }, route, 0),
            "directory_cached" => {
                let st = self.state_cached.lock().unwrap().entry(route.to_string()).or_insert_with(|| app_state(true)).clone();
                directory_handler(req, st, if alt { self.dir_slash } else { self.dir }, route, 0)
            }
            "serve_file" => (serve_file::<()>(leak(format!("{}/{}", self.dir, route))))(req, self.unit.clone()),
            _ => if alt { (self.fp_slash)(req, self.unit.clone()) } else { (self.fp)(req, self.unit.clone()) },
        }
    }
}

fn main() {
    common::main_with::<Threaded>();
}
