//! C02 conformance, threaded runtime: humphrey::http::Request::from_stream (sync parser) over a scripted
//! `Read` that hands the bytes out according to a read plan.  Everything else is in httpreq_common/mod.rs.
use hv::util as hutil;
#[path = "httpreq_common/mod.rs"]
mod common;

use common::{Parser, Plan};
use humphrey::http::Request;
use std::io::Read;
use std::net::SocketAddr;
use std::panic::{catch_unwind, AssertUnwindSafe};

/// Serves `data` segment by segment: one `read` never returns bytes of two segments; 0 at the end.
struct Scripted<'a> {
    data: &'a [u8],
    chunks: &'a [usize],
    ci: usize,
    left: usize,
    pos: usize,
}

impl<'a> Read for Scripted<'a> {
    fn read(&mut self, buf: &mut [u8]) -> std::io::Result<usize> {
        while self.left == 0 && self.ci < self.chunks.len() {
            self.left = self.chunks[self.ci];
            self.ci += 1;
        }
        let n = self.left.min(buf.len()).min(self.data.len() - self.pos);
        buf[..n].copy_from_slice(&self.data[self.pos..self.pos + n]);
        self.pos += n;
        self.left -= n;
        Ok(n)
    }
}

struct SyncParser;

impl Parser for SyncParser {
    fn parse(&self, data: &[u8], plan: &Plan, peer: SocketAddr) -> (Result<Request, String>, usize) {
        let mut rd = Scripted { data, chunks: &plan.chunks, ci: 0, left: 0, pos: 0 };
        let res = catch_unwind(AssertUnwindSafe(|| Request::from_stream(&mut rd, peer)));
        let r = match res {
            Ok(Ok(r)) => Ok(r),
            Ok(Err(e)) => Err(format!("Err({:?})", e)),
            Err(_) => Err("panic".to_string()),
        };
        (r, rd.pos)
    }
    fn runtime(&self) -> &'static str { "threaded" }
}

fn main() {
    hutil::quiet_panics();
    common::main_with(&SyncParser);
}
