//! C15 spec growth: the RUNNING `humphrey` server (real binary, built from the working tree) started from rendered
//! configuration files, against spec/serverapp/ServerApp.tla.
//!
//!   serverapp replay <server-bin> <workdir> [threads]   stdin: one JSON record per configuration as printed by
//!        Gen_ServerApp.cfg: {cfg, startup, conns:[[{op,rq,ka,reached,model,exp,status,pump}]], flines, clines}
//!        every record is rendered to a configuration file, the server is started, the scripted session is run.
//!        stdout: {"mismatch":..} per step whose observation differs from `exp` (answers, pump), one {"rec":..} per
//!        server (the observation log in the format of Trace_ServerApp, validated by TLC) and one {"summary":..}.
//!   serverapp random <server-bin> <workdir> <n> [threads]   random configurations and sessions; stdout: {"rec":..} lines
//!   serverapp hand <server-bin> <workdir>    the minimal reproduction of PumpIgnoresEof (prints what each side saw)
//!
//! Projection (trusted, kept small).  A model configuration is rendered verbatim: hosts and routes in model order
//! (adjacent routes of a host with the same body are sometimes merged into one `route p1, p2 {` section), target
//! identities map to fixtures under the server's directory:
//!   file k       files/f<k>.txt containing SA-FILE-<k>   (k = 3: the file does not exist)
//!   directory k  dirs/d<k>/ with a, b, c, d/a, d/b, index.html, d/index.html, every one containing SA-DIR-<k>
//!   proxy k      a scripted upstream answering 200 SA-UP-<k>
//!   redirect k   one of three Location strings
//!   websocket k  a scripted WebSocket target (listener) that records the forwarded upgrade request and then plays
//!                its side of the pump script; k = 3: a port nobody listens on
//! Answer classes seen by the client: file/directory/proxy (200 + marker), redirect (301 + exact Location), wsonly
//! (404 + the websocket-only text), notfound (404 + the core's page), bad400, timeout408, proxied (the target got the
//! upgrade request with the same path and key), eof (connection closed without a byte), other:<what> (never expected).
//! Log lines are classified by severity tag and message shape (classify_line); counts per class are the observation.
use hv::util::*;
use serde_json::{json, Value};
use std::collections::{BTreeMap, VecDeque};
use std::fs;
use std::io::{Read, Write};
use std::net::{SocketAddr, TcpListener, TcpStream};
use std::os::unix::process::CommandExt;
use std::path::{Path, PathBuf};
use std::process::{Child, Command, Stdio};
use std::sync::atomic::{AtomicBool, Ordering};
use std::sync::mpsc::{channel, Receiver, Sender};
use std::sync::{Arc, Mutex};
use std::time::{Duration, Instant};

const LOCATIONS: [&str; 3] = ["/", "http://sa.invalid/target?x=1&y=2", "https://sa.invalid:8443/deep/path;v=3"];
const WS_ONLY_TEXT: &str = "This route only accepts WebSocket requests";
const CORE_404: &str = "<html><body><h1>404 Not Found</h1></body></html>";
const WS_KEY: &str = "dGhlIHNhbXBsZSBub25jZQ==";

// ------------------------------------------------------------------------------------------------
// model configuration
// ------------------------------------------------------------------------------------------------

#[derive(Clone, Debug)]
struct Route {
    pat: String,
    ty: String,
    tgt: u64,
    wt: u64,
}

#[derive(Clone, Debug)]
struct Host {
    pat: String,
    routes: Vec<Route>,
}

#[derive(Clone, Debug)]
struct Cfg {
    hosts: Vec<Host>,
    def: Vec<Route>,
    dws: u64,
    cache: bool,
    level: String,
    console: bool,
    file: bool,
    threads: u64,
    timeout: u64,
}

fn chars_to_string(v: &Value) -> String {
    v.as_array().map(|a| a.iter().map(|c| c.as_str().unwrap_or("")).collect::<String>()).unwrap_or_default()
}

fn string_to_chars(s: &str) -> Value {
    Value::Array(s.chars().map(|c| Value::String(c.to_string())).collect())
}

fn route_from(v: &Value) -> Route {
    Route { pat: chars_to_string(&v["pat"]), ty: v["type"].as_str().unwrap_or("").to_string(), tgt: v["tgt"].as_u64().unwrap_or(0), wt: v["wt"].as_u64().unwrap_or(0) }
}

fn cfg_from(v: &Value) -> Cfg {
    Cfg {
        hosts: v["hosts"].as_array().map(|a| a.iter().map(|h| Host { pat: chars_to_string(&h["pat"]), routes: h["routes"].as_array().map(|r| r.iter().map(route_from).collect()).unwrap_or_default() }).collect()).unwrap_or_default(),
        def: v["def"].as_array().map(|r| r.iter().map(route_from).collect()).unwrap_or_default(),
        dws: v["dws"].as_u64().unwrap_or(0),
        cache: v["cache"].as_bool().unwrap_or(false),
        level: v["level"].as_str().unwrap_or("warn").to_string(),
        console: v["console"].as_bool().unwrap_or(true),
        file: v["file"].as_bool().unwrap_or(false),
        threads: v["threads"].as_u64().unwrap_or(4),
        timeout: v["timeout"].as_u64().unwrap_or(0),
    }
}

fn route_json(r: &Route) -> Value {
    json!({"pat": string_to_chars(&r.pat), "type": r.ty, "tgt": r.tgt, "wt": r.wt})
}

fn cfg_json(c: &Cfg) -> Value {
    json!({"hosts": c.hosts.iter().map(|h| json!({"pat": string_to_chars(&h.pat), "routes": h.routes.iter().map(route_json).collect::<Vec<_>>()})).collect::<Vec<_>>(),
           "def": c.def.iter().map(route_json).collect::<Vec<_>>(),
           "dws": c.dws, "cache": c.cache, "level": c.level, "console": c.console, "file": c.file, "threads": c.threads, "timeout": c.timeout})
}

// ------------------------------------------------------------------------------------------------
// scripted upstreams and WebSocket targets
// ------------------------------------------------------------------------------------------------

struct Listener {
    port: u16,
    stop: Arc<AtomicBool>,
    handle: Option<std::thread::JoinHandle<()>>,
}

impl Drop for Listener {
    fn drop(&mut self) {
        self.stop.store(true, Ordering::SeqCst);
        let _ = TcpStream::connect(("127.0.0.1", self.port));
        if let Some(h) = self.handle.take() {
            let _ = h.join();
        }
    }
}

fn read_head(s: &mut TcpStream, deadline: Duration) -> Vec<u8> {
    s.set_read_timeout(Some(deadline)).ok();
    let mut buf = Vec::new();
    let mut tmp = [0u8; 2048];
    while !buf.windows(4).any(|w| w == b"\r\n\r\n") {
        match s.read(&mut tmp) {
            Ok(0) | Err(_) => break,
            Ok(n) => buf.extend_from_slice(&tmp[..n]),
        }
    }
    buf
}

/// HTTP upstream of a proxy route: answers every request 200 with the marker of its identity.
fn start_upstream(k: u64) -> Listener {
    let l = TcpListener::bind("127.0.0.1:0").expect("upstream bind");
    let port = l.local_addr().unwrap().port();
    let stop = Arc::new(AtomicBool::new(false));
    let s2 = stop.clone();
    let handle = std::thread::spawn(move || {
        for s in l.incoming() {
            if s2.load(Ordering::SeqCst) {
                break;
            }
            if let Ok(mut s) = s {
                let head = read_head(&mut s, Duration::from_secs(3));
                if !head.is_empty() {
                    let body = format!("SA-UP-{}", k);
                    let _ = s.write_all(format!("HTTP/1.1 200 OK\r\nContent-Type: text/plain\r\nContent-Length: {}\r\n\r\n{}", body.len(), body).as_bytes());
                }
            }
        }
    });
    Listener { port, stop, handle: Some(handle) }
}

/// WebSocket target: hands every accepted connection (with the request head it received) to the session.
fn start_ws_target(k: u64, tx: Sender<(u64, TcpStream, Vec<u8>)>) -> Listener {
    let l = TcpListener::bind("127.0.0.1:0").expect("ws target bind");
    let port = l.local_addr().unwrap().port();
    let stop = Arc::new(AtomicBool::new(false));
    let s2 = stop.clone();
    let handle = std::thread::spawn(move || {
        for s in l.incoming() {
            if s2.load(Ordering::SeqCst) {
                break;
            }
            if let Ok(mut s) = s {
                let head = read_head(&mut s, Duration::from_secs(3));
                let _ = tx.send((k, s, head));
            }
        }
    });
    Listener { port, stop, handle: Some(handle) }
}

/// does process `pid` own a listening IPv4 socket on 127.0.0.1:port?  (/proc/net/tcp + /proc/<pid>/fd; no connection
/// is made, so the server's log has no line about the harness's own probing, and a listener of somebody else on
/// that port is not mistaken for the server)
fn listening(pid: u32, port: u16) -> bool {
    let want = format!("0100007F:{:04X}", port);
    let inodes: Vec<String> = fs::read_to_string("/proc/net/tcp")
        .map(|t| {
            t.lines()
                .skip(1)
                .filter_map(|l| {
                    let f: Vec<&str> = l.split_whitespace().collect();
                    if f.len() > 9 && f[1] == want && f[3] == "0A" {
                        Some(format!("socket:[{}]", f[9]))
                    } else {
                        None
                    }
                })
                .collect()
        })
        .unwrap_or_default();
    if inodes.is_empty() {
        return false;
    }
    match fs::read_dir(format!("/proc/{}/fd", pid)) {
        Ok(d) => d.flatten().any(|e| fs::read_link(e.path()).map(|t| inodes.iter().any(|i| t.to_string_lossy() == *i)).unwrap_or(false)),
        Err(_) => false,
    }
}

/// every thread of the process sleeps (state S in /proc/<pid>/task/<tid>/stat)
fn threads_idle(pid: u32) -> bool {
    let dir = match fs::read_dir(format!("/proc/{}/task", pid)) {
        Ok(d) => d,
        Err(_) => return true,
    };
    for e in dir.flatten() {
        if let Ok(stat) = fs::read_to_string(e.path().join("stat")) {
            // "tid (comm) S ..." - comm may contain spaces, the state follows the last ')'
            if let Some(p) = stat.rfind(')') {
                let state = stat[p + 1..].trim_start().chars().next().unwrap_or('S');
                if state != 'S' {
                    return false;
                }
            }
        }
    }
    true
}

fn free_port() -> u16 {
    TcpListener::bind("127.0.0.1:0").expect("bind").local_addr().unwrap().port()
}

// ------------------------------------------------------------------------------------------------
// a running server with its fixture
// ------------------------------------------------------------------------------------------------

/// A port that refuses connections for as long as this value lives: a socket bound to it but never listening (nobody
/// else can bind the port meanwhile - with servers running in parallel a merely "free" port is soon somebody's listener).
struct DeadPort {
    fd: libc::c_int,
    port: u16,
}

impl DeadPort {
    fn new() -> DeadPort {
        unsafe {
            let fd = libc::socket(libc::AF_INET, libc::SOCK_STREAM | libc::SOCK_CLOEXEC, 0);
            assert!(fd >= 0, "socket");
            let mut sa: libc::sockaddr_in = std::mem::zeroed();
            sa.sin_family = libc::AF_INET as libc::sa_family_t;
            sa.sin_addr.s_addr = u32::from_ne_bytes([127, 0, 0, 1]);
            let rc = libc::bind(fd, &sa as *const _ as *const libc::sockaddr, std::mem::size_of::<libc::sockaddr_in>() as u32);
            assert!(rc == 0, "bind");
            let mut len = std::mem::size_of::<libc::sockaddr_in>() as libc::socklen_t;
            libc::getsockname(fd, &mut sa as *mut _ as *mut libc::sockaddr, &mut len);
            DeadPort { fd, port: u16::from_be(sa.sin_port) }
        }
    }
}

impl Drop for DeadPort {
    fn drop(&mut self) {
        unsafe {
            libc::close(self.fd);
        }
    }
}

struct Server {
    _dead: DeadPort,
    child: Option<Child>,
    addr: SocketAddr,
    dir: PathBuf,
    _upstreams: Vec<Listener>,
    _targets: Vec<Listener>,
    accepted: Receiver<(u64, TcpStream, Vec<u8>)>,
    conf_text: String,
}

impl Drop for Server {
    fn drop(&mut self) {
        if let Some(c) = self.child.as_mut() {
            let _ = c.kill();
            let _ = c.wait();
        }
        let _ = fs::remove_dir_all(&self.dir);
    }
}

fn render_route_body(r: &Route, dir: &Path, up: &[u16; 2], ws: &[u16; 3], variant: usize) -> String {
    let mut b = String::new();
    let main = match r.ty.as_str() {
        "file" => format!("    file \"{}/files/f{}.txt\"\n", dir.display(), r.tgt),
        "directory" => format!("    directory \"{}/dirs/d{}{}\"\n", dir.display(), r.tgt, if variant % 2 == 1 { "/" } else { "" }),
        "proxy" => format!("    proxy \"127.0.0.1:{}\"\n", up[(r.tgt as usize - 1) % 2]),
        "redirect" => format!("    redirect \"{}\"\n", LOCATIONS[(r.tgt as usize - 1) % 3]),
        _ => String::new(),
    };
    let wsl = if r.wt != 0 { format!("    websocket \"127.0.0.1:{}\"\n", ws[(r.wt as usize - 1) % 3]) } else { String::new() };
    // key order inside the section is free
    if variant % 3 == 2 {
        b.push_str(&wsl);
        b.push_str(&main);
    } else {
        b.push_str(&main);
        b.push_str(&wsl);
    }
    b
}

fn render_routes(routes: &[Route], indent: &str, dir: &Path, up: &[u16; 2], ws: &[u16; 3], rng: &mut Rng, merged: &mut u64) -> String {
    let mut out = String::new();
    let mut i = 0;
    while i < routes.len() {
        let mut pats = vec![routes[i].pat.clone()];
        let mut j = i + 1;
        // adjacent routes with the same body may be written as one multi-pattern section (parse_route expands it again)
        while j < routes.len() && routes[j].ty == routes[i].ty && routes[j].tgt == routes[i].tgt && routes[j].wt == routes[i].wt && rng.chance(1, 2) {
            pats.push(routes[j].pat.clone());
            *merged += 1;
            j += 1;
        }
        let sep = if rng.chance(1, 2) { ", " } else { "," };
        let body = render_route_body(&routes[i], dir, up, ws, rng.below(6));
        out.push_str(&format!("{}route {} {{\n", indent, pats.join(sep)));
        for l in body.lines() {
            out.push_str(&format!("{}{}\n", indent, l));
        }
        out.push_str(&format!("{}}}\n", indent));
        i = j;
    }
    out
}

impl Server {
    /// Err: tooling problem.  Ok(server with child = None): the process exited before listening (start-up panic).
    fn start(bin: &str, base: &Path, name: &str, cfg: &Cfg, rng: &mut Rng, merged: &mut u64) -> Result<Server, String> {
        let dir = base.join(name);
        let _ = fs::remove_dir_all(&dir);
        fs::create_dir_all(dir.join("files")).map_err(|e| e.to_string())?;
        for k in 1..=2 {
            fs::write(dir.join("files").join(format!("f{}.txt", k)), format!("SA-FILE-{}", k)).map_err(|e| e.to_string())?;
            let d = dir.join("dirs").join(format!("d{}", k));
            fs::create_dir_all(d.join("d")).map_err(|e| e.to_string())?;
            for f in ["a", "b", "c", "index.html", "d/a", "d/b", "d/index.html"] {
                fs::write(d.join(f), format!("SA-DIR-{}", k)).map_err(|e| e.to_string())?;
            }
        }
        let ups = vec![start_upstream(1), start_upstream(2)];
        let (tx, rx) = channel();
        let tgts = vec![start_ws_target(1, tx.clone()), start_ws_target(2, tx.clone())];
        let up_ports = [ups[0].port, ups[1].port];
        let mut last_err = String::new();
        let mut dead_holder = Some(DeadPort::new());
        let dead = dead_holder.as_ref().unwrap().port;
        for _attempt in 0..6 {
            let port = free_port();
            let ws_ports = [tgts[0].port, tgts[1].port, dead];
            let mut conf = String::from("server {\n");
            conf.push_str(&format!("  address \"127.0.0.1\"\n  port {}\n  threads {}\n", port, cfg.threads));
            if cfg.timeout > 0 {
                conf.push_str(&format!("  timeout {}\n", cfg.timeout));
            }
            if cfg.dws != 0 {
                conf.push_str(&format!("  websocket \"127.0.0.1:{}\"\n", ws_ports[(cfg.dws as usize - 1) % 3]));
            }
            conf.push_str(&format!("  log {{\n    level \"{}\"\n    console {}\n", cfg.level, cfg.console));
            if cfg.file {
                conf.push_str(&format!("    file \"{}/server.log\"\n", dir.display()));
            }
            conf.push_str("  }\n");
            if cfg.cache {
                conf.push_str("  cache {\n    size 1M\n    time 3600\n  }\n");
            }
            // hosts and default routes may be interleaved in the file; the order among hosts and among the routes of
            // one host is the model's
            let host_first = rng.chance(1, 2);
            let def_text = render_routes(&cfg.def, "  ", &dir, &up_ports, &ws_ports, rng, merged);
            let mut hosts_text = String::new();
            for h in &cfg.hosts {
                let q = if rng.chance(1, 4) && !h.pat.contains('"') { h.pat.clone() } else { format!("\"{}\"", h.pat) };
                hosts_text.push_str(&format!("  host {} {{\n", q));
                hosts_text.push_str(&render_routes(&h.routes, "    ", &dir, &up_ports, &ws_ports, rng, merged));
                hosts_text.push_str("  }\n");
            }
            if host_first {
                conf.push_str(&hosts_text);
                conf.push_str(&def_text);
            } else {
                conf.push_str(&def_text);
                conf.push_str(&hosts_text);
            }
            conf.push_str("}\n");
            let conf_path = dir.join("humphrey.conf");
            fs::write(&conf_path, &conf).map_err(|e| e.to_string())?;
            let out = fs::File::create(dir.join("console.txt")).map_err(|e| e.to_string())?;
            let err = fs::File::create(dir.join("stderr.txt")).map_err(|e| e.to_string())?;
            let mut cmd = Command::new(bin);
            cmd.arg(&conf_path).current_dir(&dir).stdin(Stdio::null()).stdout(Stdio::from(out)).stderr(Stdio::from(err));
            unsafe {
                cmd.pre_exec(|| {
                    libc::prctl(libc::PR_SET_PDEATHSIG, libc::SIGKILL);
                    Ok(())
                });
            }
            let mut child = cmd.spawn().map_err(|e| format!("cannot start {}: {}", bin, e))?;
            let addr: SocketAddr = format!("127.0.0.1:{}", port).parse().unwrap();
            let t0 = Instant::now();
            let mut up = false;
            let mut exited = false;
            while t0.elapsed() < Duration::from_secs(10) {
                if let Ok(Some(_)) = child.try_wait() {
                    exited = true;
                    break;
                }
                if listening(child.id(), port) {
                    up = true;
                    break;
                }
                std::thread::sleep(Duration::from_millis(5));
            }
            if up {
                std::thread::sleep(Duration::from_millis(30));
                if let Ok(Some(_)) = child.try_wait() {
                    continue; // somebody else answered on that port; our process is gone
                }
                return Ok(Server { _dead: dead_holder.take().unwrap(), child: Some(child), addr, dir, _upstreams: ups, _targets: tgts, accepted: rx, conf_text: conf });
            }
            if exited {
                let stderr = fs::read_to_string(dir.join("stderr.txt")).unwrap_or_default();
                let console = fs::read_to_string(dir.join("console.txt")).unwrap_or_default();
                last_err = format!("server exited at start-up: stderr={:?} console={:?}", stderr, console);
                if stderr.contains("AddrInUse") || stderr.contains("in use") {
                    continue; // the port was taken between the probe and the server's bind
                }
                if stderr.contains("panicked") {
                    return Ok(Server { _dead: dead_holder.take().unwrap(), child: None, addr, dir, _upstreams: ups, _targets: tgts, accepted: rx, conf_text: conf });
                }
                return Err(last_err);
            }
            let _ = child.kill();
            let _ = child.wait();
            last_err = "server did not come up".into();
        }
        Err(last_err)
    }
}

// ------------------------------------------------------------------------------------------------
// client side
// ------------------------------------------------------------------------------------------------

struct Resp {
    status: Option<u16>,
    headers: Vec<(String, String)>,
    body: Vec<u8>,
    nbytes: usize,
    err: String,
}

/// One response delimited by Content-Length. `leftover`: bytes beyond the previous response (kept-alive connection).
fn read_response(s: &mut TcpStream, leftover: &mut Vec<u8>, deadline: Duration) -> Resp {
    s.set_read_timeout(Some(deadline)).ok();
    let mut buf: Vec<u8> = std::mem::take(leftover);
    let mut tmp = [0u8; 4096];
    let strip = |b: &mut Vec<u8>| {
        // the core writes CRLF after a non-empty body (known finding CrlfAfterBody of C01/C07): not this spec's business
        while b.starts_with(b"\r\n") {
            b.drain(..2);
        }
    };
    strip(&mut buf);
    let head_end;
    loop {
        if let Some(p) = buf.windows(4).position(|w| w == b"\r\n\r\n") {
            head_end = p;
            break;
        }
        match s.read(&mut tmp) {
            Ok(0) => return Resp { status: None, headers: vec![], nbytes: buf.len(), body: buf, err: "eof".into() },
            Ok(n) => {
                buf.extend_from_slice(&tmp[..n]);
                strip(&mut buf);
            }
            Err(e) => {
                let kind = format!("{:?}", e.kind());
                let err = if kind == "ConnectionReset" || kind == "BrokenPipe" || kind == "ConnectionAborted" { "eof".to_string() } else { kind };
                return Resp { status: None, headers: vec![], nbytes: buf.len(), body: buf, err };
            }
        }
    }
    let head = String::from_utf8_lossy(&buf[..head_end]).to_string();
    let mut lines = head.split("\r\n");
    let status = lines.next().and_then(|l| l.split(' ').nth(1)).and_then(|c| c.parse::<u16>().ok());
    let headers: Vec<(String, String)> = lines.filter_map(|l| l.split_once(':').map(|(a, b)| (a.trim().to_ascii_lowercase(), b.trim().to_string()))).collect();
    let clen = headers.iter().find(|(k, _)| k == "content-length").and_then(|(_, v)| v.parse::<usize>().ok());
    let mut body = buf[head_end + 4..].to_vec();
    let mut err = String::new();
    match clen {
        Some(n) => {
            while body.len() < n {
                match s.read(&mut tmp) {
                    Ok(0) => break,
                    Ok(k) => body.extend_from_slice(&tmp[..k]),
                    Err(e) => {
                        err = format!("{:?}", e.kind());
                        break;
                    }
                }
            }
            if body.len() > n {
                *leftover = body.split_off(n);
            }
        }
        None => {
            // the core's bare error pages (400, 408) carry no Content-Length; the connection is closed after them
            loop {
                match s.read(&mut tmp) {
                    Ok(0) => break,
                    Ok(k) => body.extend_from_slice(&tmp[..k]),
                    Err(_) => break,
                }
            }
        }
    }
    let nb = head_end + 4 + body.len();
    Resp { status, headers, body, nbytes: nb, err }
}

fn marker_id(body: &str, prefix: &str) -> Option<u64> {
    body.strip_prefix(prefix).and_then(|r| r.trim().parse::<u64>().ok())
}

/// (class, target identity)
fn classify(r: &Resp) -> (String, u64) {
    let body = String::from_utf8_lossy(&r.body).to_string();
    match r.status {
        None => {
            if r.nbytes == 0 && r.err == "eof" {
                ("eof".into(), 0)
            } else {
                (format!("other:no-response({} bytes, {})", r.nbytes, r.err), 0)
            }
        }
        Some(200) => {
            if let Some(k) = marker_id(&body, "SA-FILE-") {
                ("file".into(), k)
            } else if let Some(k) = marker_id(&body, "SA-DIR-") {
                ("directory".into(), k)
            } else if let Some(k) = marker_id(&body, "SA-UP-") {
                ("proxy".into(), k)
            } else {
                (format!("other:200:{}", &body[..body.len().min(40)]), 0)
            }
        }
        Some(301) => {
            let loc = r.headers.iter().find(|(k, _)| k == "location").map(|(_, v)| v.as_str()).unwrap_or("");
            match LOCATIONS.iter().position(|l| *l == loc) {
                Some(i) if r.body.is_empty() => ("redirect".into(), i as u64 + 1),
                _ => (format!("other:301:{}", loc), 0),
            }
        }
        Some(404) => {
            if body == WS_ONLY_TEXT {
                ("wsonly".into(), 0)
            } else if body.trim_end() == CORE_404 {
                ("notfound".into(), 0)
            } else {
                (format!("other:404:{}", &body[..body.len().min(40)]), 0)
            }
        }
        Some(400) => ("bad400".into(), 0),
        Some(408) => ("timeout408".into(), 0),
        Some(c) => (format!("other:{}", c), 0),
    }
}

fn http_request(host: Option<&str>, path: &str, ka: bool, n: usize) -> Vec<u8> {
    // the query string is not part of the path the routes are matched against
    let target = if n % 5 == 3 { format!("{}?q={}", path, n) } else { path.to_string() };
    let mut s = format!("GET {} HTTP/1.1\r\n", target);
    if let Some(h) = host {
        s.push_str(&format!("Host: {}\r\n", h));
    }
    if n % 2 == 1 {
        s.push_str("User-Agent: sa-harness\r\nAccept: */*\r\n");
    }
    if ka {
        s.push_str(if n % 3 == 0 { "Connection: Keep-Alive\r\n" } else { "Connection: keep-alive\r\n" });
    }
    s.push_str("\r\n");
    s.into_bytes()
}

fn upgrade_request(host: Option<&str>, path: &str) -> Vec<u8> {
    let mut s = format!("GET {} HTTP/1.1\r\n", path);
    if let Some(h) = host {
        s.push_str(&format!("Host: {}\r\n", h));
    }
    s.push_str(&format!("Upgrade: websocket\r\nConnection: Upgrade\r\nSec-WebSocket-Key: {}\r\nSec-WebSocket-Version: 13\r\n\r\n", WS_KEY));
    s.into_bytes()
}

fn connect(addr: SocketAddr) -> Result<TcpStream, String> {
    for attempt in 0..3 {
        match TcpStream::connect_timeout(&addr, Duration::from_secs(3)) {
            Ok(s) => {
                s.set_nodelay(true).ok();
                s.set_write_timeout(Some(Duration::from_secs(5))).ok();
                return Ok(s);
            }
            Err(_) => std::thread::sleep(Duration::from_millis(20 * (attempt + 1))),
        }
    }
    Err("connect failed".into())
}

/// reads until `want` bytes arrived, the peer closed, or the deadline passed; then looks briefly for bytes beyond
fn read_n(s: &mut TcpStream, want: usize, deadline: Duration) -> Vec<u8> {
    let t0 = Instant::now();
    let mut out = Vec::new();
    let mut tmp = [0u8; 8192];
    while out.len() < want && t0.elapsed() < deadline {
        s.set_read_timeout(Some(Duration::from_millis(50))).ok();
        match s.read(&mut tmp) {
            Ok(0) => return out,
            Ok(n) => out.extend_from_slice(&tmp[..n]),
            Err(e) if e.kind() == std::io::ErrorKind::WouldBlock || e.kind() == std::io::ErrorKind::TimedOut => {}
            Err(_) => return out,
        }
    }
    // anything beyond what was sent (duplicates, echoes) arrives within a pump iteration (10 ms)
    s.set_read_timeout(Some(Duration::from_millis(25))).ok();
    if let Ok(n) = s.read(&mut tmp) {
        out.extend_from_slice(&tmp[..n]);
    }
    out
}

/// does this side observe the close of the connection (EOF or reset) within the deadline?
fn sees_close(s: &mut TcpStream, deadline: Duration) -> bool {
    let t0 = Instant::now();
    let mut tmp = [0u8; 4096];
    while t0.elapsed() < deadline {
        s.set_read_timeout(Some(Duration::from_millis(50))).ok();
        match s.read(&mut tmp) {
            Ok(0) => return true,
            Ok(_) => {}
            Err(e) if e.kind() == std::io::ErrorKind::WouldBlock || e.kind() == std::io::ErrorKind::TimedOut => {}
            Err(_) => return true,
        }
    }
    false
}

fn bytes_json(b: &[u8]) -> Value {
    Value::Array(b.iter().map(|x| json!(*x)).collect())
}

fn json_bytes(v: &Value) -> Vec<u8> {
    v.as_array().map(|a| a.iter().map(|x| x.as_u64().unwrap_or(0) as u8).collect()).unwrap_or_default()
}

/// Plays a pump script: actions are performed, observation events are filled in with what was seen.
fn play_pump(client: TcpStream, target: TcpStream, script: &[Value]) -> Vec<Value> {
    let mut client = Some(client);
    let mut target = Some(target);
    let mut pend_t = 0usize; // bytes sent by the client not yet accounted for by a tgot
    let mut pend_c = 0usize;
    let mut out = vec![];
    for e in script {
        let ev = e["ev"].as_str().unwrap_or("");
        match ev {
            "csend" => {
                let d = json_bytes(&e["data"]);
                pend_t += d.len();
                if let Some(c) = client.as_mut() {
                    let _ = c.write_all(&d);
                }
                out.push(json!({"ev": ev, "data": e["data"], "seen": false}));
            }
            "tsend" => {
                let d = json_bytes(&e["data"]);
                pend_c += d.len();
                if let Some(t) = target.as_mut() {
                    let _ = t.write_all(&d);
                }
                out.push(json!({"ev": ev, "data": e["data"], "seen": false}));
            }
            "cclose" => {
                client = None;
                out.push(json!({"ev": ev, "data": [], "seen": false}));
            }
            "tclose" => {
                target = None;
                out.push(json!({"ev": ev, "data": [], "seen": false}));
            }
            "tgot" => {
                let got = match target.as_mut() {
                    Some(t) => read_n(t, pend_t, Duration::from_secs(8)),
                    None => vec![],
                };
                pend_t = 0;
                out.push(json!({"ev": ev, "data": bytes_json(&got), "seen": false}));
            }
            "cgot" => {
                let got = match client.as_mut() {
                    Some(c) => read_n(c, pend_c, Duration::from_secs(8)),
                    None => vec![],
                };
                pend_c = 0;
                out.push(json!({"ev": ev, "data": bytes_json(&got), "seen": false}));
            }
            "teof" => {
                let seen = match target.as_mut() {
                    Some(t) => sees_close(t, Duration::from_millis(4000)),
                    None => false,
                };
                out.push(json!({"ev": ev, "data": [], "seen": seen}));
            }
            _ => {
                let seen = match client.as_mut() {
                    Some(c) => sees_close(c, Duration::from_millis(4000)),
                    None => false,
                };
                out.push(json!({"ev": "ceof", "data": [], "seen": seen}));
            }
        }
    }
    out
}

fn head_field(head: &str, name: &str) -> Option<String> {
    head.split("\r\n").skip(1).find_map(|l| l.split_once(':').and_then(|(k, v)| if k.trim().eq_ignore_ascii_case(name) { Some(v.trim().to_string()) } else { None }))
}

// ------------------------------------------------------------------------------------------------
// session
// ------------------------------------------------------------------------------------------------

fn rq_host(rq: &Value) -> Option<String> {
    if rq["hh"].as_bool().unwrap_or(false) {
        Some(chars_to_string(&rq["host"]))
    } else {
        None
    }
}

struct StepObs {
    cls: String,
    tgt: u64,
    pump: Vec<Value>,
    closed: bool, // the connection cannot carry another step
}

/// `script_for`: the pump script to play when the upgrade is proxied (from the vector, or random)
fn run_step(srv: &Server, cfg: &Cfg, stream: &mut Option<TcpStream>, leftover: &mut Vec<u8>, st: &Value, n: usize, script: &[Value]) -> Result<StepObs, String> {
    let op = st["op"].as_str().unwrap_or("");
    let host = rq_host(&st["rq"]);
    let path = chars_to_string(&st["rq"]["path"]);
    let ka = st["ka"].as_bool().unwrap_or(false);
    match op {
        "http" => {
            let s = stream.as_mut().ok_or("no stream")?;
            if s.write_all(&http_request(host.as_deref(), &path, ka, n)).is_err() {
                // a reset may race with our write: whatever the server sent is still readable
            }
            let r = read_response(s, leftover, Duration::from_secs(6));
            let (cls, tgt) = classify(&r);
            let closed = !ka || cls == "eof" || cls.starts_with("other");
            Ok(StepObs { cls, tgt, pump: vec![], closed })
        }
        "bad" => {
            let s = stream.as_mut().ok_or("no stream")?;
            let _ = s.write_all(b"BOGUS / HTTP/1.1\r\nHost: x\r\n\r\n");
            let r = read_response(s, leftover, Duration::from_secs(6));
            let (cls, tgt) = classify(&r);
            Ok(StepObs { cls, tgt, pump: vec![], closed: true })
        }
        "idle" => {
            let s = stream.as_mut().ok_or("no stream")?;
            let r = read_response(s, leftover, Duration::from_millis(cfg.timeout * 1000 + 3000));
            let (cls, tgt) = classify(&r);
            Ok(StepObs { cls, tgt, pump: vec![], closed: true })
        }
        "hangup" => {
            *stream = None;
            // give the worker the time to notice before the next connection is opened (keeps `sat` steps meaningful)
            std::thread::sleep(Duration::from_millis(5));
            Ok(StepObs { cls: "eof".into(), tgt: 0, pump: vec![], closed: true })
        }
        "sat" => {
            // all workers are held by silent connections; the request waits in the pool's queue
            *stream = None;
            let mut holders = vec![];
            for _ in 0..cfg.threads {
                holders.push(connect(srv.addr)?);
            }
            std::thread::sleep(Duration::from_millis(200));
            let mut s = connect(srv.addr)?;
            let _ = s.write_all(&http_request(host.as_deref(), &path, false, n));
            let mut lo = vec![];
            let early = read_response(&mut s, &mut lo, Duration::from_millis(350));
            if early.status.is_some() || early.nbytes > 0 || early.err == "eof" {
                return Ok(StepObs { cls: "other:answered-while-all-workers-held".into(), tgt: 0, pump: vec![], closed: true });
            }
            drop(holders);
            let r = read_response(&mut s, &mut lo, Duration::from_secs(6));
            let (cls, tgt) = classify(&r);
            Ok(StepObs { cls, tgt, pump: vec![], closed: true })
        }
        "ws" => {
            let mut s = stream.take().ok_or("no stream")?;
            // stale hand-offs of earlier steps cannot exist: every proxied step consumes its own
            while srv.accepted.try_recv().is_ok() {}
            let _ = s.write_all(&upgrade_request(host.as_deref(), &path));
            let t0 = Instant::now();
            let mut tmp = [0u8; 1];
            loop {
                if let Ok((k, t, head)) = srv.accepted.recv_timeout(Duration::from_millis(10)) {
                    let head = String::from_utf8_lossy(&head).to_string();
                    let line_ok = head.starts_with(&format!("GET {} HTTP/1.1\r\n", path));
                    let up_ok = head_field(&head, "upgrade").as_deref() == Some("websocket");
                    let key_ok = head_field(&head, "sec-websocket-key").as_deref() == Some(WS_KEY);
                    let host_ok = head_field(&head, "host") == host;
                    if !(line_ok && up_ok && key_ok && host_ok) {
                        return Ok(StepObs { cls: format!("other:forwarded-request-differs:{}", &head[..head.len().min(80)]), tgt: k, pump: vec![], closed: true });
                    }
                    let pump = play_pump(s, t, script);
                    return Ok(StepObs { cls: "proxied".into(), tgt: k, pump, closed: true });
                }
                s.set_read_timeout(Some(Duration::from_millis(1))).ok();
                match s.peek(&mut tmp) {
                    Ok(0) => return Ok(StepObs { cls: "eof".into(), tgt: 0, pump: vec![], closed: true }),
                    Ok(_) => {
                        let mut lo = vec![];
                        let r = read_response(&mut s, &mut lo, Duration::from_secs(2));
                        let (cls, _) = classify(&r);
                        return Ok(StepObs { cls: format!("other:http-answer-to-upgrade:{}", cls), tgt: 0, pump: vec![], closed: true });
                    }
                    Err(e) if e.kind() == std::io::ErrorKind::WouldBlock || e.kind() == std::io::ErrorKind::TimedOut => {}
                    Err(_) => return Ok(StepObs { cls: "eof".into(), tgt: 0, pump: vec![], closed: true }),
                }
                if t0.elapsed() > Duration::from_secs(6) {
                    return Ok(StepObs { cls: "other:upgrade-neither-proxied-nor-closed".into(), tgt: 0, pump: vec![], closed: true });
                }
            }
        }
        _ => Err(format!("unknown op {}", op)),
    }
}

fn classify_line(line: &str) -> Option<(String, String)> {
    // "YYYY-MM-DD HH:MM:SS [TAG]  message"
    let rest = line.get(20..)?;
    let (tag, msg) = if let Some(m) = rest.strip_prefix("[ERROR] ") {
        ("error", m)
    } else if let Some(m) = rest.strip_prefix("[WARN]  ") {
        ("warn", m)
    } else if let Some(m) = rest.strip_prefix("[INFO]  ") {
        ("info", m)
    } else if let Some(m) = rest.strip_prefix("[DEBUG] ") {
        ("debug", m)
    } else {
        return Some(("?".into(), format!("other:{}", &line[..line.len().min(60)])));
    };
    // messages of the monitor carry "<ip>: " in front when the event has a peer
    let body = msg.strip_prefix("127.0.0.1: ").unwrap_or(msg);
    let what = if msg == "Configuration loaded from argument path" {
        "conf-loaded".to_string()
    } else if msg.starts_with("Configuration: ") {
        "configuration".into()
    } else if msg == "Starting server" {
        "starting".into()
    } else if msg.starts_with("Running at ") {
        "running".into()
    } else if body.starts_with("200 OK (cached) ") {
        "200-cached".into()
    } else if body.starts_with("200 OK ") {
        "200".into()
    } else if msg.starts_with("Cached route ") {
        "cached-route".into()
    } else if body.starts_with("301 Moved Permanently ") {
        "301".into()
    } else if body == "WebSocket connected, proxying data" {
        "ws-connected".into()
    } else if body == "Could not connect to WebSocket" {
        "ws-failed".into()
    } else if body == "Connection successful" {
        "ConnectionSuccess".into()
    } else if body == "Handler sent in thread pool" {
        "ThreadPoolProcessStarted".into()
    } else if body == "Connection closed" {
        "ConnectionClosed".into()
    } else if body == "Connection kept alive after response" {
        "KeepAliveRespected".into()
    } else if body == "400 Bad Request" {
        "RequestServedError".into()
    } else if body == "408 Request Timeout" {
        "RequestTimeout".into()
    } else if body.starts_with("Thread pool panic: ") {
        "ThreadPoolPanic".into()
    } else if body.starts_with("Thread restarted: ") {
        "ThreadRestarted".into()
    } else if body == "Thread pool overloaded" {
        "ThreadPoolOverload".into()
    } else if body.starts_with("Stream disconnected while waiting") {
        "StreamDisconnectedWhileWaiting".into()
    } else if body.starts_with("WebSocket connection requested") {
        "WebsocketConnectionRequested".into()
    } else if body.starts_with("WebSocket connection closed") {
        "WebsocketConnectionClosed".into()
    } else if body.starts_with("Request served") {
        "RequestServedSuccess".into()
    } else if body.starts_with("Connection denied") {
        "ConnectionDenied".into()
    } else if body.starts_with("Connection error") {
        "ConnectionError".into()
    } else if body.starts_with("Redirected to HTTPS") {
        "HTTPSRedirect".into()
    } else {
        format!("other:{}", &msg[..msg.len().min(60)])
    };
    Some((tag.to_string(), what))
}

fn count_lines(text: &str) -> BTreeMap<(String, String), u64> {
    let mut m = BTreeMap::new();
    for l in text.lines() {
        if l.trim().is_empty() {
            continue;
        }
        let (sev, what) = classify_line(l).unwrap_or(("?".into(), format!("other:{}", &l[..l.len().min(60)])));
        *m.entry((sev, what)).or_insert(0) += 1;
    }
    m
}

fn lines_json(m: &BTreeMap<(String, String), u64>) -> Value {
    Value::Array(m.iter().map(|((s, w), n)| json!({"sev": s, "what": w, "n": n})).collect())
}

fn total(m: &BTreeMap<(String, String), u64>) -> u64 {
    m.values().sum()
}

#[derive(Default)]
struct Stats {
    servers: u64,
    startup_panics: u64,
    steps: u64,
    skipped: u64,
    proxied: u64,
    pump_events: u64,
    pump_bytes: u64,
    merged_sections: u64,
    by_class: BTreeMap<String, u64>,
    log_lines: u64,
    mismatches: u64,
    first: Vec<Value>,
    samples: Vec<Value>,
    errors: Vec<String>,
}

/// Runs the session `conns` (planned steps; `exp` fields optional) on a fresh server. Returns the trace record.
fn run_record(bin: &str, base: &Path, name: &str, rec: &Value, rng: &mut Rng, st: &mut Stats, random_pump: bool) -> Result<Value, String> {
    let cfg = cfg_from(&rec["cfg"]);
    let mut merged = 0u64;
    let srv = Server::start(bin, base, name, &cfg, rng, &mut merged)?;
    st.servers += 1;
    st.merged_sections += merged;
    if srv.child.is_none() {
        st.startup_panics += 1;
        if rec.get("startup").and_then(|x| x.as_str()).map(|x| x != "panic").unwrap_or(false) {
            st.mismatches += 1;
            st.first.push(json!({"what": "the server panicked at start-up", "cfg": rec["cfg"], "conf": srv.conf_text, "exp": rec["startup"]}));
        }
        return Ok(json!({"cfg": cfg_json(&cfg), "startup": "panic", "conns": [], "flines": [], "clines": [], "fexists": false}));
    }
    if rec.get("startup").and_then(|x| x.as_str()) == Some("panic") {
        st.mismatches += 1;
        st.first.push(json!({"what": "the server started although the model expects a start-up panic", "cfg": rec["cfg"], "conf": srv.conf_text}));
    }
    let mut conns_out = vec![];
    let mut counter = 0usize;
    let mut dead_streak = 0usize;
    let empty = vec![];
    for (ci, conn) in rec["conns"].as_array().unwrap_or(&empty).iter().enumerate() {
        let steps = conn.as_array().unwrap_or(&empty);
        // a `sat` step opens its own connections (the workers must be held before the request arrives)
        let first_op = steps.first().map(|x| x["op"].as_str().unwrap_or("")).unwrap_or("");
        let mut stream = if first_op == "sat" || dead_streak >= 4 { None } else { Some(connect(srv.addr)?) };
        let mut leftover = vec![];
        let mut closed = false;
        let mut steps_out = vec![];
        for (si, step) in steps.iter().enumerate() {
            counter += 1;
            st.steps += 1;
            if closed || dead_streak >= 4 {
                st.skipped += 1;
                if step.get("reached").and_then(|x| x.as_bool()) == Some(true) {
                    st.mismatches += 1;
                    if st.first.len() < 200 {
                        st.first.push(json!({"what": "the connection was closed before this step", "conn": ci, "step": si, "cfg": rec["cfg"], "conf": srv.conf_text, "op": step["op"], "ka": step["ka"], "rq": step["rq"], "exp": step["exp"]}));
                    }
                }
                steps_out.push(json!({"op": step["op"], "rq": step["rq"], "ka": step["ka"], "obs": {"cls": "skipped", "tgt": 0}, "pump": []}));
                continue;
            }
            let script: Vec<Value> = if random_pump || step.get("pump").is_none() {
                random_script(rng)
            } else {
                // the vector carries the script with the expected observations; only the actions are used here
                step["pump"].as_array().cloned().unwrap_or_default()
            };
            let o = run_step(&srv, &cfg, &mut stream, &mut leftover, step, counter, &script)?;
            closed = o.closed;
            // a server that has stopped answering (every worker wedged) is not asked dozens of times more, each time up
            // to the read deadline: the rest of the session is recorded as skipped (and reported, where an answer was due)
            if o.cls.starts_with("other:no-response") || o.cls.starts_with("other:upgrade-neither") {
                dead_streak += 1;
            } else {
                dead_streak = 0;
            }
            *st.by_class.entry(o.cls.split(':').next().unwrap_or("").to_string()).or_insert(0) += 1;
            if o.cls == "proxied" {
                st.proxied += 1;
                st.pump_events += o.pump.len() as u64;
                st.pump_bytes += o.pump.iter().filter(|e| e["ev"] == "tgot" || e["ev"] == "cgot").map(|e| e["data"].as_array().map(|a| a.len()).unwrap_or(0) as u64).sum::<u64>();
            }
            if let Some(exp) = step.get("exp") {
                let exp_cls = exp["cls"].as_str().unwrap_or("");
                let exp_tgt = exp["tgt"].as_u64().unwrap_or(0);
                let reached = step["reached"].as_bool().unwrap_or(true);
                let ans_ok = reached && exp_cls == o.cls && exp_tgt == o.tgt;
                let pump_ok = o.cls != "proxied" || !ans_ok || Value::Array(o.pump.clone()) == step["pump"];
                if !ans_ok || !pump_ok {
                    st.mismatches += 1;
                    if st.first.len() < 200 {
                        let pump_diff = if !pump_ok { first_pump_diff(&o.pump, step["pump"].as_array().unwrap_or(&empty)) } else { Value::Null };
                        st.first.push(json!({"what": if !ans_ok { "answer" } else { "pump" }, "conn": ci, "step": si, "cfg": rec["cfg"], "conf": srv.conf_text,
                            "op": step["op"], "rq": step["rq"], "ka": step["ka"], "exp": step["exp"], "reached": reached, "model": step["model"],
                            "got": {"cls": o.cls, "tgt": o.tgt}, "pump_diff": pump_diff}));
                    }
                } else if st.samples.len() < 6 && (o.cls == "proxied" || o.cls == "redirect" || o.cls == "wsonly") && counter % 7 == 0 {
                    st.samples.push(json!({"host_header": rq_host(&step["rq"]), "path": chars_to_string(&step["rq"]["path"]), "kind": step["op"],
                        "answer": {"cls": o.cls, "tgt": o.tgt}, "config": srv.conf_text}));
                }
            }
            steps_out.push(json!({"op": step["op"], "rq": step["rq"], "ka": step["ka"], "obs": {"cls": o.cls, "tgt": o.tgt}, "pump": o.pump}));
        }
        drop(stream);
        conns_out.push(Value::Array(steps_out));
    }
    // the monitor thread writes asynchronously: wait until both sinks are quiet
    let fpath = srv.dir.join("server.log");
    let cpath = srv.dir.join("console.txt");
    let read = |p: &Path| fs::read_to_string(p).unwrap_or_default();
    // done when, three times in a row, no thread of the server is runnable (a thread with work to do that merely has not
    // been scheduled yet is in state R, not S) and neither sink has grown
    let pid = srv.child.as_ref().map(|c| c.id()).unwrap_or(0);
    let mut prev = (read(&fpath).len(), read(&cpath).len());
    let mut quiet = 0;
    let t0 = Instant::now();
    while quiet < 3 && t0.elapsed() < Duration::from_secs(8) {
        std::thread::sleep(Duration::from_millis(30));
        let idle = threads_idle(pid);
        let cur = (read(&fpath).len(), read(&cpath).len());
        if cur == prev && idle {
            quiet += 1;
        } else {
            quiet = 0;
            prev = cur;
        }
    }
    let fexists = fpath.exists();
    let fl = count_lines(&read(&fpath));
    let cl = count_lines(&read(&cpath));
    st.log_lines += total(&fl) + total(&cl);
    let stderr = read(&srv.dir.join("stderr.txt"));
    if !stderr.trim().is_empty() && st.errors.len() < 5 {
        // panics are relayed through the monitor (the Error mask is always subscribed): stderr stays empty
        st.errors.push(format!("server wrote to stderr: {}", &stderr[..stderr.len().min(300)]));
    }
    Ok(json!({"cfg": cfg_json(&cfg), "startup": "up", "conns": conns_out, "flines": lines_json(&fl), "clines": lines_json(&cl), "fexists": fexists}))
}

fn first_pump_diff(got: &[Value], exp: &[Value]) -> Value {
    for (i, (g, e)) in got.iter().zip(exp.iter()).enumerate() {
        if g != e {
            let gl = g["data"].as_array().map(|a| a.len()).unwrap_or(0);
            let el = e["data"].as_array().map(|a| a.len()).unwrap_or(0);
            return json!({"event": i, "ev": e["ev"], "expected_bytes": el, "got_bytes": gl, "expected_seen": e["seen"], "got_seen": g["seen"]});
        }
    }
    json!({"event": got.len().min(exp.len()), "lengths": [got.len(), exp.len()]})
}

// ------------------------------------------------------------------------------------------------
// replay of TLC's vectors
// ------------------------------------------------------------------------------------------------

fn merge(t: &mut Stats, s: Stats) {
    t.servers += s.servers;
    t.startup_panics += s.startup_panics;
    t.steps += s.steps;
    t.skipped += s.skipped;
    t.proxied += s.proxied;
    t.pump_events += s.pump_events;
    t.pump_bytes += s.pump_bytes;
    t.merged_sections += s.merged_sections;
    t.log_lines += s.log_lines;
    t.mismatches += s.mismatches;
    for (k, v) in s.by_class {
        *t.by_class.entry(k).or_insert(0) += v;
    }
    for m in s.first {
        if t.first.len() < 400 {
            t.first.push(m);
        }
    }
    for m in s.samples {
        if t.samples.len() < 6 {
            t.samples.push(m);
        }
    }
    for e in s.errors {
        if t.errors.len() < 10 {
            t.errors.push(e);
        }
    }
}

fn run_all(bin: &str, base: &Path, threads: usize, recs: Vec<Value>, random_pump: bool, tag: &str) {
    let n = recs.len();
    let queue: Mutex<VecDeque<(usize, Value)>> = Mutex::new(recs.into_iter().enumerate().collect());
    let total = Mutex::new(Stats::default());
    let outs: Mutex<BTreeMap<usize, Value>> = Mutex::new(BTreeMap::new());
    let seed = seed_from_env();
    std::thread::scope(|sc| {
        for _ in 0..threads.max(1) {
            sc.spawn(|| loop {
                let item = queue.lock().unwrap().pop_front();
                let (i, rec) = match item {
                    Some(x) => x,
                    None => break,
                };
                let mut st = Stats::default();
                let mut rng = Rng::new(seed.wrapping_mul(1000003).wrapping_add(i as u64));
                match run_record(bin, base, &format!("{}{}-{}", tag, std::process::id(), i), &rec, &mut rng, &mut st, random_pump) {
                    Ok(v) => {
                        outs.lock().unwrap().insert(i, v);
                    }
                    Err(e) => st.errors.push(format!("record {}: {}", i, e)),
                }
                merge(&mut total.lock().unwrap(), st);
            });
        }
    });
    let t = total.into_inner().unwrap();
    for m in &t.first {
        out_line(&json!({"mismatch": m}));
    }
    for (_, v) in outs.into_inner().unwrap() {
        out_line(&json!({"rec": v}));
    }
    out_line(&json!({"summary": true, "records": n, "servers": t.servers, "startup_panics": t.startup_panics, "steps": t.steps, "skipped_steps": t.skipped,
        "proxied_upgrades": t.proxied, "pump_events": t.pump_events, "pump_bytes": t.pump_bytes, "merged_sections": t.merged_sections,
        "by_class": t.by_class, "log_lines": t.log_lines, "mismatches": t.mismatches, "errors": t.errors, "samples": t.samples}));
}

fn replay(bin: &str, base: &Path, threads: usize) {
    let mut recs = vec![];
    for line in stdin_lines() {
        if let Ok(v) = serde_json::from_str::<Value>(&line) {
            if v.get("cfg").is_some() && v.get("conns").is_some() {
                recs.push(v);
            }
        }
    }
    run_all(bin, base, threads, recs, false, "v");
}

// ------------------------------------------------------------------------------------------------
// random configurations and sessions
// ------------------------------------------------------------------------------------------------

const PATS: [&str; 12] = ["/a", "/b", "/c", "/*", "/d/*", "*", "/d*", "/*a", "/d/a", "*a", "/d/b", "/"];
const PATHS: [&str; 7] = ["/a", "/b", "/c", "/d/a", "/d/b", "/", "/d/"];
const HOST_PATS: [&str; 9] = ["h1", "h*", "*1", "h2", "*.h1", "h1:80", "*:80", "h?", "*h*"];
const HOST_VALUES: [&str; 7] = ["h1", "h2", "x.h1", "h1:80", "H1", "h?", "other"];
// (type, tgt, wt)
const KINDS: [(&str, u64, u64); 20] = [
    ("file", 1, 0), ("file", 2, 0), ("file", 3, 0), ("directory", 1, 0), ("directory", 2, 0), ("proxy", 1, 0), ("proxy", 2, 0),
    ("redirect", 1, 0), ("redirect", 2, 0), ("redirect", 3, 0), ("websocket", 0, 1), ("websocket", 0, 2), ("websocket", 0, 3),
    ("file", 1, 2), ("file", 2, 3), ("directory", 2, 1), ("proxy", 2, 3), ("proxy", 1, 1), ("redirect", 3, 1), ("redirect", 1, 2),
];

fn random_route(rng: &mut Rng) -> Route {
    let (ty, tgt, wt) = *rng.pick(&KINDS);
    Route { pat: rng.pick(&PATS).to_string(), ty: ty.to_string(), tgt, wt }
}

fn random_cfg(rng: &mut Rng) -> Cfg {
    let nh = if rng.chance(1, 4) { 0 } else { rng.range(1, 4) };
    let mut hosts = vec![];
    for _ in 0..nh {
        let pat = if rng.chance(1, 40) { "*".to_string() } else { rng.pick(&HOST_PATS).to_string() };
        let nr = rng.range(0, 6);
        let mut routes: Vec<Route> = (0..nr).map(|_| random_route(rng)).collect();
        // repeat a body on the next route now and then so that multi-pattern sections are written
        for k in 1..routes.len() {
            if rng.chance(1, 4) {
                let (ty, tgt, wt) = (routes[k - 1].ty.clone(), routes[k - 1].tgt, routes[k - 1].wt);
                routes[k].ty = ty;
                routes[k].tgt = tgt;
                routes[k].wt = wt;
            }
        }
        hosts.push(Host { pat, routes });
    }
    let nd = rng.range(0, 6);
    let mut def: Vec<Route> = (0..nd).map(|_| random_route(rng)).collect();
    for k in 1..def.len() {
        if rng.chance(1, 4) {
            let (ty, tgt, wt) = (def[k - 1].ty.clone(), def[k - 1].tgt, def[k - 1].wt);
            def[k].ty = ty;
            def[k].tgt = tgt;
            def[k].wt = wt;
        }
    }
    Cfg {
        hosts,
        def,
        dws: *rng.pick(&[0, 0, 1, 2, 3]),
        cache: rng.chance(1, 2),
        level: rng.pick(&["error", "warn", "info", "debug"]).to_string(),
        console: !rng.chance(1, 4),
        file: !rng.chance(1, 4),
        threads: rng.range(1, 4) as u64,
        timeout: if rng.chance(1, 6) { 1 } else { 0 },
    }
}

fn random_rq(rng: &mut Rng, kind: &str) -> Value {
    let hh = !rng.chance(1, 6);
    let host = if hh { rng.pick(&HOST_VALUES).to_string() } else { String::new() };
    let path: &str = PATHS[rng.below(PATHS.len())];
    json!({"kind": kind, "hh": hh, "host": string_to_chars(&host), "path": string_to_chars(path)})
}

fn null_rq() -> Value {
    json!({"kind": "http", "hh": false, "host": [], "path": []})
}

fn masked_frame(rng: &mut Rng, opcode: u8, len: usize) -> Vec<u8> {
    let mut f = vec![0x80 | opcode];
    if len < 126 {
        f.push(0x80 | len as u8);
    } else {
        f.push(0x80 | 126);
        f.push((len >> 8) as u8);
        f.push((len & 255) as u8);
    }
    let mask = rng.bytes(4);
    f.extend_from_slice(&mask);
    for i in 0..len {
        f.push(rng.byte() ^ mask[i % 4]);
    }
    f
}

fn plain_frame(rng: &mut Rng, opcode: u8, len: usize) -> Vec<u8> {
    let mut f = vec![0x80 | opcode];
    if len < 126 {
        f.push(len as u8);
    } else {
        f.push(126);
        f.push((len >> 8) as u8);
        f.push((len & 255) as u8);
    }
    f.extend(rng.bytes(len));
    f
}

fn frame_len(rng: &mut Rng) -> usize {
    match rng.below(24) {
        0 | 1 => 0,
        2 | 3 => rng.range(1000, 1100), // around the pump's 1024-byte buffer
        4 | 5 => rng.range(2000, 5000), // several reads per frame
        6 => rng.range(20000, 40000),   // dozens of loop iterations, data in both kernel buffers meanwhile
        _ => rng.range(1, 120),
    }
}

fn act(ev: &str, data: &[u8]) -> Value {
    json!({"ev": ev, "data": bytes_json(data), "seen": false})
}

/// handshake answer of the target, a few frames either way (sometimes two sends before the other side looks), then one
/// side closes (after a Close frame or without one) and the other must see the connection close
fn random_script(rng: &mut Rng) -> Vec<Value> {
    let mut s = vec![act("tsend", b"HTTP/1.1 101 Switching Protocols\r\nUpgrade: websocket\r\nConnection: Upgrade\r\nSec-WebSocket-Accept: s3pPLMBiTxaQ9kYGzzhZRbK+xOo=\r\n\r\n"), act("cgot", &[])];
    for _ in 0..rng.range(1, 5) {
        if rng.chance(1, 5) {
            // both directions at once: neither side looks before both have written
            let (n1, n2) = (frame_len(rng), frame_len(rng));
            let f1 = masked_frame(rng, 2, n1);
            let f2 = plain_frame(rng, 2, n2);
            if rng.chance(1, 2) {
                s.push(act("csend", &f1));
                s.push(act("tsend", &f2));
            } else {
                s.push(act("tsend", &f2));
                s.push(act("csend", &f1));
            }
            s.push(act("tgot", &[]));
            s.push(act("cgot", &[]));
        } else if rng.chance(1, 2) {
            let n = frame_len(rng);
            let op = if rng.chance(1, 2) { 1 } else { 2 };
            let f = masked_frame(rng, op, n);
            s.push(act("csend", &f));
            if rng.chance(1, 4) {
                let n2 = rng.range(0, 20);
                let f2 = masked_frame(rng, 9, n2);
                s.push(act("csend", &f2));
            }
            s.push(act("tgot", &[]));
        } else {
            let n = frame_len(rng);
            let op = if rng.chance(1, 2) { 1 } else { 2 };
            let f = plain_frame(rng, op, n);
            s.push(act("tsend", &f));
            if rng.chance(1, 4) {
                let n2 = rng.range(0, 20);
                let f2 = plain_frame(rng, 10, n2);
                s.push(act("tsend", &f2));
            }
            s.push(act("cgot", &[]));
        }
    }
    if rng.chance(1, 2) {
        if rng.chance(2, 3) {
            let f = masked_frame(rng, 8, 2);
            s.push(act("csend", &f));
        }
        s.push(act("cclose", &[]));
        s.push(act("tgot", &[]));
        s.push(act("teof", &[]));
    } else {
        if rng.chance(2, 3) {
            let f = plain_frame(rng, 8, 2);
            s.push(act("tsend", &f));
        }
        s.push(act("tclose", &[]));
        s.push(act("cgot", &[]));
        s.push(act("ceof", &[]));
    }
    s
}

fn random_session(rng: &mut Rng, cfg: &Cfg) -> Vec<Value> {
    let mut conns = vec![];
    let n = rng.range(12, 28);
    for _ in 0..n {
        let c = match rng.below(20) {
            0..=9 => vec![json!({"op": "http", "rq": random_rq(rng, "http"), "ka": false})],
            10..=14 => vec![json!({"op": "ws", "rq": random_rq(rng, "ws"), "ka": false})],
            15..=17 => {
                // a kept-alive connection; a path is repeated so that the cache (if on) answers
                let mut v = vec![];
                let first = random_rq(rng, "http");
                let k = rng.range(2, 5);
                for j in 0..k {
                    let rq = if j > 0 && rng.chance(1, 2) { first.clone() } else { random_rq(rng, "http") };
                    v.push(json!({"op": "http", "rq": rq, "ka": j + 1 < k || rng.chance(1, 2)}));
                }
                if v.last().map(|x| x["ka"] == true).unwrap_or(false) {
                    if rng.chance(1, 3) {
                        v.push(json!({"op": "ws", "rq": random_rq(rng, "ws"), "ka": false}));
                    } else {
                        v.push(json!({"op": "hangup", "rq": null_rq(), "ka": false}));
                    }
                }
                v
            }
            18 => vec![json!({"op": "bad", "rq": null_rq(), "ka": false})],
            _ => vec![json!({"op": "hangup", "rq": null_rq(), "ka": false})],
        };
        conns.push(Value::Array(c));
    }
    if cfg.timeout > 0 {
        conns.push(json!([{"op": "idle", "rq": null_rq(), "ka": false}]));
    }
    // (not with a timeout: the silent connections that hold the workers must stay silent without being answered 408)
    if cfg.timeout == 0 && rng.chance(1, 3) {
        conns.push(json!([{"op": "sat", "rq": random_rq(rng, "http"), "ka": false}]));
    }
    conns
}

fn random(bin: &str, base: &Path, n: usize, threads: usize) {
    let mut rng = Rng::from_env();
    let mut recs = vec![];
    for _ in 0..n {
        let cfg = random_cfg(&mut rng);
        let conns = random_session(&mut rng, &cfg);
        recs.push(json!({"cfg": cfg_json(&cfg), "conns": conns}));
    }
    run_all(bin, base, threads, recs, true, "r");
}

/// the minimal reproduction of PumpIgnoresEof, by hand: what each side sees after the other one closed
fn hand(bin: &str, base: &Path) {
    let cfg = Cfg { hosts: vec![], def: vec![Route { pat: "/ws".into(), ty: "websocket".into(), tgt: 0, wt: 1 }, Route { pat: "/*".into(), ty: "file".into(), tgt: 1, wt: 0 }],
        dws: 0, cache: false, level: "error".into(), console: false, file: false, threads: 2, timeout: 0 };
    let mut rng = Rng::new(1);
    let mut merged = 0;
    let srv = match Server::start(bin, base, "hand", &cfg, &mut rng, &mut merged) {
        Ok(s) => s,
        Err(e) => {
            eprintln!("{}", e);
            std::process::exit(3)
        }
    };
    let mut results = vec![];
    for closer in ["cclose", "tclose"] {
        let step = json!({"op": "ws", "rq": {"kind": "ws", "hh": true, "host": string_to_chars("h1"), "path": string_to_chars("/ws")}, "ka": false});
        let script = vec![act("tsend", b"HTTP/1.1 101 S\r\n\r\n"), act("cgot", &[]), act("csend", b"abc"), act("tgot", &[]), act(closer, &[]),
                          act(if closer == "cclose" { "teof" } else { "ceof" }, &[])];
        let mut stream = connect(srv.addr).ok();
        let mut lo = vec![];
        match run_step(&srv, &cfg, &mut stream, &mut lo, &step, 1, &script) {
            Ok(o) => results.push(json!({"closer": closer, "answer": o.cls, "other_side_saw_close": o.pump.last().map(|e| e["seen"].clone())})),
            Err(e) => results.push(json!({"closer": closer, "error": e})),
        }
    }
    // with both workers stuck in dead pumps (threads 2) a plain request is never answered
    let mut stream = connect(srv.addr).ok();
    let mut lo = vec![];
    let step = json!({"op": "http", "rq": {"kind": "http", "hh": true, "host": string_to_chars("h1"), "path": string_to_chars("/x")}, "ka": false});
    let plain = match stream.as_mut() {
        Some(s) => {
            let _ = s.write_all(&http_request(Some("h1"), "/x", false, 0));
            let r = read_response(s, &mut lo, Duration::from_secs(2));
            classify(&r).0
        }
        None => "connect failed".into(),
    };
    let _ = step;
    out_line(&json!({"hand": results, "plain_request_after_two_closed_websockets": plain}));
}

fn main() {
    quiet_panics();
    let a: Vec<String> = std::env::args().collect();
    match a.get(1).map(|s| s.as_str()) {
        Some("replay") if a.len() >= 4 => {
            fs::create_dir_all(&a[3]).expect("workdir");
            replay(&a[2], Path::new(&a[3]), a.get(4).and_then(|s| s.parse().ok()).unwrap_or(6))
        }
        Some("random") if a.len() >= 5 => {
            fs::create_dir_all(&a[3]).expect("workdir");
            random(&a[2], Path::new(&a[3]), a[4].parse().unwrap(), a.get(5).and_then(|s| s.parse().ok()).unwrap_or(6))
        }
        Some("hand") if a.len() >= 4 => {
            fs::create_dir_all(&a[3]).expect("workdir");
            hand(&a[2], Path::new(&a[3]))
        }
        _ => {
            eprintln!("usage: serverapp replay <server-bin> <workdir> [threads] | random <server-bin> <workdir> <n> [threads] | hand <server-bin> <workdir>");
            std::process::exit(2)
        }
    }
}
