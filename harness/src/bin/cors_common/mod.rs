//! Shared by the threaded CORS harness (harness/src/bin/cors.rs) and its tokio twin
//! (harness-tokio/src/bin/cors.rs, which includes this file by path): builder-call model of an app (the calls of
//! spec/cors/Cors.tla), the real `Cors` values built through the public builder, what each handler kind puts
//! on its response, a raw TCP client that records status + every Access-Control-* header + the handler's
//! identity, replay of TLC vectors and random builder sequences logged for Trace_Cors.tla.
//! The including file provides `util` (hv::util / hvt::util) and an implementation of `Server` that builds
//! and runs the REAL App from a call sequence.
use super::util::*;
use humphrey::http::cors::Cors;
use humphrey::http::headers::HeaderType;
use humphrey::http::method::Method;
use humphrey::http::{Response, StatusCode};
use serde_json::{json, Value};
use std::collections::VecDeque;
use std::io::{Read, Write};
use std::net::{SocketAddr, TcpListener, TcpStream};
use std::sync::{Arc, Mutex};
use std::thread;
use std::time::Duration;

/// A real app, built from builder calls, listening on a loopback port.
pub trait Server: Sized {
    /// App::with_default_subapp exists (threaded App only).
    const FULL_API: bool;
    fn start(calls: &[Call]) -> Result<Self, String>;
    fn port(&self) -> u16;
    /// Stops the app through its shutdown signal; false when `run` did not return within 10 s.
    fn stop(self) -> bool;
}

// ------------------------------------------------------------------------------------------------
// builder calls (the `calls` of Cors.tla; unused fields are "" / [])
// ------------------------------------------------------------------------------------------------
#[derive(Clone, Debug)]
pub struct CorsOp {
    pub f: String,
    pub a: String,
}
#[derive(Clone, Debug)]
pub struct Call {
    pub op: String,
    pub pat: String,
    pub hk: String,
    pub hp: String,
    pub cors: Vec<CorsOp>,
}

fn s(v: &Value, k: &str) -> String {
    v.get(k).and_then(|x| x.as_str()).unwrap_or("").to_string()
}
pub fn call_from_json(v: &Value) -> Call {
    Call {
        op: s(v, "op"),
        pat: s(v, "pat"),
        hk: s(v, "hk"),
        hp: s(v, "hp"),
        cors: v.get("cors").and_then(|c| c.as_array()).map(|a| a.iter().map(|o| CorsOp { f: s(o, "f"), a: s(o, "a") }).collect()).unwrap_or_default(),
    }
}
pub fn call_to_json(c: &Call) -> Value {
    json!({"op": c.op, "pat": c.pat, "hk": c.hk, "hp": c.hp,
           "cors": c.cors.iter().map(|o| json!({"f": o.f, "a": o.a})).collect::<Vec<_>>()})
}

/// The real `Cors` value of a builder chain, through the public API only. `spell` varies how a header name is
/// handed to `with_header` (a `HeaderType` for the known ones on odd chains, the string otherwise).
pub fn build_cors(ops: &[CorsOp], spell: usize) -> Cors {
    let mut c = Cors::new();
    for (i, o) in ops.iter().enumerate() {
        c = match o.f.as_str() {
            "new" => {
                assert!(i == 0, "constructor in the middle of a chain");
                if spell % 2 == 0 { Cors::new() } else { Cors::default() }
            }
            "wildcard" => {
                assert!(i == 0, "constructor in the middle of a chain");
                Cors::wildcard()
            }
            "wild_origin" => c.with_wildcard_origin(),
            "wild_methods" => c.with_wildcard_methods(),
            "wild_headers" => c.with_wildcard_headers(),
            "origin" => c.with_origin(&o.a),
            "method" => c.with_method(Method::from_name(&o.a).expect("method name")),
            "header" => {
                let lower = o.a.to_ascii_lowercase();
                if spell % 2 == 1 && lower == "content-type" {
                    c.with_header(HeaderType::ContentType)
                } else if spell % 2 == 1 && lower == "authorization" {
                    c.with_header(HeaderType::Authorization)
                } else if spell % 3 == 2 {
                    c.with_header(o.a.clone())
                } else {
                    c.with_header(o.a.as_str())
                }
            }
            other => panic!("unknown Cors builder op {}", other),
        };
    }
    c
}

/// The response of a handler of kind `hk` registered by call number `at` (Cors.tla: HandlerHeaders, in this
/// order). Header names are given as `HeaderType` or as strings in various spellings: both are `HeaderLike`.
pub fn handler_response(hk: &str, at: usize) -> Response {
    let r = Response::new(StatusCode::OK, format!("at={}", at).as_bytes());
    match hk {
        "plain" => r.with_header(HeaderType::ContentType, "text/plain"),
        "ownO" => r.with_header(HeaderType::AccessControlAllowOrigin, "http://own.test").with_header("Content-Type", "text/plain"),
        "ownM" => r.with_header("Access-Control-Allow-Methods", "PATCH"),
        "ownH" => r.with_header(HeaderType::ContentType, "text/plain").with_header("access-control-allow-headers", "x-own"),
        "ownAll" => r
            .with_header(HeaderType::AccessControlAllowHeaders, "x-own")
            .with_header("ACCESS-CONTROL-ALLOW-ORIGIN", "http://own.test")
            .with_header("Access-Control-Allow-Credentials", "true")
            .with_header(HeaderType::AccessControlAllowMethods, "PATCH"),
        "cred" => r.with_header("access-control-allow-credentials", "true"),
        "dupO" => r
            .with_header(HeaderType::AccessControlAllowOrigin, "http://own1.test")
            .with_header(HeaderType::ContentType, "text/plain")
            .with_header("access-control-allow-origin", "http://own2.test"),
        other => panic!("unknown handler kind {}", other),
    }
}

pub fn free_port() -> u16 {
    let l = TcpListener::bind("127.0.0.1:0").expect("bind 127.0.0.1:0");
    l.local_addr().unwrap().port()
}

// ------------------------------------------------------------------------------------------------
// raw TCP client
// ------------------------------------------------------------------------------------------------
#[derive(Clone, Debug)]
pub struct Rq {
    pub m: String,
    pub host: String,
    pub path: String,
    /// value of the Origin header sent with the request ("" = none)
    pub origin: String,
}
fn rq_from_json(v: &Value) -> Rq {
    Rq { m: s(v, "m"), host: s(v, "host"), path: s(v, "path"), origin: s(v, "origin") }
}
fn rq_to_json(rq: &Rq) -> Value {
    json!({"m": rq.m, "host": rq.host, "path": rq.path, "origin": rq.origin})
}

/// The tokens of all lines of one header name: split at ",", trimmed, empty ones dropped, sorted, without repetition
/// (`lower`: header names inside Access-Control-Allow-Headers are case-insensitive). This is only a reading aid for
/// the second, policy-free level of judging (Cors.tla: AcceptSets); the strict level compares the raw lines.
fn tokens(lines: &[String], lower: bool) -> Vec<String> {
    let mut t: Vec<String> = lines
        .iter()
        .flat_map(|l| l.split(','))
        .map(|x| x.trim())
        .filter(|x| !x.is_empty())
        .map(|x| if lower { x.to_ascii_lowercase() } else { x.to_string() })
        .collect();
    t.sort();
    t.dedup();
    t
}
fn as_sorted_set(v: &Value) -> Vec<String> {
    let mut t: Vec<String> = v.as_array().map(|a| a.iter().filter_map(|x| x.as_str().map(|y| y.to_string())).collect()).unwrap_or_default();
    t.sort();
    t.dedup();
    t
}
/// Second level: is the observed token set one of the alternatives TLC printed for this request (acc = AcceptSets)?
fn statement_accepts(acc: &Value, got: &Value) -> bool {
    if acc.get("free").and_then(|f| f.as_bool()) == Some(true) {
        return true;
    }
    ["o", "m", "h"].iter().all(|k| {
        let obs = as_sorted_set(&got["tok"][*k]);
        acc.get(*k).and_then(|alts| alts.as_array()).map(|alts| alts.iter().any(|a| as_sorted_set(a) == obs)).unwrap_or(false)
    })
}

fn find(hay: &[u8], needle: &[u8]) -> Option<usize> {
    hay.windows(needle.len()).position(|w| w == needle)
}

/// One request on a fresh connection (`Connection: close`, read to EOF). A request with an Origin also carries what
/// a browser would send with a preflight (Access-Control-Request-*).
/// Observation: {"status", "ac": {"o","m","h","c","z"}, "at"} (the shape of Cors.tla's Respond) plus
/// "tok": {"o","m","h"} (token sets, see `tokens`). Header names are matched case-insensitively, lines in any order.
fn http_once(port: u16, rq: &Rq) -> Result<Value, String> {
    let mut req = format!("{} {} HTTP/1.1\r\n", rq.m, rq.path);
    if !rq.host.is_empty() {
        req.push_str(&format!("Host: {}\r\n", rq.host));
    }
    if !rq.origin.is_empty() {
        req.push_str(&format!("Origin: {}\r\n", rq.origin));
        if rq.m == "OPTIONS" {
            req.push_str("Access-Control-Request-Method: PUT\r\nAccess-Control-Request-Headers: x-token\r\n");
        }
    }
    req.push_str("Connection: close\r\n");
    if rq.m == "POST" || rq.m == "PUT" {
        req.push_str("Content-Length: 2\r\n\r\nhi");
    } else {
        req.push_str("\r\n");
    }
    let mut last = String::new();
    for _attempt in 0..3 {
        let sa: SocketAddr = format!("127.0.0.1:{}", port).parse().unwrap();
        let mut st = match TcpStream::connect_timeout(&sa, Duration::from_secs(5)) {
            Ok(x) => x,
            Err(e) => {
                last = format!("connect: {}", e);
                continue;
            }
        };
        let _ = st.set_read_timeout(Some(Duration::from_secs(8)));
        let _ = st.set_write_timeout(Some(Duration::from_secs(8)));
        let _ = st.set_nodelay(true);
        if let Err(e) = st.write_all(req.as_bytes()) {
            last = format!("write: {}", e);
            continue;
        }
        let mut buf = Vec::new();
        let mut tmp = [0u8; 4096];
        loop {
            match st.read(&mut tmp) {
                Ok(0) => break,
                Ok(n) => buf.extend_from_slice(&tmp[..n]),
                Err(e) => {
                    last = format!("read: {}", e);
                    break;
                }
            }
        }
        let he = match find(&buf, b"\r\n\r\n") {
            Some(i) => i,
            None => {
                if last.is_empty() {
                    last = format!("no header end in {} bytes", buf.len());
                }
                continue;
            }
        };
        let head = String::from_utf8_lossy(&buf[..he]).to_string();
        let body = String::from_utf8_lossy(&buf[he + 4..]).to_string();
        let mut lines = head.split("\r\n");
        let status: i64 = lines.next().and_then(|l| l.split(' ').nth(1)).and_then(|x| x.parse().ok()).unwrap_or(-1);
        let (mut o, mut m, mut h, mut c, mut z): (Vec<String>, Vec<String>, Vec<String>, Vec<String>, Vec<String>) = Default::default();
        for l in lines {
            let (name, value) = match l.split_once(':') {
                Some((n, v)) => (n.trim().to_ascii_lowercase(), v.strip_prefix(' ').unwrap_or(v).to_string()),
                None => continue,
            };
            if !name.starts_with("access-control-") {
                continue;
            }
            match name.as_str() {
                "access-control-allow-origin" => o.push(value),
                "access-control-allow-methods" => m.push(value),
                "access-control-allow-headers" => h.push(value),
                "access-control-allow-credentials" => c.push(value),
                _ => z.push(format!("{}: {}", name, value)),
            }
        }
        let at: i64 = if status == 200 {
            body.trim_end().strip_prefix("at=").and_then(|x| x.parse().ok()).unwrap_or(-1)
        } else {
            0
        };
        let tok = json!({"o": tokens(&o, false), "m": tokens(&m, false), "h": tokens(&h, true)});
        return Ok(json!({"status": status, "ac": {"o": o, "m": m, "h": h, "c": c, "z": z}, "at": at, "tok": tok}));
    }
    Err(last)
}

/// Building / starting an app may panic (thread spawn failure under load, with_host("*")): that is an error of
/// this app, not the end of the worker. One retry after a pause for resource exhaustion.
fn start_guarded<S: Server>(calls: &[Call]) -> Result<S, String> {
    let mut last = String::new();
    for attempt in 0..2 {
        match std::panic::catch_unwind(std::panic::AssertUnwindSafe(|| S::start(calls))) {
            Ok(Ok(s)) => return Ok(s),
            Ok(Err(e)) => return Err(e),
            Err(p) => {
                last = p.downcast_ref::<String>().cloned().or_else(|| p.downcast_ref::<&str>().map(|x| x.to_string())).unwrap_or_else(|| "panic".into());
                if attempt == 0 {
                    thread::sleep(Duration::from_millis(300));
                }
            }
        }
    }
    Err(format!("panic while building/starting: {}", last))
}

// ------------------------------------------------------------------------------------------------
// replay of TLC vectors: {"reqs":[..]} then {"calls":[..],"exp":[..]} per app
// ------------------------------------------------------------------------------------------------
struct Job {
    id: usize,
    calls: Vec<Call>,
    exp: Vec<Value>,
    /// per request: what the statement alone accepts (Cors.tla AcceptSets)
    accv: Vec<Value>,
}

fn replay<S: Server>(workers: usize) {
    let mut reqs: Vec<Rq> = Vec::new();
    let mut jobs: VecDeque<Job> = VecDeque::new();
    let mut skipped = 0usize;
    for line in stdin_lines() {
        let v: Value = match serde_json::from_str(&line) {
            Ok(v) => v,
            Err(_) => continue,
        };
        if let Some(r) = v.get("reqs").and_then(|r| r.as_array()) {
            reqs = r.iter().map(rq_from_json).collect();
        } else if let Some(cs) = v.get("calls").and_then(|c| c.as_array()) {
            let calls: Vec<Call> = cs.iter().map(call_from_json).collect();
            if !S::FULL_API && calls.iter().any(|c| c.op == "defsub") {
                skipped += 1;
                continue;
            }
            let exp = v.get("exp").and_then(|e| e.as_array()).cloned().unwrap_or_default();
            let accv = v.get("acc").and_then(|e| e.as_array()).cloned().unwrap_or_default();
            jobs.push_back(Job { id: jobs.len() + skipped, calls, exp, accv });
        }
    }
    let njobs = jobs.len();
    let reqs = Arc::new(reqs);
    let queue = Arc::new(Mutex::new(jobs));
    // (apps, requests, mismatches, nontrivial, errors, not stopped, first mismatches, samples)
    let acc = Arc::new(Mutex::new((0usize, 0usize, 0usize, 0usize, Vec::<String>::new(), 0usize, Vec::<Value>::new(), Vec::<Value>::new())));
    // second level: answers that differ from today's code model but that the statement accepts (count, first ones)
    let drift = Arc::new(Mutex::new((0usize, Vec::<Value>::new())));
    let mut hs = Vec::new();
    for _ in 0..workers.max(1) {
        let (queue, acc, reqs, drift) = (queue.clone(), acc.clone(), reqs.clone(), drift.clone());
        hs.push(thread::spawn(move || loop {
            let job = match queue.lock().unwrap().pop_front() {
                Some(j) => j,
                None => break,
            };
            let srv = match start_guarded::<S>(&job.calls) {
                Ok(s) => s,
                Err(e) => {
                    acc.lock().unwrap().4.push(format!("app {}: {}", job.id, e));
                    continue;
                }
            };
            let mut local = (0usize, 0usize, 0usize, Vec::<Value>::new(), Vec::<Value>::new(), Vec::<String>::new());
            for (i, rq) in reqs.iter().enumerate() {
                let exp = job.exp.get(i).cloned().unwrap_or(Value::Null);
                let accepts = job.accv.get(i).cloned().unwrap_or(Value::Null);
                match http_once(srv.port(), rq) {
                    Ok(got) => {
                        local.0 += 1;
                        // non-trivial: the expected answer carries at least one Access-Control-* header
                        let nt = exp.get("ac").and_then(|a| a.as_object()).map(|a| a.values().any(|x| x.as_array().map(|y| !y.is_empty()).unwrap_or(false))).unwrap_or(false);
                        if nt {
                            local.2 += 1;
                        }
                        // level 1: exactly what the code model predicts (status, raw Access-Control-* lines, handler)
                        let strict = got["status"] == exp["status"] && got["ac"] == exp["ac"] && got["at"] == exp["at"];
                        if !strict && statement_accepts(&accepts, &got) {
                            // level 2: not today's code, but still "the matched route's CORS headers": drift, no violation
                            let mut d = drift.lock().unwrap();
                            d.0 += 1;
                            if d.1.len() < 5 {
                                d.1.push(json!({"calls": job.calls.iter().map(call_to_json).collect::<Vec<_>>(),
                                                "req": rq_to_json(rq), "code_model_expected": exp, "statement_accepts": accepts, "got": got}));
                            }
                        } else if !strict {
                            local.1 += 1;
                            if local.3.len() < 3 {
                                local.3.push(json!({"calls": job.calls.iter().map(call_to_json).collect::<Vec<_>>(),
                                                    "req": rq_to_json(rq), "expected": exp, "statement_accepts": accepts, "got": got}));
                            }
                        } else if nt && local.4.is_empty() && job.id % 97 == 0 {
                            local.4.push(json!({"calls": job.calls.iter().map(call_to_json).collect::<Vec<_>>(),
                                                "req": rq_to_json(rq), "got": got}));
                        }
                    }
                    Err(e) => local.5.push(format!("app {} request {}: {}", job.id, i, e)),
                }
            }
            let stopped = srv.stop();
            let mut a = acc.lock().unwrap();
            a.0 += 1;
            a.1 += local.0;
            a.2 += local.1;
            a.3 += local.2;
            a.4.extend(local.5);
            if !stopped {
                a.5 += 1;
            }
            for x in local.3 {
                if a.6.len() < 10 {
                    a.6.push(x);
                }
            }
            for x in local.4 {
                if a.7.len() < 4 {
                    a.7.push(x);
                }
            }
        }));
    }
    for h in hs {
        let _ = h.join();
    }
    let a = acc.lock().unwrap();
    let d = drift.lock().unwrap();
    out_line(&json!({"summary": true, "drifts": d.0, "first_drift": d.1, "jobs": njobs, "skipped_defsub": skipped, "apps": a.0, "requests": a.1, "mismatches": a.2,
                     "nontrivial": a.3, "errors": a.4.len(), "first_errors": a.4.iter().take(5).collect::<Vec<_>>(),
                     "not_stopped": a.5, "first": a.6, "samples": a.7}));
}

// ------------------------------------------------------------------------------------------------
// random builder sequences beyond the bounds of the exhaustive configurations, logged for Trace_Cors.tla
// ------------------------------------------------------------------------------------------------
const PATS: [&str; 5] = ["/a", "/b", "/a/*", "/*", "*"];
const PATHS: [&str; 6] = ["/a", "/b", "/a/x", "/a/", "/c", "/"];
const HOSTPATS: [&str; 4] = ["one.test", "two.test", "*.test", "one.*"];
const HOSTS: [&str; 6] = ["", "one.test", "two.test", "three.test", "one.example", "other.example"];
const HKINDS: [&str; 7] = ["plain", "ownO", "ownM", "ownH", "ownAll", "cred", "dupO"];
const ORIGINS: [&str; 5] = ["http://a.test", "https://b.test:8443", "null", "http://localhost:3000", "https://xn--bcher-kva.example"];
const REQ_ORIGINS: [&str; 4] = ["http://a.test", "https://b.test:8443", "null", "http://evil.test"];
const METHODS: [&str; 5] = ["GET", "POST", "PUT", "DELETE", "OPTIONS"];
const HEADERS: [&str; 9] = ["Content-Type", "content-type", "CONTENT-TYPE", "Authorization", "authorization", "X-Token", "x-token", "X-Api-Key", "x-api-key"];

fn pk(rng: &mut Rng, xs: &[&'static str]) -> &'static str {
    xs[rng.below(xs.len())]
}

fn random_cors(rng: &mut Rng) -> Vec<CorsOp> {
    let mut ops = vec![CorsOp { f: if rng.chance(1, 4) { "wildcard" } else { "new" }.to_string(), a: String::new() }];
    for _ in 0..rng.range(0, 6) {
        let (f, a) = match rng.below(10) {
            0 => ("wild_origin", ""),
            1 => ("wild_methods", ""),
            2 => ("wild_headers", ""),
            3 | 4 | 5 => ("origin", pk(rng, &ORIGINS)),
            6 | 7 => ("method", pk(rng, &METHODS)),
            _ => ("header", pk(rng, &HEADERS)),
        };
        ops.push(CorsOp { f: f.to_string(), a: a.to_string() });
    }
    ops
}

fn random_calls(rng: &mut Rng, full_api: bool) -> Vec<Call> {
    let n = rng.range(2, 16);
    let mut calls = Vec::new();
    let mut pending = false;
    let mk = |op: &str, pat: &str, hk: &str, hp: &str, cors: Vec<CorsOp>| Call { op: op.to_string(), pat: pat.to_string(), hk: hk.to_string(), hp: hp.to_string(), cors };
    for _ in 0..n {
        let k = rng.below(if pending { 16 } else { 9 });
        let c = match k {
            0 | 1 | 2 => mk("route", pk(rng, &PATS), pk(rng, &HKINDS), "", vec![]),
            3 | 4 => mk("cors", "", "", "", random_cors(rng)),
            5 | 6 | 7 => mk("config", pk(rng, &PATS), "", "", random_cors(rng)),
            8 if !pending => {
                pending = true;
                mk("subnew", "", "", "", vec![])
            }
            8 | 9 | 10 => mk("subroute", pk(rng, &PATS), pk(rng, &HKINDS), "", vec![]),
            11 => mk("subcors", "", "", "", random_cors(rng)),
            12 | 13 => mk("subconfig", pk(rng, &PATS), "", "", random_cors(rng)),
            14 if full_api && rng.chance(1, 2) => {
                pending = false;
                mk("defsub", "", "", "", vec![])
            }
            _ => {
                pending = false;
                mk("host", "", "", pk(rng, &HOSTPATS), vec![])
            }
        };
        calls.push(c);
    }
    calls
}

fn random<S: Server>(apps: usize, per_app: usize, workers: usize) {
    let mut rng = Rng::from_env();
    let mut jobs: VecDeque<(usize, Vec<Call>, Vec<Rq>)> = VecDeque::new();
    for id in 0..apps {
        let calls = random_calls(&mut rng, S::FULL_API);
        let reqs: Vec<Rq> = (0..per_app)
            .map(|_| Rq {
                m: pk(&mut rng, &METHODS).to_string(),
                host: pk(&mut rng, &HOSTS).to_string(),
                path: pk(&mut rng, &PATHS).to_string(),
                origin: if rng.chance(1, 3) { String::new() } else { pk(&mut rng, &REQ_ORIGINS).to_string() },
            })
            .collect();
        jobs.push_back((id, calls, reqs));
    }
    let queue = Arc::new(Mutex::new(jobs));
    let out: Arc<Mutex<Vec<(usize, Vec<Value>)>>> = Arc::new(Mutex::new(Vec::new()));
    let errs = Arc::new(Mutex::new(Vec::<String>::new()));
    let mut hs = Vec::new();
    for _ in 0..workers.max(1) {
        let (queue, out, errs) = (queue.clone(), out.clone(), errs.clone());
        hs.push(thread::spawn(move || loop {
            let (id, calls, reqs) = match queue.lock().unwrap().pop_front() {
                Some(j) => j,
                None => break,
            };
            let srv = match start_guarded::<S>(&calls) {
                Ok(s) => s,
                Err(e) => {
                    errs.lock().unwrap().push(format!("app {}: {}", id, e));
                    continue;
                }
            };
            let mut lines = vec![json!({"t": "app", "calls": calls.iter().map(call_to_json).collect::<Vec<_>>(),
                                        "m": "", "host": "", "path": "", "origin": "",
                                        "got": {"status": 0, "ac": {"o": [], "m": [], "h": [], "c": [], "z": []}, "at": 0, "tok": {"o": [], "m": [], "h": []}}})];
            for (i, rq) in reqs.iter().enumerate() {
                match http_once(srv.port(), rq) {
                    Ok(got) => lines.push(json!({"t": "req", "calls": [], "m": rq.m, "host": rq.host, "path": rq.path, "origin": rq.origin, "got": got})),
                    Err(e) => errs.lock().unwrap().push(format!("app {} request {}: {}", id, i, e)),
                }
            }
            if !srv.stop() {
                errs.lock().unwrap().push(format!("app {}: did not stop", id));
            }
            out.lock().unwrap().push((id, lines));
        }));
    }
    for h in hs {
        let _ = h.join();
    }
    let mut all = out.lock().unwrap();
    all.sort_by_key(|x| x.0);
    for (_, lines) in all.iter() {
        for l in lines {
            out_line(l);
        }
    }
    let e = errs.lock().unwrap();
    eprintln!("{}", json!({"summary": true, "apps": all.len(), "errors": e.len(), "first_errors": e.iter().take(5).collect::<Vec<_>>()}));
}

pub fn run_main<S: Server>() {
    quiet_panics();
    let a: Vec<String> = std::env::args().collect();
    let flag = |name: &str| a.iter().position(|x| x == name).and_then(|i| a.get(i + 1)).cloned();
    let workers: usize = flag("--workers").and_then(|s| s.parse().ok()).unwrap_or(8);
    match a.get(1).map(|s| s.as_str()) {
        Some("replay") => replay::<S>(workers),
        Some("random") => random::<S>(a[2].parse().unwrap(), a[3].parse().unwrap(), workers),
        _ => {
            eprintln!("usage: cors replay [--workers N] | cors random <apps> <requests per app> [--workers N]");
            std::process::exit(2)
        }
    }
}
