//! C19 conformance: the REAL `humphrey` server binary (built from the working tree), started from
//! generated configuration files, against the decisions TLC computes from spec/server/Blacklist.tla.
//!
//!   blacklist replay <server-bin> <workdir> [threads]   stdin: one JSON line per (configuration, peer)
//!        {"mode","list","cache","peer","rows":[{"p","es":[{"a","sp"}],"exp":[..],"m":{rt:res},"dev":{d:{rt:res}}}]}
//!        every row is sent for every route type (and, with the cache on, against a cold and a warmed target)
//!        from a client socket BOUND to `peer`; stdout: {"mismatch":..} lines and one {"summary":..} line.
//!   blacklist random <server-bin> <workdir> <sessions> <conns>   stdout: ndjson event log for Trace_Blacklist
//!   blacklist probe                                                 stdout: which source addresses are usable
//!
//! The projection (trusted, kept small): model addresses are IP address texts used verbatim as source
//! address / blacklist line / X-Forwarded-For entry (IPv6 ones also in other textual forms of the same
//! address); the garbage token stands for one of a few strings that are not IP addresses; result classes are
//!   Dropped      = EOF or reset before any byte of a response
//!   Forbidden403 = a response with status 403 that carries none of the routes' content markers
//!   Served       = the route's content: 200 + file/directory/upstream marker, or 301 + the configured Location
//! anything else is reported as Other:<what> and never matches an expectation.
use hv::util::*;
use serde_json::{json, Value};
use std::collections::{BTreeMap, VecDeque};
use std::fs;
use std::io::{Read, Write};
use std::net::{IpAddr, Ipv4Addr, Ipv6Addr, SocketAddr, TcpListener, TcpStream};
use std::os::unix::io::FromRawFd;
use std::os::unix::process::CommandExt;
use std::path::{Path, PathBuf};
use std::process::{Child, Command, Stdio};
use std::sync::atomic::{AtomicBool, AtomicUsize, Ordering};
use std::sync::{Arc, Mutex};
use std::time::{Duration, Instant};

const REDIRECT_TARGET: &str = "http://c19.invalid/target";
const WARM_V4: &str = "127.0.0.77"; // never part of any blacklist: used only to warm the cache
const ROUTE_TYPES: [&str; 4] = ["file", "directory", "proxy", "redirect"];
// entries that are not IP addresses: words, the empty entry, out-of-range / short dotted forms, and a listed
// address written with digits of other scripts (fullwidth, Arabic-Indic, mathematical) or followed by a superscript
// (no host names and no short dotted forms: a resolver or an inet_aton-style parser may legitimately read those as addresses)
const GARBAGE: [&str; 9] = ["unknown", "", "256.1.1.1", "_hidden",
    "\u{ff11}\u{ff12}\u{ff17}.0.0.2", "\u{0661}\u{0662}\u{0667}.\u{0660}.\u{0660}.\u{0662}", "127.0.0.\u{1d7da}", "127.0.0.2\u{00b2}", "\u{2167}"];
// the field name in the cases HTTP/1 clients, HTTP/2 gateways and hand-written tools use
const XFF_NAMES: [&str; 6] = ["X-Forwarded-For", "x-forwarded-for", "X-FORWARDED-FOR", "x-Forwarded-for", "X-forwarded-FOR", "X-Forwarded-for"];
// optional white space (RFC 7230 OWS) written after a comma / before a comma for an entry whose `sp` flag is set
const OWS_LEAD: [&str; 5] = [" ", "  ", "\t", " \t", "\t "];
const OWS_TRAIL: [&str; 3] = ["", " ", "\t"];
// between the field name and the value
const NAME_SEP: [&str; 4] = [": ", ":", ":   ", ":\t"];

// ------------------------------------------------------------------------------------------------
// sockets
// ------------------------------------------------------------------------------------------------

/// TCP connection whose local address is `src` (any port).
fn connect_from(src: IpAddr, dst: SocketAddr, timeout: Duration) -> std::io::Result<TcpStream> {
    unsafe {
        let fam = if src.is_ipv4() { libc::AF_INET } else { libc::AF_INET6 };
        let fd = libc::socket(fam, libc::SOCK_STREAM | libc::SOCK_CLOEXEC, 0);
        if fd < 0 {
            return Err(std::io::Error::last_os_error());
        }
        let one: libc::c_int = 1;
        // let the kernel pick the local port at connect time (4-tuple uniqueness instead of per-address)
        libc::setsockopt(fd, libc::IPPROTO_IP, libc::IP_BIND_ADDRESS_NO_PORT, &one as *const _ as *const libc::c_void, 4);
        let rc = match src {
            IpAddr::V4(a) => {
                let mut sa: libc::sockaddr_in = std::mem::zeroed();
                sa.sin_family = libc::AF_INET as libc::sa_family_t;
                sa.sin_addr.s_addr = u32::from_ne_bytes(a.octets());
                libc::bind(fd, &sa as *const _ as *const libc::sockaddr, std::mem::size_of::<libc::sockaddr_in>() as u32)
            }
            IpAddr::V6(a) => {
                let mut sa: libc::sockaddr_in6 = std::mem::zeroed();
                sa.sin6_family = libc::AF_INET6 as libc::sa_family_t;
                sa.sin6_addr.s6_addr = a.octets();
                libc::bind(fd, &sa as *const _ as *const libc::sockaddr, std::mem::size_of::<libc::sockaddr_in6>() as u32)
            }
        };
        if rc != 0 {
            let e = std::io::Error::last_os_error();
            libc::close(fd);
            return Err(e);
        }
        let tv = libc::timeval { tv_sec: timeout.as_secs() as libc::time_t, tv_usec: 0 };
        libc::setsockopt(fd, libc::SOL_SOCKET, libc::SO_SNDTIMEO, &tv as *const _ as *const libc::c_void, std::mem::size_of::<libc::timeval>() as u32);
        let rc = match dst {
            SocketAddr::V4(d) => {
                let mut sa: libc::sockaddr_in = std::mem::zeroed();
                sa.sin_family = libc::AF_INET as libc::sa_family_t;
                sa.sin_port = d.port().to_be();
                sa.sin_addr.s_addr = u32::from_ne_bytes(d.ip().octets());
                libc::connect(fd, &sa as *const _ as *const libc::sockaddr, std::mem::size_of::<libc::sockaddr_in>() as u32)
            }
            SocketAddr::V6(d) => {
                let mut sa: libc::sockaddr_in6 = std::mem::zeroed();
                sa.sin6_family = libc::AF_INET6 as libc::sa_family_t;
                sa.sin6_port = d.port().to_be();
                sa.sin6_addr.s6_addr = d.ip().octets();
                libc::connect(fd, &sa as *const _ as *const libc::sockaddr, std::mem::size_of::<libc::sockaddr_in6>() as u32)
            }
        };
        if rc != 0 {
            let e = std::io::Error::last_os_error();
            libc::close(fd);
            return Err(e);
        }
        let s = TcpStream::from_raw_fd(fd);
        s.set_read_timeout(Some(timeout))?;
        s.set_write_timeout(Some(timeout))?;
        s.set_nodelay(true).ok();
        Ok(s)
    }
}

// ------------------------------------------------------------------------------------------------
// scripted upstream for the proxy route
// ------------------------------------------------------------------------------------------------

struct Upstream {
    port: u16,
    hits: Arc<AtomicUsize>,
    stop: Arc<AtomicBool>,
    handle: Option<std::thread::JoinHandle<()>>,
}

impl Upstream {
    fn start() -> Upstream {
        let l = TcpListener::bind("127.0.0.1:0").expect("upstream bind");
        let port = l.local_addr().unwrap().port();
        let hits = Arc::new(AtomicUsize::new(0));
        let stop = Arc::new(AtomicBool::new(false));
        let (h2, s2) = (hits.clone(), stop.clone());
        let handle = std::thread::spawn(move || {
            for s in l.incoming() {
                if s2.load(Ordering::SeqCst) {
                    break;
                }
                if let Ok(mut s) = s {
                    s.set_read_timeout(Some(Duration::from_secs(3))).ok();
                    let mut buf = Vec::new();
                    let mut tmp = [0u8; 2048];
                    while !buf.windows(4).any(|w| w == b"\r\n\r\n") {
                        match s.read(&mut tmp) {
                            Ok(0) | Err(_) => break,
                            Ok(n) => buf.extend_from_slice(&tmp[..n]),
                        }
                    }
                    if !buf.is_empty() {
                        h2.fetch_add(1, Ordering::SeqCst);
                        let body = b"C19-UPSTREAM";
                        let _ = s.write_all(format!("HTTP/1.1 200 OK\r\nContent-Type: text/plain\r\nContent-Length: {}\r\n\r\n", body.len()).as_bytes());
                        let _ = s.write_all(body);
                    }
                }
            }
        });
        Upstream { port, hits, stop, handle: Some(handle) }
    }
}

impl Drop for Upstream {
    fn drop(&mut self) {
        self.stop.store(true, Ordering::SeqCst);
        let _ = TcpStream::connect(("127.0.0.1", self.port));
        if let Some(h) = self.handle.take() {
            let _ = h.join();
        }
    }
}

// ------------------------------------------------------------------------------------------------
// a running `humphrey` process with its fixture
// ------------------------------------------------------------------------------------------------

struct Server {
    child: Child,
    addr: SocketAddr,
    dir: PathBuf,
    cache: bool,
    upstream: Upstream,
    ver: u64,      // version stamp written into the file about to be requested
    fresh: u64,    // counter for never-requested targets
    warmed: BTreeMap<String, bool>, // route type -> warm target available
    /// the configuration uses a way of writing things the property does not speak about: CRLF / no final newline in the
    /// list file, `mode` left to its default, no `file` directive for an empty list
    exotic_cfg: bool,
    /// an exotic configuration did not start and the plain one was used instead
    fell_back: bool,
}

/// textual spellings of the same IPv6 address: canonical, fully expanded, upper case with leading zeros, mixed
/// case, the zero run compressed at another place or only partly, dotted-quad tail.  (IPv4: one spelling.)
fn v6_forms(a: &str) -> Vec<String> {
    match a.parse::<IpAddr>() {
        Ok(IpAddr::V6(v6)) => {
            let s = v6.segments();
            let hex = |x: &u16| format!("{:x}", x);
            let mut out = vec![
                a.to_string(),
                s.iter().map(hex).collect::<Vec<_>>().join(":"),
                s.iter().map(|x| format!("{:04X}", x)).collect::<Vec<_>>().join(":"),
                s.iter().enumerate().map(|(i, x)| if i % 2 == 0 { format!("{:04x}", x) } else { format!("{:X}", x) }).collect::<Vec<_>>().join(":"),
                format!("{}:{}.{}.{}.{}", s[..6].iter().map(hex).collect::<Vec<_>>().join(":"), s[6] >> 8, s[6] & 255, s[7] >> 8, s[7] & 255),
            ];
            // compress exactly ONE zero group (the first, the last), which is not where the canonical form puts `::`
            let zeros: Vec<usize> = (0..8).filter(|i| s[*i] == 0).collect();
            for z in [zeros.first(), zeros.last()].into_iter().flatten() {
                let left = s[..*z].iter().map(hex).collect::<Vec<_>>().join(":");
                let right = s[*z + 1..].iter().map(|x| format!("{:03x}", x)).collect::<Vec<_>>().join(":");
                out.push(format!("{}::{}", left, right));
            }
            // every spelling must denote the same address (a check of this generator, not of the code under test)
            out.retain(|f| f.parse::<IpAddr>().ok() == Some(IpAddr::V6(v6)));
            out
        }
        _ => vec![a.to_string()],
    }
}

/// the IPv4-mapped spellings of an IPv4 address (an IPv6 address is returned in its usual forms)
fn mapped_forms(a: &str) -> Vec<String> {
    match a.parse::<IpAddr>() {
        Ok(IpAddr::V4(v4)) => {
            let o = v4.octets();
            vec![
                format!("::ffff:{}", v4),
                format!("::ffff:{:x}:{:x}", ((o[0] as u16) << 8) | o[1] as u16, ((o[2] as u16) << 8) | o[3] as u16),
                format!("0:0:0:0:0:FFFF:{}", v4),
            ]
        }
        _ => v6_forms(a),
    }
}

/// Is there a LISTEN socket on `port` that is one of the file descriptors of process `pid`?
fn listener_owned_by(pid: u32, port: u16) -> bool {
    let mut inodes: Vec<String> = vec![];
    for f in ["/proc/net/tcp", "/proc/net/tcp6"] {
        if let Ok(txt) = fs::read_to_string(f) {
            for l in txt.lines().skip(1) {
                let c: Vec<&str> = l.split_whitespace().collect();
                if c.len() > 9 && c[3] == "0A" {
                    if let Some(p) = c[1].rsplit(':').next() {
                        if u16::from_str_radix(p, 16).ok() == Some(port) {
                            inodes.push(format!("socket:[{}]", c[9]));
                        }
                    }
                }
            }
        }
    }
    if inodes.is_empty() {
        return false;
    }
    if let Ok(rd) = fs::read_dir(format!("/proc/{}/fd", pid)) {
        for e in rd.flatten() {
            if let Ok(t) = fs::read_link(e.path()) {
                if inodes.iter().any(|i| t.to_string_lossy() == *i) {
                    return true;
                }
            }
        }
    }
    false
}

/// The list as a file.  The list is a SET of addresses: order, duplicates, other spellings of the same address,
/// padding entries that name nobody who ever connects or is forwarded, CRLF line ends and a missing final newline
/// must not change any decision.  (load_list_file: one address per line, no comments, no blank lines.)
/// `plain`: LF line ends and a final newline (the entries, their order, spellings and duplicates stay the same).
fn blacklist_file(list: &[String], lm: bool, variant: usize, plain: bool) -> String {
    let mut lines: Vec<String> = vec![];
    for (i, a) in list.iter().enumerate() {
        let forms = if lm { mapped_forms(a) } else { v6_forms(a) };
        lines.push(forms[(variant + i) % forms.len()].clone());
        if variant % 3 == 2 {
            // duplicates, in another spelling where there is one
            lines.push(forms[(variant + i + 1) % forms.len()].clone());
            lines.push(forms[(variant + i) % forms.len()].clone());
        }
    }
    if variant % 3 != 0 && !list.is_empty() {
        // 45 resp. 70 padding entries from ranges no peer and no X-Forwarded-For entry of the harness uses; their
        // textual and numeric orders differ (9.9.9.9 < 10.0.0.9 < 100.64.0.9 numerically, not as strings)
        let n = if variant % 3 == 1 { 15 } else { 23 };
        for i in 0..n {
            lines.push(format!("10.0.{}.{}", i * 11 % 256, 255 - i));
            lines.push(format!("{}.{}.{}.9", [9, 100, 2, 198, 203, 11][i % 6], [9, 64, 0, 51, 0, 200][i % 6], i));
            lines.push(format!("2001:db8:ffff::{:x}", 0x9 + i * 257));
        }
        let mut r = Rng::new(variant as u64 + 17);
        match variant % 4 {
            0 => lines.sort(),                                   // textual order
            1 => { lines.sort(); lines.reverse() }
            2 => lines.sort_by_key(|l| l.parse::<IpAddr>().ok()), // numeric order
            _ => { for i in (1..lines.len()).rev() { let j = r.below(i + 1); lines.swap(i, j); } }
        }
    }
    let eol = if variant % 4 == 2 && !plain { "\r\n" } else { "\n" };
    let mut out = lines.join(eol);
    if (variant % 2 == 0 || plain) && !lines.is_empty() {
        out.push_str(eol);
    }
    out
}

impl Server {
    /// `bind_ip`: "127.0.0.1", "::1" or "::" (dual-stack: clients then connect to 127.0.0.1 and are seen by the
    /// server as ::ffff:127.x.y.z).  `variant` picks textual forms in the generated files.
    /// `lm`: the IPv4 entries of the blacklist file are written in IPv4-mapped form (two spellings alternate).
    fn start(bin: &str, base: &Path, name: &str, bind_ip: &str, mode: &str, list: &[String], lm: bool, cache: bool, variant: usize, plain: bool) -> Result<Server, String> {
        let dir = base.join(name);
        let _ = fs::remove_dir_all(&dir);
        fs::create_dir_all(dir.join("www")).map_err(|e| e.to_string())?;
        fs::write(dir.join("file.txt"), "C19-FILE v0\n").map_err(|e| e.to_string())?;
        fs::write(dir.join("www").join("a.txt"), "C19-DIR v0\n").map_err(|e| e.to_string())?;

        let upstream = Upstream::start();
        let ip: IpAddr = bind_ip.parse().unwrap();
        for attempt in 0..6 {
            // an exotic way of writing the configuration that this server does not accept is not this property's
            // business: from the third attempt on the plain way is used (reported as drift by the driver)
            let asked_plain = plain;
            let plain = plain || attempt >= 2;
            let file_text = blacklist_file(list, lm, variant, plain);
            let file_exotic = file_text != blacklist_file(list, lm, variant, true);
            fs::write(dir.join("blacklist.txt"), file_text).map_err(|e| e.to_string())?;
            let nonce = format!("{}-{}-{}", std::process::id(), name, attempt);
            let port = {
                let l = TcpListener::bind(SocketAddr::new(ip, 0)).map_err(|e| format!("cannot bind {}: {}", bind_ip, e))?;
                l.local_addr().unwrap().port()
            };
            // an empty list is given alternately as an empty file and as no `file` directive at all
            let blfile = if list.is_empty() && variant % 2 == 1 && !plain { String::new() } else { format!("    file \"{}\"\n", dir.join("blacklist.txt").display()) };
            let cache_sec = if cache { "  cache {\n    size 1M\n    time 3600\n  }\n" } else { "" };
            // `block` is the default mode: every third block configuration leaves the directive out (file without mode);
            // with an empty list the file directive may be missing (mode without file, see above)
            let modeline = if mode == "block" && variant % 3 == 1 && !plain { String::new() } else { format!("    mode \"{}\"\n", mode) };
            let conf = format!(
                "server {{\n  address \"{ip}\"\n  port {port}\n  threads 4\n  blacklist {{\n{blfile}{modeline}  }}\n  log {{\n    level \"error\"\n    console false\n  }}\n{cache_sec}  route /file/* {{\n    file \"{d}/file.txt\"\n  }}\n  route /dir/* {{\n    directory \"{d}/www\"\n  }}\n  route /redir/* {{\n    redirect \"{redir}\"\n  }}\n  route /proxy/* {{\n    proxy \"127.0.0.1:{up}\"\n  }}\n  route /c19id/{nonce} {{\n    redirect \"http://c19.invalid/id/{nonce}\"\n  }}\n  host \"alt.c19.test\" {{\n    route /file/* {{\n      file \"{d}/file.txt\"\n    }}\n    route /dir/* {{\n      directory \"{d}/www\"\n    }}\n    route /redir/* {{\n      redirect \"{redir}\"\n    }}\n    route /proxy/* {{\n      proxy \"127.0.0.1:{up}\"\n    }}\n  }}\n}}\n",
                ip = bind_ip, port = port, nonce = nonce, blfile = blfile, modeline = modeline, cache_sec = cache_sec, d = dir.display(), redir = REDIRECT_TARGET, up = upstream.port
            );
            let conf_path = dir.join("humphrey.conf");
            fs::write(&conf_path, conf).map_err(|e| e.to_string())?;
            let mut cmd = Command::new(bin);
            cmd.arg(&conf_path).current_dir(&dir).stdin(Stdio::null()).stdout(Stdio::null()).stderr(Stdio::null());
            unsafe {
                cmd.pre_exec(|| {
                    libc::prctl(libc::PR_SET_PDEATHSIG, libc::SIGKILL);
                    Ok(())
                });
            }
            let mut child = cmd.spawn().map_err(|e| format!("cannot start {}: {}", bin, e))?;
            let addr = if bind_ip == "::" { SocketAddr::new(IpAddr::V4(Ipv4Addr::LOCALHOST), port) } else { SocketAddr::new(ip, port) };
            let t0 = Instant::now();
            let mut up = false;
            while t0.elapsed() < Duration::from_secs(10) {
                if let Ok(Some(_)) = child.try_wait() {
                    break;
                }
                if TcpStream::connect_timeout(&addr, Duration::from_millis(500)).is_ok() {
                    up = true;
                    break;
                }
                std::thread::sleep(Duration::from_millis(5));
            }
            if up {
                // the port was free when it was chosen, but other harnesses start servers on this machine too: the
                // listener that answered must be a socket of OUR child (inode in /proc/net/tcp* = an fd of the child)
                // Asked through a route only this configuration has (a redirect to a nonce), from an address that is on
                // no list; where no such source exists (::1 listed, no second IPv6 address) /proc is consulted instead.
                let id_src: Option<IpAddr> = if bind_ip != "::1" {
                    Some(WARM_V4.parse().unwrap())
                } else if !list.iter().any(|a| a == "::1") {
                    Some("::1".parse().unwrap())
                } else {
                    other_v6().map(IpAddr::V6)
                };
                let t1 = Instant::now();
                let mut ours = false;
                while t1.elapsed() < Duration::from_secs(5) {
                    if let Ok(Some(_)) = child.try_wait() {
                        break;
                    }
                    let proven = match id_src.and_then(|src| connect_from(src, addr, Duration::from_secs(5)).ok()) {
                        Some(mut c) => {
                            let _ = c.write_all(format!("GET /c19id/{n} HTTP/1.1\r\nHost: c19.test\r\n\r\n", n = nonce).as_bytes());
                            let mut lo = vec![];
                            let o = read_response(&mut c, &mut lo, true);
                            matches!(o.status, Some(300..=399)) && o.headers.iter().any(|(k, v)| k == "location" && *v == format!("http://c19.invalid/id/{}", nonce))
                        }
                        None => listener_owned_by(child.id(), port),
                    };
                    if proven {
                        ours = true;
                        break;
                    }
                    std::thread::sleep(Duration::from_millis(10));
                }
                if !ours {
                    let _ = child.kill();
                    let _ = child.wait();
                    continue;
                }
                let exotic_cfg = file_exotic || blfile.is_empty() || modeline.is_empty();
                return Ok(Server { child, addr, dir, cache, upstream, ver: 0, fresh: 0, warmed: BTreeMap::new(), exotic_cfg, fell_back: attempt >= 2 && !asked_plain && (blacklist_file(list, lm, variant, false) != blacklist_file(list, lm, variant, true) || (list.is_empty() && variant % 2 == 1) || (mode == "block" && variant % 3 == 1)) });
            }
            let _ = child.kill();
            let _ = child.wait();
        }
        Err(format!("server did not come up on {}", bind_ip))
    }

    fn stamp(&mut self, rt: &str, uri: &str) {
        self.ver += 1;
        match rt {
            "file" => {
                let _ = fs::write(self.dir.join("file.txt"), format!("C19-FILE v{}\n", self.ver));
            }
            "directory" => {
                let name = uri.trim_start_matches("/dir/");
                let _ = fs::write(self.dir.join("www").join(name), format!("C19-DIR v{}\n", self.ver));
            }
            _ => {}
        }
    }
}

impl Drop for Server {
    fn drop(&mut self) {
        let _ = self.child.kill();
        let _ = self.child.wait();
        let _ = fs::remove_dir_all(&self.dir);
    }
}

// ------------------------------------------------------------------------------------------------
// one request, one observation
// ------------------------------------------------------------------------------------------------

#[derive(Debug, Clone)]
struct Obs {
    status: Option<u16>,
    headers: Vec<(String, String)>,
    body: Vec<u8>,
    nbytes: usize,
    err: String,
}

/// `plain`: optional white space is exactly one blank after the comma (what the statement's quantifier names).
fn render_xff(es: &[(String, bool, bool)], n: usize, plain: bool) -> String {
    // (token, is_garbage, optional white space around)
    let all_garbage = !es.is_empty() && es.iter().all(|e| e.1);
    let mut out = String::new();
    for (i, (tok, garbage, sp)) in es.iter().enumerate() {
        if i > 0 {
            out.push(',');
        }
        if *sp && i > 0 {
            out.push_str(if plain { " " } else { OWS_LEAD[(n + i) % OWS_LEAD.len()] });
        }
        if *garbage {
            // every fourth all-garbage list consists of empty entries only: ``, `,`, `, ` - lone delimiters and blanks
            out.push_str(if all_garbage && n % 4 == 0 { "" } else { GARBAGE[(n + i) % GARBAGE.len()] });
        } else {
            let forms = v6_forms(tok);
            out.push_str(&forms[(n + i) % forms.len()]);
        }
        if *sp && i > 0 && i + 1 < es.len() && !plain {
            out.push_str(OWS_TRAIL[(n / 2 + i) % OWS_TRAIL.len()]);
        }
    }
    out
}

/// `xff2`: a second X-Forwarded-For line (random sessions only).  Every fifth request carries 30..90 other fields
/// with the X-Forwarded-For line(s) somewhere among them, every 55th 100..300; two requests in three carry other
/// forwarding-related fields (Forwarded, X-Real-IP, ...) naming unlisted addresses before or after it.
/// `plain`: `Name: value` with one blank after the colon.
fn request_bytes(uri: &str, xff: Option<&str>, xff2: Option<&str>, keep_alive: bool, n: usize, plain: bool) -> Vec<u8> {
    // the blacklist belongs to the server, not to a host: one request in four goes to the host-specific sub-application
    // `alt.c19.test`, which serves the same four route types under the same prefixes
    let mut s = format!("GET {} HTTP/1.1\r\nHost: {}\r\n", uri, if n % 4 == 3 { "alt.c19.test" } else { "c19.test" });
    if n % 2 == 1 {
        s.push_str("User-Agent: c19-harness\r\nAccept: */*\r\n");
    }
    // "whatever headers it sends": now and then the X-Forwarded-For line sits behind 100..300 other fields (beyond any
    // round number a parser might stop storing fields at: 100, 128, 256) ...
    let (before, between, after) = if n % 55 == 0 { (97 + (n / 55) % 7 * 33 + n % 5, n % 7, 3 + n % 9) }
        else if n % 5 == 0 { (10 + n % 37, n % 7, 20 + n % 41) } else { (0, 0, 0) };
    // ... and other fields that speak about forwarding accompany it, all naming addresses that no list of the harness
    // contains (TEST-NET-3): they can neither add a listed address nor take the listed one of X-Forwarded-For away
    let other_fwd = |k: usize| -> String {
        match k % 8 {
            0 => "Forwarded: for=203.0.113.9\r\n".to_string(),
            1 => "Forwarded: for=203.0.113.9;proto=http;by=203.0.113.1, for=\"[2001:db8::17]:4711\"\r\n".to_string(),
            2 => "X-Real-IP: 203.0.113.10\r\n".to_string(),
            3 => "forwarded: For=203.0.113.11\r\nVia: 1.1 proxy.example\r\n".to_string(),
            4 => "X-Client-IP: 203.0.113.12\r\nTrue-Client-IP: 203.0.113.12\r\n".to_string(),
            5 => "X-Forwarded: for=203.0.113.13\r\nForwarded-For: 203.0.113.13\r\n".to_string(),
            6 => "X-Forwarded-For-Original: 203.0.113.14\r\nX-Originating-IP: 203.0.113.14\r\n".to_string(),
            _ => "Forwarded: for=unknown\r\nX-Forwarded-Proto: https\r\nX-Forwarded-Port: 443\r\n".to_string(),
        }
    };
    if n % 3 == 1 {
        s.push_str(&other_fwd(n / 3));
    }
    for i in 0..before {
        s.push_str(&format!("X-Filler-{}: {}\r\n", i, "v".repeat(1 + i % 40)));
    }
    if let Some(x) = xff {
        s.push_str(&format!("{}{}{}\r\n", XFF_NAMES[n % XFF_NAMES.len()], if plain { ": " } else { NAME_SEP[(n / 3) % NAME_SEP.len()] }, x));
    }
    for i in 0..between {
        s.push_str(&format!("X-Forwarded-Host: h{}.example\r\n", i));
    }
    if let Some(x) = xff2 {
        s.push_str(&format!("{}{}{}\r\n", XFF_NAMES[(n / 2) % XFF_NAMES.len()], if plain { ": " } else { NAME_SEP[n % NAME_SEP.len()] }, x));
    }
    if n % 3 == 2 {
        s.push_str(&other_fwd(n / 3));
    }
    for i in 0..after {
        s.push_str(&format!("X-Tail-{}: {}\r\n", i, i));
    }
    s.push_str(if keep_alive { "Connection: keep-alive\r\n" } else { "Connection: close\r\n" });
    s.push_str("\r\n");
    s.into_bytes()
}

/// Reads one response. `leftover` carries bytes read beyond the previous response on a kept-alive connection.
fn read_response(s: &mut TcpStream, leftover: &mut Vec<u8>, to_eof: bool) -> Obs {
    let mut buf: Vec<u8> = std::mem::take(leftover);
    let mut tmp = [0u8; 4096];
    let mut err = String::new();
    let mut eof = false;
    let strip = |b: &mut Vec<u8>| {
        // the core writes CRLF after a non-empty body (known finding CrlfAfterBody); not this property's business
        while b.starts_with(b"\r\n") {
            b.drain(..2);
        }
    };
    strip(&mut buf);
    let head_end;
    loop {
        if let Some(p) = buf.windows(4).position(|w| w == b"\r\n\r\n") {
            head_end = p;
            break;
        }
        match s.read(&mut tmp) {
            Ok(0) => {
                eof = true;
                break_eof(&mut err, "eof");
                return finish(buf, None, err, eof);
            }
            Ok(n) => {
                buf.extend_from_slice(&tmp[..n]);
                strip(&mut buf);
            }
            Err(e) => {
                err = format!("{:?}", e.kind());
                return finish(buf, None, err, eof);
            }
        }
    }
    let head = String::from_utf8_lossy(&buf[..head_end]).to_string();
    let mut lines = head.split("\r\n");
    let status = lines.next().and_then(|l| l.split(' ').nth(1)).and_then(|c| c.parse::<u16>().ok());
    let headers: Vec<(String, String)> = lines
        .filter_map(|l| l.split_once(':').map(|(a, b)| (a.trim().to_ascii_lowercase(), b.trim().to_string())))
        .collect();
    let clen = headers.iter().find(|(k, _)| k == "content-length").and_then(|(_, v)| v.parse::<usize>().ok());
    let mut body = buf[head_end + 4..].to_vec();
    let nbytes_head = head_end + 4;
    // (with a Content-Length the body is complete when it is complete: whether and when the server closes the
    //  connection afterwards is not this property's business)
    let _ = to_eof;
    if clen.is_none() {
        loop {
            match s.read(&mut tmp) {
                Ok(0) => break,
                Ok(n) => body.extend_from_slice(&tmp[..n]),
                Err(e) => {
                    err = format!("{:?}", e.kind());
                    break;
                }
            }
        }
        if let Some(n) = clen {
            if body.len() > n {
                body.truncate(n);
            }
        }
    } else {
        let n = clen.unwrap();
        while body.len() < n {
            match s.read(&mut tmp) {
                Ok(0) => break,
                Ok(k) => body.extend_from_slice(&tmp[..k]),
                Err(e) => {
                    err = format!("{:?}", e.kind());
                    break;
                }
            }
        }
        if body.len() > n {
            *leftover = body.split_off(n);
        }
    }
    let nb = nbytes_head + body.len();
    Obs { status, headers, body, nbytes: nb, err }
}

fn break_eof(err: &mut String, what: &str) {
    if err.is_empty() {
        *err = what.to_string();
    }
}

fn finish(buf: Vec<u8>, status: Option<u16>, err: String, _eof: bool) -> Obs {
    Obs { status, headers: vec![], nbytes: buf.len(), body: buf, err }
}

/// (result class, served from cache?)
fn classify(rt: &str, o: &Obs, cur_ver: u64) -> (String, bool) {
    let body = String::from_utf8_lossy(&o.body).to_string();
    let marker = body.contains("C19-");
    match o.status {
        None => {
            if o.nbytes == 0 {
                match o.err.as_str() {
                    "eof" | "ConnectionReset" | "BrokenPipe" | "ConnectionAborted" | "NotConnected" | "UnexpectedEof" => ("Dropped".into(), false),
                    e => (format!("Other:no-bytes-{}", e), false),
                }
            } else {
                (format!("Other:garbled({} bytes)", o.nbytes), false)
            }
        }
        Some(403) => {
            if marker {
                ("Other:403-with-content".into(), false)
            } else {
                ("Forbidden403".into(), false)
            }
        }
        // "served normally" = the route's content; the statement names no status code for it: any 2xx with the
        // content, any 3xx with the configured Location
        Some(200..=299) if rt == "file" || rt == "directory" => {
            let want = if rt == "file" { "C19-FILE v" } else { "C19-DIR v" };
            if let Some(rest) = body.strip_prefix(want) {
                let v: u64 = rest.trim().parse().unwrap_or(u64::MAX);
                ("Served".into(), v != cur_ver)
            } else {
                ("Other:2xx-unexpected-body".into(), false)
            }
        }
        Some(200..=299) if rt == "proxy" && body == "C19-UPSTREAM" => ("Served".into(), false),
        Some(300..=399) if rt == "redirect" => {
            let loc = o.headers.iter().find(|(k, _)| k == "location").map(|(_, v)| v.as_str()).unwrap_or("");
            if loc == REDIRECT_TARGET {
                ("Served".into(), false)
            } else {
                (format!("Other:3xx-location-{}", loc), false)
            }
        }
        Some(c) => (format!("Other:{}", c), false),
    }
}

/// One request on a fresh connection; the server closes after the response.
/// A connection on which nothing arrives and which is not closed either is given 5 s, then the request is repeated
/// with 25 s; only then is it the observation `Other:hang` (never a tool error: a server that neither answers nor
/// closes is a server that does not do what the property says).
fn one_shot(srv: &mut Server, src: IpAddr, rt: &str, uri: &str, xff: Option<&str>, n: usize, plain: bool) -> (String, bool, String) {
    let mut last = ("Other:connect".to_string(), false, String::new());
    for attempt in 0..3u64 {
        srv.stamp(rt, uri);
        let wait = if attempt == 0 { 5 } else { 25 };
        match connect_from(src, srv.addr, Duration::from_secs(wait)) {
            Ok(mut s) => {
                let req = request_bytes(uri, xff, None, false, n, plain);
                let mut o;
                if let Err(e) = s.write_all(&req) {
                    o = Obs { status: None, headers: vec![], body: vec![], nbytes: 0, err: format!("{:?}", e.kind()) };
                    // a reset may race with our write: still try to read what the server sent, if anything
                    let mut lo = vec![];
                    let o2 = read_response(&mut s, &mut lo, true);
                    if o2.nbytes > 0 {
                        o = o2;
                    }
                } else {
                    let mut lo = vec![];
                    o = read_response(&mut s, &mut lo, true);
                }
                let (mut res, fc) = classify(rt, &o, srv.ver);
                let first = String::from_utf8_lossy(&o.body[..o.body.len().min(60)]).to_string();
                let detail = format!("status={:?} err={} bytes={} body={:?}", o.status, o.err, o.nbytes, first);
                if timed_out(&res) {
                    if attempt == 0 {
                        continue;
                    }
                    res = "Other:hang".to_string();
                }
                return (res, fc, detail);
            }
            Err(e) => {
                last = (format!("Other:connect-{:?}", e.kind()), false, e.to_string());
                std::thread::sleep(Duration::from_millis(20 * (attempt + 1)));
            }
        }
    }
    last
}

fn timed_out(res: &str) -> bool {
    res == "Other:no-bytes-WouldBlock" || res == "Other:no-bytes-TimedOut"
}

/// observations that say nothing about the server's decision (the harness could not even connect)
fn inconclusive(res: &str) -> bool {
    res.starts_with("Other:connect")
}

// ------------------------------------------------------------------------------------------------
// environment
// ------------------------------------------------------------------------------------------------

fn v6_available() -> bool {
    TcpListener::bind("[::1]:0").is_ok()
}

/// a second local IPv6 address (used only to warm the cache of the ::1 instance when ::1 itself is listed)
fn other_v6() -> Option<Ipv6Addr> {
    let txt = fs::read_to_string("/proc/net/if_inet6").ok()?;
    for l in txt.lines() {
        let f: Vec<&str> = l.split_whitespace().collect();
        if f.len() >= 6 && f[3] == "00" && f[0].len() == 32 {
            // scope 00 = global
            let mut seg = [0u16; 8];
            for i in 0..8 {
                seg[i] = u16::from_str_radix(&f[0][i * 4..i * 4 + 4], 16).ok()?;
            }
            let a = Ipv6Addr::from(seg);
            if !a.is_loopback() {
                return Some(a);
            }
        }
    }
    None
}

/// a listener on [::] accepts an IPv4 client and reports it in IPv4-mapped form
fn dual_stack_ok() -> bool {
    let l = match TcpListener::bind("[::]:0") {
        Ok(l) => l,
        Err(_) => return false,
    };
    let port = l.local_addr().unwrap().port();
    let dst = SocketAddr::new(IpAddr::V4(Ipv4Addr::LOCALHOST), port);
    let c = match connect_from("127.0.0.2".parse().unwrap(), dst, Duration::from_secs(2)) {
        Ok(c) => c,
        Err(_) => return false,
    };
    l.set_nonblocking(false).ok();
    let r = match l.accept() {
        Ok((_, peer)) => matches!(peer.ip(), IpAddr::V6(a) if a.to_ipv4_mapped() == Some(Ipv4Addr::new(127, 0, 0, 2))),
        Err(_) => false,
    };
    drop(c);
    r
}

fn v4_source_ok(a: &str) -> bool {
    let l = match TcpListener::bind("127.0.0.1:0") {
        Ok(l) => l,
        Err(_) => return false,
    };
    let dst = l.local_addr().unwrap();
    match connect_from(a.parse().unwrap(), dst, Duration::from_secs(2)) {
        Ok(s) => s.local_addr().map(|x| x.ip().to_string() == a).unwrap_or(false),
        Err(_) => false,
    }
}

// ------------------------------------------------------------------------------------------------
// replay of TLC's vectors
// ------------------------------------------------------------------------------------------------

#[derive(Default)]
struct Stats {
    requests: u64,
    rows: u64,
    nontrivial: u64,
    dropped: u64,
    forbidden_listed_peer: u64,
    forbidden_forwarded: u64,
    served: u64,
    lenient_rows: u64,
    lenient_forbidden: u64,
    model_divergence: u64,
    warm_requests: u64,
    cache_hits_observed: u64,
    cold_served_from_cache: u64,
    warm_unavailable: u64,
    upstream_hits: u64,
    upstream_expected: u64,
    servers: u64,
    mismatches: u64,
    skipped_no_v6: u64,
    skipped_no_dual: u64,
    hangs: u64,
    aborted_after_hangs: u64,
    drifts: u64,
    layout_fallbacks: u64,
    first_drift: Vec<Value>,
    rows_dual: u64,
    samples: Vec<Value>,
    first: Vec<Value>,
}

struct Group {
    dual: bool,
    lm: bool,
    mode: String,
    list: Vec<String>,
    cache: bool,
    lines: Vec<Value>,
}

fn parse_es(row: &Value) -> Vec<(String, bool, bool)> {
    row["es"].as_array().map(|a| {
        a.iter().map(|e| {
            let tok = e["a"].as_str().unwrap_or("").to_string();
            let garbage = tok.parse::<IpAddr>().is_err();
            (tok, garbage, e["sp"].as_bool().unwrap_or(false))
        }).collect()
    }).unwrap_or_default()
}

/// warm targets (cache on): requested once by a client that is on no list
fn warm_up(srv: &mut Server, g: &Group, fam_v6: bool, alt_v6: Option<Ipv6Addr>) {
    if !g.cache {
        return;
    }
    let warm_src: Option<IpAddr> = if !fam_v6 {
        Some(WARM_V4.parse().unwrap())
    } else if !g.list.iter().any(|a| a == "::1") {
        Some("::1".parse().unwrap())
    } else {
        alt_v6.map(IpAddr::V6)
    };
    for (rt, uri) in [("file", "/file/warm"), ("directory", "/dir/warm.txt")] {
        let mut ok = false;
        if let Some(src) = warm_src {
            let (res, _, _) = one_shot(srv, src, rt, uri, None, 0, true);
            ok = res == "Served";
        }
        srv.warmed.insert(rt.to_string(), ok);
    }
}

fn pick_uri(srv: &mut Server, rt: &str, warm: bool, cache: bool, counter: usize) -> String {
    match (rt, warm, cache) {
        ("file", true, _) => "/file/warm".to_string(),
        ("directory", true, _) => "/dir/warm.txt".to_string(),
        ("file", false, true) => {
            srv.fresh += 1;
            format!("/file/cold{}", srv.fresh)
        }
        ("directory", false, true) => {
            srv.fresh += 1;
            format!("/dir/cold{}.txt", srv.fresh)
        }
        ("file", _, _) => "/file/x".to_string(),
        ("directory", _, _) => "/dir/a.txt".to_string(),
        ("proxy", _, _) => format!("/proxy/p{}", counter % 3),
        _ => format!("/redir/r{}", counter % 3),
    }
}

fn run_group(bin: &str, base: &Path, gi: usize, g: &Group, st: &mut Stats, have_v6: bool, have_dual: bool, alt_v6: Option<Ipv6Addr>) -> Result<(), String> {
    let mut counter: usize = gi * 7;
    // a line of a dual-stack configuration goes to the instance on "::" (IPv4 peers only), any other line to the
    // single-stack instance of its peer's family
    let plan: &[(&str, &str)] = if g.dual { &[("::", "dual")] } else { &[("127.0.0.1", "v4"), ("::1", "v6")] };
    for &(bind_ip, tag) in plan {
        let fam_v6 = bind_ip == "::1";
        let lines: Vec<&Value> = g.lines.iter().filter(|l| l["peer"].as_str().unwrap_or("").contains(':') == fam_v6).collect();
        if lines.is_empty() {
            continue;
        }
        if fam_v6 && !have_v6 {
            st.skipped_no_v6 += lines.iter().map(|l| l["rows"].as_array().map(|r| r.len()).unwrap_or(0) as u64).sum::<u64>();
            continue;
        }
        if bind_ip == "::" && !have_dual {
            st.skipped_no_dual += lines.iter().map(|l| l["rows"].as_array().map(|r| r.len()).unwrap_or(0) as u64).sum::<u64>();
            continue;
        }
        let mut srv = Server::start(bin, base, &format!("g{}{}", gi, tag), bind_ip, &g.mode, &g.list, g.lm, g.cache, gi, false)?;
        st.servers += 1;
        if srv.fell_back {
            st.layout_fallbacks += 1;
        }
        warm_up(&mut srv, g, fam_v6, alt_v6);
        // the same configuration written the plain way, started only when a mismatch has to be judged a second time
        let mut twin: Option<Server> = None;
        let mut rechecks = 0u32;
        let mut recheck_stood = false;
        let mut hangs_here = 0;
        for line in lines {
            if hangs_here >= 3 {
                // three answers neither given nor refused within 30 s each: recorded as mismatches, no point in going on here
                st.aborted_after_hangs += 1;
                break;
            }
            let peer_s = line["peer"].as_str().unwrap().to_string();
            let peer: IpAddr = peer_s.parse().map_err(|_| format!("bad peer {}", peer_s))?;
            let peer_listed = g.list.contains(&peer_s);
            for row in line["rows"].as_array().unwrap() {
                if hangs_here >= 3 {
                    break;
                }
                if bind_ip == "::" { st.rows_dual += 1 } else { st.rows += 1 }
                let exp: Vec<String> = row["exp"].as_array().unwrap().iter().map(|x| x.as_str().unwrap().to_string()).collect();
                let es = parse_es(row);
                let present = row["p"].as_bool().unwrap_or(false);
                if exp.len() == 2 {
                    st.lenient_rows += 1;
                }
                for rt in ROUTE_TYPES {
                    let cacheable = rt == "file" || rt == "directory";
                    let warm_variants: &[bool] = if g.cache && cacheable { &[false, true] } else { &[false] };
                    for &warm in warm_variants {
                        if warm && !*srv.warmed.get(rt).unwrap_or(&false) {
                            st.warm_unavailable += 1;
                            continue;
                        }
                        counter += 1;
                        let uri = pick_uri(&mut srv, rt, warm, g.cache, counter);
                        let xff_text = if present { Some(render_xff(&es, counter, false)) } else { None };
                        let hits_before = srv.upstream.hits.load(Ordering::SeqCst);
                        let (mut got, mut from_cache, mut detail) = one_shot(&mut srv, peer, rt, &uri, xff_text.as_deref(), counter, false);
                        if inconclusive(&got) {
                            // no verdict can be based on a failed connect or a read timeout: once more, then a tool error
                            std::thread::sleep(Duration::from_millis(200));
                            let again = one_shot(&mut srv, peer, rt, &uri, xff_text.as_deref(), counter, false);
                            got = again.0;
                            from_cache = again.1;
                            detail = again.2;
                            if inconclusive(&got) {
                                return Err(format!("inconclusive observation {} ({}) for peer {} route {} on {}", got, detail, peer_s, rt, bind_ip));
                            }
                        }
                        if rt == "directory" && !warm && g.cache {
                            let _ = fs::remove_file(srv.dir.join("www").join(uri.trim_start_matches("/dir/")));
                        }
                        st.requests += 1;
                        let hits_after = srv.upstream.hits.load(Ordering::SeqCst);
                        if got == "Served" && rt == "proxy" {
                            st.upstream_expected += 1;
                        }
                        st.upstream_hits += (hits_after - hits_before) as u64;
                        if warm {
                            st.warm_requests += 1;
                            if got == "Served" && from_cache {
                                st.cache_hits_observed += 1;
                            }
                        } else if got == "Served" && from_cache {
                            st.cold_served_from_cache += 1;
                        }
                        if got == "Other:hang" {
                            st.hangs += 1;
                            hangs_here += 1;
                        }
                        let ok = exp.iter().any(|e| *e == got);
                        if exp != ["Served"] {
                            st.nontrivial += 1;
                        }
                        match got.as_str() {
                            "Dropped" => st.dropped += 1,
                            "Forbidden403" => {
                                if peer_listed {
                                    st.forbidden_listed_peer += 1
                                } else if exp.len() == 2 {
                                    st.lenient_forbidden += 1
                                } else {
                                    st.forbidden_forwarded += 1
                                }
                            }
                            "Served" => st.served += 1,
                            _ => {}
                        }
                        let model = row["m"][rt].as_str().unwrap_or("");
                        if ok && got != model {
                            st.model_divergence += 1;
                        }
                        // Second judgement.  Where the request or the configuration was WRITTEN in a way the statement does not
                        // speak about (tabs / blanks before a comma / no blank after the colon; CRLF or no final newline in the
                        // list file, `mode` left to its default, no `file` directive), the same request is sent once more written
                        // the plain way, to the same configuration written the plain way.  Correct there: the difference is spec
                        // drift, not a violation of C19.
                        let mut drift = false;
                        let mut plain_got = String::new();
                        if !ok {
                            let plain_text = if present { Some(render_xff(&es, counter, true)) } else { None };
                            let req_exotic = request_bytes(&uri, xff_text.as_deref(), None, false, counter, false) != request_bytes(&uri, plain_text.as_deref(), None, false, counter, true);
                            if req_exotic || srv.exotic_cfg {
                                if rechecks < 200 {
                                    rechecks += 1;
                                    if srv.exotic_cfg && twin.is_none() {
                                        let mut t = Server::start(bin, base, &format!("g{}{}twin", gi, tag), bind_ip, &g.mode, &g.list, g.lm, g.cache, gi, true)?;
                                        warm_up(&mut t, g, fam_v6, alt_v6);
                                        twin = Some(t);
                                    }
                                    let target: &mut Server = if srv.exotic_cfg { twin.as_mut().unwrap() } else { &mut srv };
                                    if !(warm && !*target.warmed.get(rt).unwrap_or(&false)) {
                                        let uri2 = pick_uri(target, rt, warm, g.cache, counter);
                                        let (g2, _, _) = one_shot(target, peer, rt, &uri2, plain_text.as_deref(), counter, true);
                                        if rt == "directory" && !warm && g.cache {
                                            let _ = fs::remove_file(target.dir.join("www").join(uri2.trim_start_matches("/dir/")));
                                        }
                                        drift = exp.iter().any(|e| *e == g2);
                                        plain_got = g2;
                                    }
                                    if !drift {
                                        recheck_stood = true;
                                    }
                                } else {
                                    // 200 second judgements made here: if every one of them said "drift", so is this one
                                    drift = !recheck_stood;
                                    plain_got = "(not repeated)".into();
                                }
                            }
                        }
                        if !ok && drift {
                            st.drifts += 1;
                            if st.first_drift.len() < 60 {
                                st.first_drift.push(json!({"mode": g.mode, "list": g.list, "cache": g.cache, "dual": g.dual, "lm": g.lm, "peer": peer_s, "listen": bind_ip,
                                    "xff_header": xff_text, "p": present, "es": row["es"], "rt": rt, "uri": uri, "warm": warm, "exp": exp, "got": got,
                                    "written_plainly_got": plain_got, "exotic_configuration": srv.exotic_cfg, "detail": detail}));
                            }
                        } else if !ok {
                            st.mismatches += 1;
                            let mut dev = serde_json::Map::new();
                            if let Some(d) = row["dev"].as_object() {
                                for (k, v) in d {
                                    dev.insert(k.clone(), v[rt].clone());
                                }
                            }
                            let m = json!({"mode": g.mode, "list": g.list, "cache": g.cache, "dual": g.dual, "lm": g.lm, "peer": peer_s, "listen": bind_ip,
                                "xff_header": xff_text, "p": present, "es": row["es"], "rt": rt, "uri": uri, "warm": warm,
                                "exp": exp, "got": got, "model": model, "dev": dev, "detail": detail});
                            if st.first.len() < 400 {
                                st.first.push(m);
                            }
                        } else if st.samples.len() < 8 && exp != ["Served"] && (counter % 97 == 0 || (st.samples.len() < 2 && present && es.len() >= 2)) {
                            st.samples.push(json!({"mode": g.mode, "list": g.list, "list_entries_ipv4_mapped": g.lm, "server_address": bind_ip, "cache": g.cache, "peer": peer_s, "x_forwarded_for": xff_text, "route": rt, "warm_target": warm, "allowed": exp, "observed": got}));
                        }
                    }
                }
            }
        }
    }
    Ok(())
}

fn replay(bin: &str, base: &Path, threads: usize) {
    let mut groups: Vec<Group> = vec![];
    let mut index: BTreeMap<String, usize> = BTreeMap::new();
    let mut nlines = 0u64;
    for line in stdin_lines() {
        let v: Value = match serde_json::from_str(&line) {
            Ok(v) => v,
            Err(_) => continue,
        };
        if v.get("rows").is_none() {
            continue;
        }
        nlines += 1;
        let mut list: Vec<String> = v["list"].as_array().map(|a| a.iter().map(|x| x.as_str().unwrap_or("").to_string()).collect()).unwrap_or_default();
        list.sort();
        let dual = v["dual"].as_bool().unwrap_or(false);
        let lm = v["lm"].as_bool().unwrap_or(false);
        let key = format!("{}|{}|{}|{}|{}", v["mode"], list.join(","), v["cache"], dual, lm);
        let gi = *index.entry(key).or_insert_with(|| {
            groups.push(Group { dual, lm, mode: v["mode"].as_str().unwrap_or("").to_string(), list: list.clone(), cache: v["cache"].as_bool().unwrap_or(false), lines: vec![] });
            groups.len() - 1
        });
        groups[gi].lines.push(v);
    }
    let have_v6 = v6_available();
    let have_dual = dual_stack_ok();
    let alt_v6 = if have_v6 { other_v6().filter(|a| {
        // usable only if it can reach a listener on ::1
        TcpListener::bind("[::1]:0").ok().and_then(|l| connect_from(IpAddr::V6(*a), l.local_addr().unwrap(), Duration::from_secs(2)).ok()).is_some()
    }) } else { None };
    let queue: Mutex<VecDeque<(usize, &Group)>> = Mutex::new(groups.iter().enumerate().collect());
    let total = Mutex::new(Stats::default());
    let errors: Mutex<Vec<String>> = Mutex::new(vec![]);
    std::thread::scope(|sc| {
        for _ in 0..threads.max(1) {
            sc.spawn(|| loop {
                let item = queue.lock().unwrap().pop_front();
                let (gi, g) = match item {
                    Some(x) => x,
                    None => break,
                };
                let mut st = Stats::default();
                if let Err(e) = run_group(bin, base, gi, g, &mut st, have_v6, have_dual, alt_v6) {
                    errors.lock().unwrap().push(e);
                }
                let mut t = total.lock().unwrap();
                t.requests += st.requests;
                t.rows += st.rows;
                t.nontrivial += st.nontrivial;
                t.dropped += st.dropped;
                t.forbidden_listed_peer += st.forbidden_listed_peer;
                t.forbidden_forwarded += st.forbidden_forwarded;
                t.served += st.served;
                t.lenient_rows += st.lenient_rows;
                t.lenient_forbidden += st.lenient_forbidden;
                t.model_divergence += st.model_divergence;
                t.warm_requests += st.warm_requests;
                t.cache_hits_observed += st.cache_hits_observed;
                t.cold_served_from_cache += st.cold_served_from_cache;
                t.warm_unavailable += st.warm_unavailable;
                t.upstream_hits += st.upstream_hits;
                t.upstream_expected += st.upstream_expected;
                t.servers += st.servers;
                t.mismatches += st.mismatches;
                t.skipped_no_v6 += st.skipped_no_v6;
                t.skipped_no_dual += st.skipped_no_dual;
                t.hangs += st.hangs;
                t.drifts += st.drifts;
                t.layout_fallbacks += st.layout_fallbacks;
                for m in st.first_drift {
                    if t.first_drift.len() < 200 {
                        t.first_drift.push(m);
                    }
                }
                t.aborted_after_hangs += st.aborted_after_hangs;
                t.rows_dual += st.rows_dual;
                for s in st.samples {
                    if t.samples.len() < 8 {
                        t.samples.push(s);
                    }
                }
                for m in st.first {
                    if t.first.len() < 2000 {
                        t.first.push(m);
                    }
                }
            });
        }
    });
    let t = total.into_inner().unwrap();
    for m in &t.first {
        out_line(&json!({"mismatch": m}));
    }
    for m in &t.first_drift {
        out_line(&json!({"drift": m}));
    }
    let errs = errors.into_inner().unwrap();
    out_line(&json!({"summary": true, "lines": nlines, "groups": groups.len(), "servers": t.servers, "rows": t.rows, "requests": t.requests,
        "nontrivial": t.nontrivial, "dropped": t.dropped, "forbidden_listed_peer": t.forbidden_listed_peer,
        "forbidden_forwarded": t.forbidden_forwarded, "served": t.served, "lenient_rows": t.lenient_rows,
        "lenient_answered_403": t.lenient_forbidden, "model_divergence": t.model_divergence,
        "warm_requests": t.warm_requests, "cache_hits_observed": t.cache_hits_observed,
        "cold_served_from_cache": t.cold_served_from_cache, "warm_unavailable": t.warm_unavailable,
        "upstream_hits": t.upstream_hits, "upstream_expected": t.upstream_expected, "mismatches": t.mismatches,
        "skipped_rows_no_ipv6": t.skipped_no_v6, "ipv6": have_v6,
        "rows_dual_stack": t.rows_dual, "skipped_rows_no_dual_stack": t.skipped_no_dual, "dual_stack": have_dual, "hangs": t.hangs, "drifts": t.drifts, "configurations_rewritten_plainly": t.layout_fallbacks, "instances_aborted_after_hangs": t.aborted_after_hangs, "alt_ipv6_for_warmup": alt_v6.map(|a| a.to_string()),
        "errors": errs, "samples": t.samples}));
}

// ------------------------------------------------------------------------------------------------
// random sessions -> event log for Trace_Blacklist
// ------------------------------------------------------------------------------------------------

fn ev(kind: &str, dual: bool, lm: bool, mode: &str, list: &[String], cache: bool, peer: &str, present: bool, es: &Value, present2: bool, es2: &Value, rt: &str, uri: &str, res: &str, from_cache: bool, n: usize) -> Value {
    let mut v4: Vec<String> = list.iter().filter(|a| !a.contains(':')).cloned().collect();
    if !peer.is_empty() && !peer.contains(':') {
        v4.push(peer.to_string());
    }
    for a in [es, es2].iter().filter_map(|x| x.as_array()) {
        for e in a {
            if e["k"] == 1 && !e["a"].as_str().unwrap_or(":").contains(':') {
                v4.push(e["a"].as_str().unwrap().to_string());
            }
        }
    }
    json!({"ev": kind, "dual": dual, "lm": lm, "v4": v4, "mode": mode, "list": list, "cache": cache, "peer": peer, "present": present, "es": es, "present2": present2, "es2": es2,
           "rt": rt, "uri": uri, "res": res, "fromCache": from_cache, "n": n})
}

fn random(bin: &str, base: &Path, sessions: usize, conns: usize) {
    let mut rng = Rng::from_env();
    // 127.0.0.12 / 127.0.0.20: addresses whose text has another entry's text as a proper prefix (lesson L19: a comparison
    // by text prefix confuses them in one direction or the other)
    let universe = ["127.0.0.1", "127.0.0.2", "127.9.9.9", "127.200.1.1", "::1", "10.1.2.3", "192.0.2.55", "2001:db8::7", "127.0.0.12", "127.0.0.20"];
    let v4_peers = ["127.0.0.1", "127.0.0.2", "127.9.9.9", "127.200.1.1", "127.0.0.12", "127.0.0.20"];
    let have_v6 = v6_available();
    let have_dual = dual_stack_ok();
    let empty = json!([]);
    let mut counter = 0usize;
    for si in 0..sessions {
        let mode = if rng.chance(1, 2) { "block" } else { "forbidden" };
        let mut list: Vec<String> = vec![];
        if !rng.chance(1, 7) {
            for a in universe {
                if rng.chance(1, 3) {
                    list.push(a.to_string());
                }
            }
        }
        let cache = rng.chance(1, 2);
        let lm = rng.chance(1, 3);
        let mut s4 = match Server::start(bin, base, &format!("r{}v4", si), "127.0.0.1", mode, &list, lm, cache, si, true) {
            Ok(s) => s,
            Err(e) => {
                eprintln!("{}", e);
                std::process::exit(3)
            }
        };
        let mut s6 = if have_v6 {
            match Server::start(bin, base, &format!("r{}v6", si), "::1", mode, &list, lm, cache, si + 1, true) {
                Ok(s) => Some(s),
                Err(e) => {
                    eprintln!("{}", e);
                    std::process::exit(3)
                }
            }
        } else {
            None
        };
        let mut sd = if have_dual {
            match Server::start(bin, base, &format!("r{}dual", si), "::", mode, &list, lm, cache, si + 2, true) {
                Ok(s) => Some(s),
                Err(e) => {
                    eprintln!("{}", e);
                    std::process::exit(3)
                }
            }
        } else {
            None
        };
        // the instances are separate servers with the same configuration: each gets its own cfg event
        for inst in 0..3 {
            if (inst == 1 && s6.is_none()) || (inst == 2 && sd.is_none()) {
                continue;
            }
            let dual = inst == 2;
            out_line(&ev("cfg", dual, lm, mode, &list, cache, "", false, &empty, false, &empty, "", "", "", false, 0));
            let srv: &mut Server = match inst {
                0 => &mut s4,
                1 => s6.as_mut().unwrap(),
                _ => sd.as_mut().unwrap(),
            };
            let nconn = if inst == 0 { conns } else { conns / 3 + 1 };
            for _ in 0..nconn {
                let peer_s: String = if inst == 1 {
                    "::1".into()
                } else if rng.chance(1, 6) {
                    format!("127.{}.{}.{}", rng.range(0, 255), rng.range(0, 255), rng.range(1, 254))
                } else if rng.chance(1, 8) {
                    // the corners of 127/8
                    rng.pick(&["127.0.0.255", "127.255.255.254", "127.0.1.0", "127.255.0.1", "127.1.1.1"]).to_string()
                } else {
                    rng.pick(&v4_peers).to_string()
                };
                let peer: IpAddr = peer_s.parse().unwrap();
                // generous: an answer is normally there within a millisecond; only 30 s of silence is a hang
                let mut stream = match connect_from(peer, srv.addr, Duration::from_secs(30)) {
                    Ok(s) => s,
                    Err(e) => {
                        eprintln!("connect from {} failed: {}", peer_s, e);
                        continue;
                    }
                };
                out_line(&ev("conn", dual, lm, mode, &list, cache, &peer_s, false, &empty, false, &empty, "", "", "", false, 0));
                // mostly 1..4 requests on a connection, now and then a long kept-alive conversation
                let nreq = if rng.chance(1, 25) { rng.range(20, 40) } else { rng.range(1, 4) };
                let mut leftover = vec![];
                let mut gen_list = |rng: &mut Rng, counter: usize, first_sp: bool| -> (Vec<(String, bool, bool)>, Value) {
                    // mostly 1..4 entries, sometimes a long chain of 20..45 proxies
                    let len = if rng.chance(1, 12) { rng.range(20, 45) } else { rng.range(1, 4) };
                    let mut es: Vec<(String, bool, bool)> = vec![];
                    for i in 0..len {
                        let garbage = rng.chance(1, 4);
                        let tok = if garbage { "g".to_string() } else if rng.chance(1, 8) { peer_s.clone() } else { rng.pick(&universe).to_string() };
                        es.push((tok, garbage, (i > 0 || first_sp) && rng.chance(1, 2)));
                    }
                    let all_garbage = es.iter().all(|e| e.1);
                    let j: Value = Value::Array(es.iter().enumerate().map(|(i, (tok, g, sp))| {
                        if *g {
                            let text = if all_garbage && counter % 4 == 0 { "" } else { GARBAGE[(counter + i) % GARBAGE.len()] };
                            json!({"a": format!("g:{}", text), "sp": sp, "k": 0})
                        } else {
                            json!({"a": tok, "sp": sp, "k": 1})
                        }
                    }).collect());
                    (es, j)
                };
                let mut kbase = 0;     // index of the first request on the current connection
                for kk in 0..nreq {
                    counter += 1;
                    let rt = *rng.pick(&ROUTE_TYPES);
                    let uri = match rt {
                        "file" => format!("/file/p{}", rng.below(3)),
                        "directory" => format!("/dir/p{}.txt", rng.below(3)),
                        "proxy" => format!("/proxy/p{}", rng.below(3)),
                        _ => format!("/redir/p{}", rng.below(3)),
                    };
                    let present = !rng.chance(1, 4);
                    let (es, es_json) = if present { gen_list(&mut rng, counter, false) } else { (vec![], json!([])) };
                    // a second X-Forwarded-For line in one request out of six that have a first one
                    let present2 = present && rng.chance(1, 6);
                    let (es2, es2_json) = if present2 { gen_list(&mut rng, counter / 2, false) } else { (vec![], json!([])) };
                    let xff_text = if present { Some(render_xff(&es, counter, true)) } else { None };
                    let xff2_text = if present2 { Some(render_xff(&es2, counter / 2, true)) } else { None };
                    srv.stamp(rt, &uri);
                    let req = request_bytes(&uri, xff_text.as_deref(), xff2_text.as_deref(), true, counter, true);
                    let send = |stream: &mut TcpStream, leftover: &mut Vec<u8>| -> Obs {
                        if let Err(e) = stream.write_all(&req) {
                            let o2 = read_response(stream, leftover, false);
                            if o2.nbytes > 0 { o2 } else { Obs { status: None, headers: vec![], body: vec![], nbytes: 0, err: format!("{:?}", e.kind()) } }
                        } else {
                            read_response(stream, leftover, false)
                        }
                    };
                    let mut o = send(&mut stream, &mut leftover);
                    let mut k = kk - kbase;
                    if k > 0 && classify(rt, &o, srv.ver).0 == "Dropped" {
                        // The server closed the connection between two requests.  Whether it honours keep-alive is not
                        // this property's business (C01): the request is sent again on a new connection from the same
                        // address, and the log says so (close, conn, request 0).
                        match connect_from(peer, srv.addr, Duration::from_secs(30)) {
                            Ok(s2) => {
                                out_line(&ev("close", dual, lm, mode, &list, cache, &peer_s, false, &empty, false, &empty, "", "", "", false, 0));
                                out_line(&ev("conn", dual, lm, mode, &list, cache, &peer_s, false, &empty, false, &empty, "", "", "", false, 0));
                                stream = s2;
                                leftover.clear();
                                k = 0;
                                kbase = kk;
                                srv.stamp(rt, &uri);
                                o = send(&mut stream, &mut leftover);
                            }
                            Err(_) => {}
                        }
                    }
                    let (mut res, fc) = classify(rt, &o, srv.ver);
                    if timed_out(&res) {
                        res = "Other:hang".to_string();
                    }
                    out_line(&ev("req", dual, lm, mode, &list, cache, &peer_s, present, &es_json, present2, &es2_json, rt, &uri, &res, fc, k));
                    if res != "Served" && res != "Forbidden403" {
                        break;
                    }
                }
                drop(stream);
                out_line(&ev("close", dual, lm, mode, &list, cache, &peer_s, false, &empty, false, &empty, "", "", "", false, 0));
            }
        }
    }
}

fn main() {
    quiet_panics();
    let a: Vec<String> = std::env::args().collect();
    match a.get(1).map(|s| s.as_str()) {
        Some("replay") if a.len() >= 4 => {
            let threads = a.get(4).and_then(|s| s.parse().ok()).unwrap_or(4);
            fs::create_dir_all(&a[3]).expect("workdir");
            replay(&a[2], Path::new(&a[3]), threads)
        }
        Some("random") if a.len() >= 6 => {
            fs::create_dir_all(&a[3]).expect("workdir");
            random(&a[2], Path::new(&a[3]), a[4].parse().unwrap(), a[5].parse().unwrap())
        }
        Some("probe") => {
            let v4: Vec<Value> = ["127.0.0.1", "127.0.0.2", "127.9.9.9", WARM_V4].iter().map(|x| json!({"addr": x, "ok": v4_source_ok(x)})).collect();
            out_line(&json!({"probe": true, "v4_sources": v4, "ipv6_loopback": v6_available(), "dual_stack": dual_stack_ok(), "other_ipv6": other_v6().map(|a| a.to_string()),
                "unspecified": Ipv4Addr::UNSPECIFIED.to_string()}));
        }
        _ => {
            eprintln!("usage: blacklist replay <server-bin> <workdir> [threads] | random <server-bin> <workdir> <sessions> <conns> | probe");
            std::process::exit(2)
        }
    }
}
