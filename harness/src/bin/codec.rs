//! C18 conformance: humphrey-ws SHA-1 / Base64, humphrey percent-encoding and HTTP dates against
//! vectors, tables and calendars produced by TLC from spec/codec/*.tla (method A), and a random
//! generator whose log is validated by TLC with Trace_Codec (code -> spec direction).
//!
//!   codec replay            stdin: JSON lines printed by TLC (field "k" selects the kind); stdout: one summary line
//!   codec random <n> <max>  stdout: ndjson records {k,a,b,r,n,s} for Trace_Codec
//!
//! The harness contains no codec of its own: every expectation is a value printed by TLC or a join of
//! TLC-printed tables (the join operators are JoinEnc / JoinDec in Base64.tla, checked there against the
//! denotation).  The only mirrored definition is the byte-stream generator of Sha1.tla (Gen0/NextGen/ByteOf),
//! and the harness checks that mirror against the message bytes TLC prints for short messages.
use hv::util::*;
use humphrey::http::date::DateTime;
use humphrey::percent::{PercentDecode, PercentEncode};
use humphrey_ws::verif::{base64_decode, base64_encode, sha1};
use serde_json::{json, Value};
use std::collections::BTreeMap;
use std::panic::catch_unwind;

const MAX_FIRST: usize = 40;

#[derive(Default)]
struct Part {
    evals: u64,
    nontrivial: u64,
    mism: u64,
    first: Vec<Value>,
    samples: Vec<Value>,
    by_dev: BTreeMap<String, u64>,
    drift: u64,
    drift_first: Vec<Value>,
}

impl Part {
    fn bad(&mut self, v: Value) {
        self.mism += 1;
        if self.first.len() < MAX_FIRST {
            self.first.push(v);
        }
    }
    /// allowed by the statement, but not the specification's normal form: specification drift, not a violation
    fn odd(&mut self, v: Value) {
        self.drift += 1;
        if self.drift_first.len() < 10 {
            self.drift_first.push(v);
        }
    }
    fn sample(&mut self, v: Value, max: usize) {
        if self.samples.len() < max {
            self.samples.push(v);
        }
    }
}

fn ints(v: &Value) -> Vec<u8> {
    v.as_array().map(|a| a.iter().map(|x| x.as_u64().unwrap_or(999) as u8).collect()).unwrap_or_default()
}
fn ints_wide(v: &Value) -> Vec<u32> {
    v.as_array().map(|a| a.iter().map(|x| x.as_u64().unwrap_or(999) as u32).collect()).unwrap_or_default()
}
fn show(b: &[u8]) -> String {
    String::from_utf8_lossy(b).into_owned()
}

// ---- mirror of the abstract message generator of Sha1.tla -------------------------------------
fn gen_msg(c: u64, n: usize) -> Vec<u8> {
    let mut g: u64 = if c == 1 { ((n as u64) * 31 + 7) % 65537 } else { 0 };
    let mut out = Vec::with_capacity(n);
    for _ in 0..n {
        out.push(match c { 1 => (g % 256) as u8, 2 => 255, 3 => 0, _ => 97 });
        if c == 1 { g = (g * 75 + 74) % 65537; }
    }
    out
}

// ---- outcomes ---------------------------------------------------------------------------------
#[derive(Clone, PartialEq, Debug)]
struct Outcome { r: &'static str, v: Vec<u8> }

fn outcome_of(v: &Value) -> (String, Vec<u8>) {
    let r = match v.get("r") {
        Some(r) => r.as_str().unwrap_or("?").to_string(),
        None => if v["ok"].as_bool().unwrap_or(false) { "ok".into() } else { "err".into() },
    };
    (r, ints(&v["v"]))
}
fn same(o: &Outcome, v: &Value) -> bool {
    let (r, b) = outcome_of(v);
    r == o.r && b == o.v
}
fn out_json(o: &Outcome) -> Value { json!({"r": o.r, "v": o.v}) }

fn b64_decode(text: &[u8]) -> Outcome {
    let s = match String::from_utf8(text.to_vec()) { Ok(s) => s, Err(_) => return Outcome { r: "notutf8", v: vec![] } };
    match catch_unwind(move || base64_decode(&s)) {
        Ok(Ok(v)) => Outcome { r: "ok", v },
        Ok(Err(())) => Outcome { r: "err", v: vec![] },
        Err(_) => Outcome { r: "panic", v: vec![] },
    }
}
fn b64_encode(b: &[u8]) -> Result<Vec<u8>, String> {
    let b2 = b.to_vec();
    catch_unwind(move || base64_encode(&b2).into_bytes()).map_err(|_| "panic".to_string())
}
fn pct_decode(text: &[u8]) -> Outcome {
    let s = match String::from_utf8(text.to_vec()) { Ok(s) => s, Err(_) => return Outcome { r: "notutf8", v: vec![] } };
    match catch_unwind(move || s.percent_decode()) {
        Ok(Some(v)) => Outcome { r: "ok", v },
        Ok(None) => Outcome { r: "err", v: vec![] },
        Err(_) => Outcome { r: "panic", v: vec![] },
    }
}
fn pct_encode(b: &[u8]) -> Result<Vec<u8>, String> {
    let b2 = b.to_vec();
    catch_unwind(move || b2.percent_encode().into_bytes()).map_err(|_| "panic".to_string())
}
fn sha(b: &[u8]) -> Result<Vec<u8>, String> {
    let b2 = b.to_vec();
    catch_unwind(move || sha1(&b2).to_vec()).map_err(|_| "panic".to_string())
}
fn fmt_date(ts: i64) -> String {
    catch_unwind(move || DateTime::from(ts).to_string()).unwrap_or_else(|_| "panic".to_string())
}

// ---- replay -----------------------------------------------------------------------------------
struct Replay {
    parts: BTreeMap<&'static str, Part>,
    time_of: Vec<String>, // TimePart string of every second of a day, from the TLC clock
    rng: Rng,
    every_second_days: Vec<Value>,
    unreserved: Vec<u8>, // Percent!Unreserved, printed by TLC
    mt_pool: Vec<(i64, String)>, // (timestamp, expected date) pairs of different days, formatted again from 8 threads at once
}

impl Replay {
    fn part(&mut self, k: &'static str) -> &mut Part { self.parts.entry(k).or_default() }

    fn sha1_line(&mut self, v: &Value) {
        let len = v["len"].as_u64().unwrap() as usize;
        let c = v["c"].as_u64().unwrap();
        let exp = ints(&v["d"]);
        let printed = ints(&v["m"]);
        let msg = gen_msg(c, len);
        let p = self.part("sha1");
        if printed.len() == len && len > 0 {
            // TLC printed the bytes: use them, and check the mirrored generator against them
            p.evals += 1;
            if printed != msg {
                p.bad(json!({"what": "harness generator mirror differs from Msg(c, len) printed by TLC", "len": len, "c": c}));
            }
        }
        let input = if printed.len() == len { printed } else { msg };
        let got = sha(&input);
        p.evals += 1;
        if len % 64 >= 55 || len % 64 == 0 || len > 64 { p.nontrivial += 1; }
        if got.as_ref().ok() != Some(&exp) {
            p.bad(json!({"what": "sha1 digest", "len": len, "c": c, "expected": exp, "got": format!("{:?}", got)}));
        } else if len == 56 || len == 1000000 || (len > 4096 && c == 1) {
            p.sample(json!({"sha1_of": format!("[len={}, kind={}]", len, c), "digest": exp.iter().map(|b| format!("{:02x}", b)).collect::<String>()}), 3);
        }
    }

    fn enc_tables(&mut self, v: &Value) {
        let s1 = ints(&v["s1"]);
        let s4 = ints(&v["s4"]);
        let s2: Vec<Vec<u8>> = v["s2"].as_array().unwrap().iter().map(ints).collect();
        let s3: Vec<Vec<u8>> = v["s3"].as_array().unwrap().iter().map(ints).collect();
        let p = self.part("b64_enc_all_3byte_groups");
        // (i) every 3-byte group on its own; (ii) for every first byte, all 65536 groups in one call
        for a in 0..256usize {
            let mut big = Vec::with_capacity(65536 * 3);
            for b in 0..256usize {
                for c in 0..256usize {
                    big.extend_from_slice(&[a as u8, b as u8, c as u8]);
                    let exp = [s1[a], s2[a][b], s3[b][c], s4[c]];
                    let got = b64_encode(&[a as u8, b as u8, c as u8]);
                    p.evals += 1;
                    if got.as_deref().ok() != Some(&exp[..]) {
                        p.bad(json!({"what": "base64 encode of one 3-byte group", "in": [a, b, c], "expected": show(&exp), "got": format!("{:?}", got.map(|g| show(&g)))}));
                    }
                }
            }
            let got = b64_encode(&big).unwrap_or_default();
            p.evals += 1;
            let mut ok = got.len() == 65536 * 4;
            if ok {
                for b in 0..256usize {
                    for c in 0..256usize {
                        let o = (b * 256 + c) * 4;
                        if got[o..o + 4] != [s1[a], s2[a][b], s3[b][c], s4[c]] { ok = false; }
                    }
                }
            }
            if !ok { p.bad(json!({"what": "base64 encode of 65536 concatenated groups", "first_byte": a})); }
        }
        p.nontrivial += 1 << 24;
        p.sample(json!({"base64_encode": [255, 239, 190], "table_join": show(&[s1[255], s2[255][239], s3[239][190], s4[190]])}), 1);
    }

    fn dec_tables(&mut self, v: &Value) {
        let sym: Vec<(String, usize)> = v["sym"].as_array().unwrap().iter()
            .map(|e| (e["cls"].as_str().unwrap().to_string(), e["v"].as_u64().unwrap() as usize)).collect();
        let sym68 = ints(&v["sym68"]);
        let tab = |name: &str| -> Vec<Vec<u8>> { v[name].as_array().unwrap().iter().map(ints).collect() };
        let (d1, d2, d3) = (tab("d1"), tab("d2"), tab("d3"));
        let canon2: Vec<bool> = v["canon2"].as_array().unwrap().iter().map(|b| b.as_bool().unwrap()).collect();
        let canon3: Vec<bool> = v["canon3"].as_array().unwrap().iter().map(|b| b.as_bool().unwrap()).collect();
        let mut verdict: BTreeMap<String, String> = BTreeMap::new();
        for s in v["shapes"].as_array().unwrap() {
            let sh: String = s["sh"].as_array().unwrap().iter().map(|x| x.as_str().unwrap()).collect();
            verdict.insert(sh, s["verdict"].as_str().unwrap().to_string());
        }
        let p = self.part("b64_dec_all_4symbol_texts");
        let mut q = [0u8; 4];
        for &a in &sym68 { for &b in &sym68 { for &c in &sym68 { for &d in &sym68 {
            q = [a, b, c, d];
            let shape: String = q.iter().map(|ch| sym[*ch as usize].0.as_str()).collect();
            let x: Vec<usize> = q.iter().map(|ch| sym[*ch as usize].1).collect();
            // JoinDec of Base64.tla
            let (value, may_reject): (Option<Vec<u8>>, bool) = match verdict[&shape].as_str() {
                "quad" => (Some(vec![d1[x[0]][x[1]], d2[x[1]][x[2]], d3[x[2]][x[3]]]), false),
                "pad1" => (Some(vec![d1[x[0]][x[1]], d2[x[1]][x[2]]]), !canon3[x[2]]),
                "pad2" => (Some(vec![d1[x[0]][x[1]]]), !canon2[x[1]]),
                _ => (None, true),
            };
            let got = b64_decode(&q);
            p.evals += 1;
            if value.is_some() { p.nontrivial += 1; }
            let ok = match (&value, got.r) {
                (Some(val), "ok") => *val == got.v,
                (_, "err") => may_reject,
                _ => false,
            };
            if !ok {
                p.bad(json!({"what": "base64 decode of one 4-symbol text", "text": show(&q), "shape": shape,
                    "expected_value": value, "rejection_allowed": may_reject, "got": out_json(&got)}));
            }
        }}}}
        let _ = q;
        p.sample(json!({"base64_decode": "+/+/", "table_join": [d1[62][63], d2[63][62], d3[62][63]]}), 1);
    }

    fn enc12(&mut self, v: &Value, kind: &'static str) {
        let a = v["a"].as_u64().unwrap() as u8;
        let pct = kind == "pct_enc_1_2_bytes";
        let e1 = ints(&v["e1"]);
        let unres = self.unreserved.clone();
        assert!(!pct || !unres.is_empty(), "the punres line must come first");
        let p = self.part(kind);
        let enc = |b: &[u8]| if pct { pct_encode(b) } else { b64_encode(b) };
        let dec = |t: &[u8]| if pct { pct_decode(t) } else { b64_decode(t) };
        let mut check = |p: &mut Part, input: &[u8], exp: &[u8]| {
            let got = enc(input);
            p.evals += 1;
            p.nontrivial += 1;
            // Percent!EncAcceptable: not the normal form, but only unreserved characters and escapes, and it decodes to the input
            // (judged with the real decoder, itself compared with Percent!Dec on every escape and text of this run)
            let acceptable = pct && match &got {
                Ok(g) if g[..] != exp[..] => {
                    let mut i = 0;
                    let mut shape = true;
                    while i < g.len() { if g[i] == b'%' { i += 3; } else { shape &= unres.contains(&g[i]); i += 1; } }
                    let back = pct_decode(g);
                    shape && back.r == "ok" && back.v == input
                }
                _ => false,
            };
            if acceptable {
                p.odd(json!({"what": "percent encoding is not the normal form of RFC 3986 (upper-case hex, unreserved unescaped) but an equivalent one", "in": input,
                    "normal_form": show(exp), "got": got.as_ref().map(|g| show(g)).unwrap_or_default()}));
            } else if got.as_deref().ok() != Some(exp) {
                p.bad(json!({"what": format!("{} encode", if pct {"percent"} else {"base64"}), "in": input, "expected": show(exp), "got": format!("{:?}", got.map(|g| show(&g)))}));
            }
            // the decoder inverts the encoder (on the text TLC says is the encoding)
            let back = dec(exp);
            p.evals += 1;
            if !(back.r == "ok" && back.v == input) {
                p.bad(json!({"what": "decode(Enc(b)) != b", "b": input, "enc": show(exp), "got": out_json(&back)}));
            }
        };
        check(p, &[a], &e1);
        for (b, e2) in v["e2"].as_array().unwrap().iter().enumerate() {
            check(p, &[a, b as u8], &ints(e2));
        }
        if a == 251 { p.sample(json!({"encode": [a, 255], "expected": show(&ints(&v["e2"][255]))}), 1); }
    }

    fn enclen(&mut self, v: &Value) {
        let p = self.part("b64_enc_lengths_0_64");
        for (i, o) in v["ins"].as_array().unwrap().iter().zip(v["outs"].as_array().unwrap()) {
            let (input, exp) = (ints(i), ints(o));
            let got = b64_encode(&input);
            p.evals += 1;
            if input.len() > 3 { p.nontrivial += 1; }
            if got.as_deref().ok() != Some(&exp[..]) {
                p.bad(json!({"what": "base64 encode", "in": input, "expected": show(&exp), "got": format!("{:?}", got.map(|g| show(&g)))}));
            }
            let back = b64_decode(&exp);
            p.evals += 1;
            if !(back.r == "ok" && back.v == input) {
                p.bad(json!({"what": "base64 decode(Enc(b)) != b", "b": input, "enc": show(&exp), "got": out_json(&back)}));
            }
        }
    }

    fn dec_line(&mut self, v: &Value, kind: &'static str) {
        let pct = kind == "pct_dec_texts";
        let text = ints(&v["t"]);
        let got = if pct { pct_decode(&text) } else { b64_decode(&text) };
        let allowed: Vec<&Value> = if pct { vec![&v["exp"]] } else { v["allowed"].as_array().unwrap().iter().collect() };
        let p = self.part(kind);
        p.evals += 1;
        if allowed.iter().any(|a| outcome_of(a).0 == "ok") && !text.is_empty() { p.nontrivial += 1; }
        if !allowed.iter().any(|a| same(&got, a)) {
            // which single deviation of the model predicts exactly this?
            let devs: Vec<&str> = if pct { vec![("plus", "PercentPlusHex")] } else {
                vec![("plus", "B64PlusSlashShift"), ("panic", "B64PadPanic"), ("lax", "B64LaxPadding")] }
                .into_iter().filter(|(f, _)| same(&got, &v[*f])).map(|(_, n)| n).collect();
            let dev = if devs.len() == 1 { devs[0].to_string() } else { String::new() };
            *p.by_dev.entry(dev.clone()).or_default() += 1;
            p.bad(json!({"what": format!("{} decode", if pct {"percent"} else {"base64"}), "text": show(&text), "codes": text,
                "allowed": allowed, "got": out_json(&got), "dev": dev}));
        } else if text.len() >= 4 && got.r == "ok" {
            p.sample(json!({"decode": show(&text), "got": got.v}), 2);
        }
    }

    fn pesc(&mut self, v: &Value) {
        let x = v["x"].as_u64().unwrap() as u8;
        let p = self.part("pct_dec_every_escape");
        for (y, e) in v["exp"].as_array().unwrap().iter().enumerate() {
            let text = [37u8, x, y as u8];
            let got = pct_decode(&text);
            p.evals += 1;
            if outcome_of(e).0 == "ok" { p.nontrivial += 1; }
            if !same(&got, e) {
                let dev = if same(&got, &v["plus"][y]) { "PercentPlusHex" } else { "" };
                *p.by_dev.entry(dev.to_string()).or_default() += 1;
                p.bad(json!({"what": "percent decode", "text": show(&text), "codes": text, "allowed": [e], "got": out_json(&got), "dev": dev}));
            }
        }
    }

    fn minute(&mut self, v: &Value) {
        let s0 = v["s0"].as_u64().unwrap() as usize;
        if self.time_of.len() < 86400 { self.time_of.resize(86400, String::new()); }
        for (i, s) in v["tps"].as_array().unwrap().iter().enumerate() {
            self.time_of[s0 + i] = s.as_str().unwrap().to_string();
        }
    }

    fn month(&mut self, v: &Value) {
        let n0 = v["n0"].as_i64().unwrap();
        let (y, m) = (v["y"].as_i64().unwrap(), v["m"].as_i64().unwrap());
        let mp = v["mp"].as_str().unwrap().to_string();
        let days: Vec<String> = v["days"].as_array().unwrap().iter().map(|s| s.as_str().unwrap().to_string()).collect();
        let es: Vec<i64> = v["es"].as_array().unwrap().iter().map(|x| x.as_i64().unwrap()).collect();
        assert!(self.time_of.len() == 86400 && self.time_of.iter().all(|s| !s.is_empty()), "clock lines must come first");
        let seed = seed_from_env();
        for (i, dp) in days.iter().enumerate() {
            let day = n0 + i as i64;
            let dom = i as i64 + 1;
            let fixed = es.contains(&dom); // HttpDate!EverySecondDays
            let drawn = fnv64(&[day.to_le_bytes(), (seed as i64).to_le_bytes()].concat()) % 400_000 == 0;
            let secs: Vec<usize> = if fixed || drawn { (0..86400).collect() }
                else { vec![0, 86399, self.rng.below(86400)] };
            if fixed || drawn { self.every_second_days.push(json!(format!("{}{}", dp, mp).trim())); }
            let time_of = std::mem::take(&mut self.time_of);
            let p = self.part("date_days");
            for s in secs {
                let ts = day * 86400 + s as i64;
                let exp = format!("{}{}{} GMT", dp, mp, time_of[s]);
                let got = fmt_date(ts);
                p.evals += 1;
                if got != exp {
                    p.bad(json!({"what": "HTTP date", "timestamp": ts, "expected": exp, "got": got}));
                } else if (y == 2000 && m == 2 && dom == 29 && s == 86399) || (y == 9999 && m == 12 && dom == 31 && s == 0) {
                    p.sample(json!({"timestamp": ts, "date": got}), 2);
                }
            }
            p.nontrivial += 1; // one distinct calendar day
            if (i == 0 || i + 1 == days.len()) && self.mt_pool.len() < 40_000 {
                // month boundaries: the last second of one day and the first of the next, for the concurrent pass
                let s = if i == 0 { 0 } else { 86399 };
                self.mt_pool.push((day * 86400 + s as i64, format!("{}{}{} GMT", dp, mp, time_of[s])));
            }
            self.time_of = time_of;
        }
    }
}

fn replay() {
    let mut r = Replay { parts: BTreeMap::new(), time_of: vec![], rng: Rng::from_env(), every_second_days: vec![], unreserved: vec![], mt_pool: vec![] };
    let mut lines = 0u64;
    for line in stdin_lines() {
        let v: Value = match serde_json::from_str(&line) { Ok(v) => v, Err(_) => continue };
        lines += 1;
        match v["k"].as_str().unwrap_or("") {
            "sha1" => r.sha1_line(&v),
            "enc_tables" => r.enc_tables(&v),
            "dec_tables" => r.dec_tables(&v),
            "enc12" => r.enc12(&v, "b64_enc_1_2_bytes"),
            "penc" => r.enc12(&v, "pct_enc_1_2_bytes"),
            "enclen" => r.enclen(&v),
            "dec" => r.dec_line(&v, "b64_dec_texts"),
            "pdec" => r.dec_line(&v, "pct_dec_texts"),
            "pesc" => r.pesc(&v),
            "minute" => r.minute(&v),
            "punres" => r.unreserved = ints(&v["set"]),
            "month" => r.month(&v),
            other => { eprintln!("unknown line kind {:?}", other); std::process::exit(2) }
        }
    }
    // the same conversions from 8 threads at once, every thread walking the days in its own order: the server stamps
    // responses from all its workers, so a conversion must not depend on what another thread converts at that moment
    // (added after the seeded change `C18-r5-datetime-...-one-entry-cache` - a racy last-day cache - was missed)
    if !r.mt_pool.is_empty() {
        let pool = std::sync::Arc::new(std::mem::take(&mut r.mt_pool));
        let bad: std::sync::Arc<std::sync::Mutex<Vec<Value>>> = Default::default();
        let evals = std::sync::Arc::new(std::sync::atomic::AtomicU64::new(0));
        let passes = (200_000 / pool.len()).clamp(2, 60);
        let hs: Vec<_> = (0..8usize).map(|t| {
            let (pool, bad, evals) = (pool.clone(), bad.clone(), evals.clone());
            std::thread::spawn(move || {
                let n = pool.len();
                let stride = [1usize, 3, 7, 11, 13, 17, 19, 23][t] % n.max(2);
                let stride = if stride == 0 || n % stride == 0 { 1 } else { stride };
                for pass in 0..passes {
                    let mut i = (t * n / 8 + pass) % n;
                    for _ in 0..n {
                        let (ts, exp) = &pool[i];
                        let got = fmt_date(*ts);
                        if &got != exp {
                            let mut b = bad.lock().unwrap();
                            if b.len() < 5 { b.push(json!({"what": "HTTP date formatted while 7 other threads format other days", "timestamp": ts, "expected": exp, "got": got, "thread": t})); }
                        }
                        i = (i + stride) % n;
                    }
                    evals.fetch_add(n as u64, std::sync::atomic::Ordering::Relaxed);
                }
            })
        }).collect();
        for h in hs { let _ = h.join(); }
        let p = r.part("date_concurrent");
        p.evals += evals.load(std::sync::atomic::Ordering::Relaxed);
        p.nontrivial += pool.len() as u64;
        for b in bad.lock().unwrap().drain(..) { p.bad(b); }
    }
    let parts: serde_json::Map<String, Value> = r.parts.iter().map(|(k, p)| (k.to_string(), json!({
        "evaluations": p.evals, "nontrivial": p.nontrivial, "mismatches": p.mism, "first": p.first,
        "samples": p.samples, "by_dev": p.by_dev, "drift": p.drift, "drift_first": p.drift_first}))).collect();
    out_line(&json!({"summary": true, "lines": lines, "parts": parts, "every_second_days": r.every_second_days}));
}

// ---- random log for Trace_Codec -----------------------------------------------------------------
fn rec(k: &str, a: &[u32], b: &[u8], r: &str, n: i64, s: &str) -> Value {
    json!({"k": k, "a": a, "b": b, "r": r, "n": n, "s": s})
}
fn wide(b: &[u8]) -> Vec<u32> { b.iter().map(|x| *x as u32).collect() }

fn random(n: usize, max_sha: usize) {
    let mut rng = Rng::from_env();
    let alphabet = b"ABCDEFGHIJKLMNOPQRSTUVWXYZabcdefghijklmnopqrstuvwxyz0123456789+/";
    // SHA-1: random contents, lengths biased to the padding boundaries
    for i in 0..n / 10 + 8 {
        let len = if i % 2 == 0 { 64 * rng.below(max_sha / 64 + 1) + [0, 1, 54, 55, 56, 57, 62, 63][rng.below(8)] } else { rng.below(max_sha + 1) };
        let msg = rng.bytes(len);
        let d = sha(&msg);
        out_line(&rec("sha1", &wide(&msg), &d.clone().unwrap_or_default(), if d.is_ok() { "ok" } else { "panic" }, len as i64, ""));
    }
    // Base64 encode: every length 0..64 with random contents, and longer ones
    for i in 0..n {
        let len = if i <= 64 { i } else { rng.below(300) };
        let b = if rng.chance(1, 6) { vec![[0xfb, 0xff, 0xfe, 0x3e, 0x3f][rng.below(5)]; len] } else { rng.bytes(len) };
        let e = b64_encode(&b);
        out_line(&rec("b64e", &wide(&b), &e.clone().unwrap_or_default(), if e.is_ok() { "ok" } else { "panic" }, len as i64, ""));
    }
    // Base64 decode: valid encodings, perturbed (symbol replaced, padding moved, truncated, symbols from outside)
    for _ in 0..n {
        let len = rng.below(40);
        let b = if rng.chance(1, 3) { vec![[0xfb, 0xff, 0xfe, 0x3e, 0x3f][rng.below(5)]; len] } else { rng.bytes(len) };
        let mut t = b64_encode(&b).unwrap_or_default();
        match rng.below(7) {
            0 | 1 => {}
            6 => {
                // a multi-byte character in place of as many symbols (length and grouping stay well formed): its bytes are
                // >= 0x80, outside the alphabet whatever a table lookup masks them to (C3 B0 & 0x7f = "C0", C2 AB -> "B+")
                const MB: &[&str] = &["\u{f0}", "\u{c2}", "\u{ab}", "\u{af}", "\u{b9}", "\u{e9}", "\u{142}", "\u{2028}", "\u{65e5}", "\u{1f600}", "\u{7ff}", "\u{ffff}"];
                let c = rng.pick(MB).as_bytes();
                if t.len() >= c.len() {
                    let k = rng.below(t.len() - c.len() + 1);
                    t.splice(k..k + c.len(), c.iter().cloned());
                } else {
                    t = c.to_vec();
                    while t.len() % 4 != 0 { t.push(b'='); }
                }
            }
            2 => { if !t.is_empty() { let k = rng.below(t.len()); t[k] = *rng.pick(&b"=-_ \n.AQ/+"[..]); } }
            3 => { let k = rng.below(t.len() + 1); t.truncate(k); }
            4 => { let k = rng.below(t.len() + 1); t.insert(k, *rng.pick(&b"=A/+"[..])); }
            _ => { t = (0..rng.below(13)).map(|_| if rng.chance(1, 8) { b'=' } else { alphabet[rng.below(64)] }).collect(); }
        }
        let o = b64_decode(&t);
        out_line(&rec("b64d", &wide(&t), &o.v, o.r, t.len() as i64, ""));
    }
    // percent
    for _ in 0..n {
        let len = if rng.chance(1, 12) { rng.below(300) } else { rng.below(24) };
        let b: Vec<u8> = (0..len).map(|_| if rng.chance(1, 2) { rng.byte() } else { *rng.pick(&b"aZ09-._~ %+/"[..]) }).collect();
        let e = pct_encode(&b);
        out_line(&rec("pe", &wide(&b), &e.clone().unwrap_or_default(), if e.is_ok() { "ok" } else { "panic" }, len as i64, ""));
        let mut t: Vec<u8> = if rng.chance(1, 2) { e.unwrap_or_default() } else {
            (0..rng.below(12)).flat_map(|_| match rng.below(8) { 0 | 1 | 2 => vec![b'%'], 3 => vec![0xc3, 0xa9], 4 => vec![b'+'],
                _ => vec![*rng.pick(&b"0123456789abcdefABCDEFgGxX -"[..])] }).collect() };
        if rng.chance(1, 4) && !t.is_empty() { let k = rng.below(t.len()); if t[k] < 0x80 && (k + 1 >= t.len() || t[k + 1] < 0x80 || t[k + 1] >= 0xc0) { t[k] = *rng.pick(&b"%+gG0fF"[..]); } }
        if std::str::from_utf8(&t).is_err() { continue; }
        let o = pct_decode(&t);
        out_line(&rec("pd", &wide(&t), &o.v, o.r, t.len() as i64, ""));
    }
    // dates: random (day, second of day); the timestamp is built by multiplication only. Sorted by day for the walker.
    let mut ds: Vec<(i64, u32)> = (0..n * 2).map(|i| {
        let day = match i % 4 { 0 => rng.below(2932897), 1 => rng.below(50000), 2 => 2932896 - rng.below(800), _ => 10950 + rng.below(200) } as i64;
        (day, rng.below(86400) as u32)
    }).collect();
    ds.push((0, 0));
    ds.push((2932896, 86399));
    ds.sort();
    for (day, sod) in ds {
        let s = fmt_date(day * 86400 + sod as i64);
        out_line(&rec("date", &[sod], &[], "ok", day, &s));
    }
}

fn main() {
    quiet_panics();
    let a: Vec<String> = std::env::args().collect();
    match a.get(1).map(|s| s.as_str()) {
        Some("replay") => replay(),
        Some("random") => random(a[2].parse().unwrap(), a[3].parse().unwrap()),
        _ => { eprintln!("usage: codec replay | random <n> <max_sha_len>"); std::process::exit(2) }
    }
}
