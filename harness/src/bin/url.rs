//! Growth item (part of C07, drift only): what request humphrey::client::Client::{get, post, put, delete}(url) builds
//! from a URL, against spec/http/Url.tla.
//!
//!   url replay          stdin: {"scheme","toks","url","ideal":{ok,host,port,path,query},"code":{..},"devs":[..]} per URL
//!                       (vectors printed by TLC, Gen_Url_*.cfg).  Each URL goes through all four builders; the request is
//!                       taken with ClientRequest::into_inner and serialised with Vec<u8>::from(Request).
//!                       stdout: {"summary":true,...}
//!   url random <n>      random token strings (1..12 tokens after "localhost"), stdout: ndjson for Trace_Url.tla
//!                       {"scheme","toks","got":{ok,host,path,query}}
//! Host names are "localhost" and "127.0.0.1" only (resolved from /etc/hosts; nothing leaves the machine).
use hv::util::*;
use humphrey::http::headers::HeaderType;
use humphrey::http::method::Method;
use humphrey::Client;
use serde_json::{json, Value};

#[derive(PartialEq, Clone, Debug)]
struct Obs {
    ok: bool,
    host: String,
    path: String,
    query: String,
    line: String,   // the request line as serialised
    note: String,   // what else is wrong with the built request (method, version, Content-Length, body)
}

fn build(url: &str, which: usize) -> Obs {
    let u = url.to_string();
    let r = std::panic::catch_unwind(move || {
        let mut c = Client::new();
        let body = b"abc".to_vec();
        let req = match which {
            0 => c.get(&u),
            1 => c.post(&u, body.clone()),
            2 => c.put(&u, body.clone()),
            _ => c.delete(&u),
        };
        match req {
            Err(_) => None,
            Ok(cr) => {
                let rq = cr.into_inner();
                let mut note = String::new();
                let want = match which { 0 => Method::Get, 1 => Method::Post, 2 => Method::Put, _ => Method::Delete };
                if rq.method != want { note.push_str("method;"); }
                if rq.version != "HTTP/1.1" { note.push_str("version;"); }
                let has_body = which == 1 || which == 2;
                if has_body {
                    if rq.content.as_deref() != Some(&b"abc"[..]) { note.push_str("body;"); }
                    if rq.headers.get(HeaderType::ContentLength) != Some("3") { note.push_str("content-length;"); }
                } else if rq.content.is_some() { note.push_str("unexpected-body;"); }
                let host = rq.headers.get(HeaderType::Host).unwrap_or("<none>").to_string();
                let (path, query) = (rq.uri.clone(), rq.query.clone());
                let bytes: Vec<u8> = rq.into();
                let line = String::from_utf8_lossy(&bytes).split("\r\n").next().unwrap_or("").to_string();
                Some((host, path, query, line, note))
            }
        }
    });
    match r {
        Err(_) => Obs { ok: false, host: String::new(), path: String::new(), query: String::new(), line: String::new(), note: "panic".into() },
        Ok(None) => Obs { ok: false, host: String::new(), path: String::new(), query: String::new(), line: String::new(), note: String::new() },
        Ok(Some((host, path, query, line, note))) => Obs { ok: true, host, path, query, line, note },
    }
}

fn obs_json(o: &Obs) -> Value {
    json!({"ok": o.ok, "host": o.host, "path": o.path, "query": o.query, "line": o.line, "note": o.note})
}

fn same(o: &Obs, p: &Value) -> bool {
    let ok = p["ok"].as_bool().unwrap_or(false);
    if o.ok != ok { return false; }
    if !ok { return true; }
    o.host == p["host"].as_str().unwrap_or("") && o.path == p["path"].as_str().unwrap_or("") && o.query == p["query"].as_str().unwrap_or("")
}

fn replay() {
    let (mut n, mut evals, mut mism, mut builders_differ, mut line_wrong, mut noted) = (0u64, 0u64, 0u64, 0u64, 0u64, 0u64);
    let (mut accepted, mut ideal_ok, mut agree_ideal) = (0u64, 0u64, 0u64);
    let mut first: Vec<Value> = vec![];
    let mut dev_count: std::collections::BTreeMap<String, (u64, Value)> = Default::default();
    let mut slow = 0u64;
    for line in stdin_lines() {
        let v: Value = match serde_json::from_str(&line) { Ok(v) => v, Err(_) => continue };
        let url = match v["url"].as_str() { Some(u) => u.to_string(), None => continue };
        n += 1;
        let t0 = std::time::Instant::now();
        let o = build(&url, 0);
        if t0.elapsed().as_millis() > 500 { slow += 1; }
        evals += 1;
        if o.ok { accepted += 1; }
        if v["ideal"]["ok"].as_bool() == Some(true) { ideal_ok += 1; }
        // the other three builders must agree with get() on the URL part (every 3rd URL: they share parse_url)
        if n % 3 == 0 {
            for w in 1..4 {
                let o2 = build(&url, w);
                evals += 1;
                if (o2.ok, &o2.host, &o2.path, &o2.query) != (o.ok, &o.host, &o.path, &o.query) {
                    builders_differ += 1;
                    if first.len() < 20 { first.push(json!({"what": "builders disagree", "url": url, "get": obs_json(&o), "other": w, "got": obs_json(&o2)})); }
                }
                if !o2.note.is_empty() {
                    noted += 1;
                    if first.len() < 20 { first.push(json!({"what": "built request wrong beside the URL", "url": url, "builder": w, "got": obs_json(&o2)})); }
                }
            }
        }
        if !o.note.is_empty() {
            noted += 1;
            if first.len() < 20 { first.push(json!({"what": "built request wrong beside the URL", "url": url, "builder": 0, "got": obs_json(&o)})); }
        }
        if o.ok {
            let want = if o.query.is_empty() { format!("GET {} HTTP/1.1", o.path) } else { format!("GET {}?{} HTTP/1.1", o.path, o.query) };
            if o.line != want {
                line_wrong += 1;
                if first.len() < 20 { first.push(json!({"what": "request line is not method SP path[?query] SP version", "url": url, "got": obs_json(&o)})); }
            }
        }
        if !same(&o, &v["code"]) {
            mism += 1;
            if first.len() < 20 { first.push(json!({"what": "code model (Dev = AsFound) does not predict this", "url": url, "predicted": v["code"], "ideal": v["ideal"], "got": obs_json(&o)})); }
        } else if !same(&o, &v["ideal"]) {
            for d in v["devs"].as_array().cloned().unwrap_or_default() {
                let e = dev_count.entry(d.as_str().unwrap_or("?").to_string()).or_insert((0, json!({"url": url, "rfc": v["ideal"], "got": obs_json(&o)})));
                e.0 += 1;
            }
        } else {
            agree_ideal += 1;
        }
    }
    let devs: Vec<Value> = dev_count.iter().map(|(k, (c, ex))| json!({"dev": k, "urls": c, "example": ex})).collect();
    out_line(&json!({"summary": true, "urls": n, "evaluations": evals, "accepted": accepted, "rfc_valid": ideal_ok, "agree_with_rfc": agree_ideal,
        "mismatches": mism, "builders_differ": builders_differ, "line_wrong": line_wrong, "noted": noted, "slow_lookups": slow,
        "first": first, "devs": devs, "live": live()}));
}

/// One real round trip on a port other than 80: a listener on an ephemeral loopback port, Client::get(url).send(), what the
/// listener received (request line and Host) and what send() returned.
fn live() -> Value {
    use std::io::{Read, Write};
    let l = match std::net::TcpListener::bind("127.0.0.1:0") { Ok(l) => l, Err(e) => return json!({"ran": false, "why": e.to_string()}) };
    let port = l.local_addr().map(|a| a.port()).unwrap_or(0);
    let srv = std::thread::spawn(move || -> String {
        let _ = l.set_nonblocking(false);
        match l.accept() {
            Ok((mut s, _)) => {
                let _ = s.set_read_timeout(Some(std::time::Duration::from_secs(5)));
                let mut req = vec![];
                let mut b = [0u8; 1024];
                while !req.windows(4).any(|w| w == b"\r\n\r\n") {
                    match s.read(&mut b) { Ok(0) | Err(_) => break, Ok(n) => req.extend(&b[..n]) }
                }
                let _ = s.write_all(b"HTTP/1.1 200 OK\r\nContent-Length: 2\r\n\r\nok");
                String::from_utf8_lossy(&req).to_string()
            }
            Err(e) => format!("accept: {}", e),
        }
    });
    let url = format!("http://127.0.0.1:{}/p/q?x=1", port);
    let u2 = url.clone();
    let got = std::panic::catch_unwind(move || {
        let mut c = Client::new();
        match c.get(&u2) {
            Err(e) => format!("get: {}", e),
            Ok(r) => match r.send() { Ok(resp) => format!("{} {}", u16::from(resp.status_code), String::from_utf8_lossy(&resp.body)), Err(e) => format!("send: {}", e) },
        }
    }).unwrap_or_else(|_| "panic".into());
    if !got.starts_with("200") {
        // nobody connected: unblock the listener thread
        let _ = std::net::TcpStream::connect(("127.0.0.1", port));
    }
    let seen = srv.join().unwrap_or_default();
    let line = seen.split("\r\n").next().unwrap_or("").to_string();
    let host = seen.split("\r\n").find(|l| l.to_ascii_lowercase().starts_with("host:")).unwrap_or("").to_string();
    let ok = got == "200 ok" && line == "GET /p/q?x=1 HTTP/1.1" && host.trim_start_matches(|c: char| c != ':').trim_start_matches(':').trim() == format!("127.0.0.1:{}", port);
    json!({"ran": true, "ok": ok, "url": url, "returned": got, "request_line": line, "host_line": host})
}

fn random(n: usize) {
    let mut rng = Rng::from_env();
    const REST: [&str; 10] = ["127.0.0.1", ":", "80", "8080", "/", "?", "#", "a", "@", "/"];
    for i in 0..n {
        let scheme = if rng.chance(1, 4) { "https" } else { "http" };
        let mut toks: Vec<String> = vec!["localhost".into()];
        // half of them grown from a well-formed skeleton so that long URLs are not all refused at the authority
        if rng.chance(1, 2) {
            if rng.chance(1, 4) { toks.push(":".into()); if rng.chance(2, 3) { toks.push(rng.pick(&["80", "8080"]).to_string()); } }
            for _ in 0..rng.below(4) { toks.push("/".into()); if rng.chance(3, 4) { toks.push(rng.pick(&["a", "a", "127.0.0.1", ":", "@", "80"]).to_string()); } }
            if rng.chance(1, 2) { toks.push("?".into()); for _ in 0..rng.below(4) { toks.push(rng.pick(&["a", "/", "?", ":", "@", "80"]).to_string()); } }
            if rng.chance(1, 3) { toks.push("#".into()); for _ in 0..rng.below(3) { toks.push(rng.pick(&["a", "/", "?", "#"]).to_string()); } }
        } else {
            for _ in 0..rng.range(0, 11) { toks.push(rng.pick(&REST).to_string()); }
        }
        let url = format!("{}://{}", scheme, toks.concat());
        let o = build(&url, i % 4);
        out_line(&json!({"scheme": scheme, "toks": toks, "got": {"ok": o.ok, "host": o.host, "path": o.path, "query": o.query}}));
    }
}

fn main() {
    quiet_panics();
    let a: Vec<String> = std::env::args().collect();
    match a.get(1).map(|s| s.as_str()) {
        Some("replay") => replay(),
        Some("random") => random(a.get(2).and_then(|s| s.parse().ok()).unwrap_or(1000)),
        _ => { eprintln!("usage: url replay | url random <n>"); std::process::exit(2); }
    }
}
