//! C12 conformance harness: the real `humphrey_ws::async_app::AsyncWebsocketApp` driven by reference
//! WebSocket clients (RFC 6455: handshake, masked frames, strict parsing of what the server sends).
//!
//!   wsasync random <runs> <first-run-id> [maxclients] [chatty] [bigpush] [volley] [deadwrite]   randomised scenarios
//!       (method C); the first `chatty` runs have a short heartbeat and one client that keeps sending for 2.5
//!       timeout periods, the next `bigpush` runs push a burst of 256 KiB unicasts / broadcasts at idle clients of
//!       which one reads late, then `volley` runs (several clients, several messages [+ Close] per write within one
//!       10 ms poll interval), then `deadwrite` runs (unicasts and broadcasts flushed after a client vanished)
//!       stdout: ndjson event log for Trace_WsAsyncApp.tla (one `Reset` record per run) and a final
//!       {"summary":..} line
//!   wsasync replay <settle-ms>                          lock-step replay of TLC behaviours (method D)
//!       stdin : one JSON object per behaviour, as printed by Gen_WsAsyncApp*.cfg
//!       stdout: ndjson event log of the replays, per behaviour {"result":..}, final {"summary":..}
//!
//! Everything observable is appended to ONE log under ONE mutex with the position in the log as the
//! global sequence number:
//!   * loop-thread hook call sites in async_app.rs (`humphrey::verif::point`): Loop_Recv, Loop_Timeout,
//!     Loop_Remove, Loop_Admit, Loop_Flush / Loop_Bcast / Loop_BcastEnd, Loop_Shutdown, Loop_Return;
//!     socket addresses are mapped to the small client ids by port;
//!   * the handlers given to the app: Invoke (first statement of the handler body), H_Send (taken
//!     while the log mutex is held, so the log order is the order in the outgoing channel), H_Done;
//!   * the reference clients: C_Connect / C_Send / C_Ping / C_Close / C_Vanish are logged BEFORE the
//!     bytes are written, C_Rx after a frame was parsed;
//!   * the driver: X_Send (external AsyncSender), X_Shutdown, End.
//! The two hook points `Loop_Iter` (top of every loop iteration) and `Task_Start` (on the pool thread,
//! after the task was dequeued and the receiver mutex released, before the handler is called) are not
//! logged; in the lock-step mode they block until the controller, which walks a TLC behaviour,
//! releases exactly that thread.
use hv::util::*;
use humphrey::http::Request;
use humphrey::stream::Stream;
use humphrey::App;
use humphrey_ws::async_app::{AsyncSender, AsyncStream, AsyncWebsocketApp};
use humphrey_ws::handler::async_websocket_handler;
use humphrey_ws::message::Message;
use humphrey_ws::ping::Heartbeat;
use serde::Serialize;
use serde_json::{json, Value};
use std::collections::{HashMap, HashSet};
use std::io::{Read, Write};
use std::net::{SocketAddr, TcpListener, TcpStream};
use std::os::unix::io::AsRawFd;
use std::panic::{catch_unwind, AssertUnwindSafe};
use std::sync::atomic::{AtomicBool, AtomicUsize, Ordering};
use std::sync::mpsc::{channel, Sender};
use std::sync::{Arc, Condvar, Mutex, MutexGuard};
use std::thread::{self, sleep, JoinHandle};
use std::time::{Duration, Instant};

const MAGIC: &str = "258EAFA5-E914-47DA-95CA-C5AB0DC85B11";
const MAXC: usize = 8;

// ------------------------------------------------------------------------------------------------
// log records: one shape for every record (TLC's ndJsonDeserialize needs every field every time)
// ------------------------------------------------------------------------------------------------
#[derive(Clone, Default, Serialize, Debug, PartialEq)]
struct Rec {
    ev: String,
    run: i64,
    hb: i64,
    nw: i64,
    c: i64,
    m: i64,
    k: String,
    to: i64,
    src: String,
    sc: i64,
    j: i64,
    w: i64,
    n: i64,
    lst: Vec<i64>,
}

fn rec(ev: &str) -> Rec {
    Rec { ev: ev.to_string(), ..Default::default() }
}

/// identity of a server -> client message: kind ("uni"|"bc"), addressee, and the handler event
/// (src "C"|"M"|"D", client, message index) or external send (src "X", index) it came from; j = ordinal
#[derive(Clone, Debug, PartialEq, Eq, Hash)]
struct MsgId {
    k: String,
    to: i64,
    src: String,
    sc: i64,
    m: i64,
    j: i64,
}

impl MsgId {
    fn fill(&self, mut r: Rec) -> Rec {
        r.k = self.k.clone();
        r.to = self.to;
        r.src = self.src.clone();
        r.sc = self.sc;
        r.m = self.m;
        r.j = self.j;
        r
    }
    fn payload(&self, filler: &str) -> String {
        format!("s|{}|{}|{}|{}|{}|{}|{}", self.k, self.to, self.src, self.sc, self.m, self.j, filler)
    }
    fn parse(p: &[u8]) -> Option<MsgId> {
        let s = std::str::from_utf8(p).ok()?;
        let f: Vec<&str> = s.splitn(8, '|').collect();
        if f.len() < 8 || f[0] != "s" {
            return None;
        }
        Some(MsgId {
            k: f[1].to_string(),
            to: f[2].parse().ok()?,
            src: f[3].to_string(),
            sc: f[4].parse().ok()?,
            m: f[5].parse().ok()?,
            j: f[6].parse().ok()?,
        })
    }
}

/// same function as `verif_tag` in async_app.rs
fn tag(bytes: &[u8]) -> i64 {
    (fnv64(bytes) & 0x0fff_ffff_ffff_ffff) as i64
}

/// a task of the handler pool: (kind 0 = connect, 1 = message, 2 = disconnect; client; message index)
type TaskKey = (u8, i64, i64);

fn kind_name(k: u8) -> &'static str {
    match k {
        0 => "C",
        1 => "M",
        _ => "D",
    }
}

// ------------------------------------------------------------------------------------------------
// shared run context
// ------------------------------------------------------------------------------------------------
/// longest gap between consecutive beats of a thread, remembered per time slot (wall clock, us since the
/// start of the run).  Used only to excuse heartbeat timeouts that a stalled loop / reader explains.
#[derive(Default, Clone)]
struct GapWin {
    last_us: u64,
    slots: [(u64, u64); 16],
}

const SLOT_US: u64 = 50_000;

impl GapWin {
    fn beat(&mut self, now_us: u64) {
        let gap = now_us.saturating_sub(self.last_us);
        self.last_us = now_us;
        let id = now_us / SLOT_US;
        let i = (id % 16) as usize;
        if self.slots[i].0 != id {
            self.slots[i] = (id, 0);
        }
        if gap > self.slots[i].1 {
            self.slots[i].1 = gap;
        }
    }
    /// longest gap that ended within the last `window_us`, or is still open now
    fn longest(&self, now_us: u64, window_us: u64) -> u64 {
        let from = now_us.saturating_sub(window_us) / SLOT_US;
        let mut m = now_us.saturating_sub(self.last_us);
        for (id, g) in self.slots.iter() {
            if *id >= from && *g > m {
                m = *g;
            }
        }
        m
    }
}

#[derive(Default)]
struct St {
    slot_busy: [bool; 17],
    loop_gaps: GapWin,
    client_gaps: [GapWin; MAXC + 1],
    events: Vec<Rec>,
    ports: HashMap<u16, i64>,
    up_tags: HashMap<i64, (i64, i64)>,
    down_tags: HashMap<i64, MsgId>,
    bc_open: Option<usize>,
    // gates (lock-step mode)
    lockstep: bool,
    loop_parked: bool,
    loop_permits: usize,
    parked: HashSet<TaskKey>,
    released: HashSet<TaskKey>,
    fin_parked: HashSet<TaskKey>,
    fin_released: HashSet<TaskKey>,
    // bookkeeping used to decide when to move on (never used for verdicts)
    n_dispatch: usize,
    n_done: usize,
    n_out: usize,
    n_flushed: usize,
    recv_cnt: [usize; MAXC + 1],
    removed: [bool; MAXC + 1],
    admitted: [bool; MAXC + 1],
    enqueued: HashSet<i64>,
    invoked: HashSet<TaskKey>,
    finished: HashSet<TaskKey>,
    exited: bool,
    rx_eof: [bool; MAXC + 1],
    /// the client was told to stop answering pings (Op::Mute): a silent client, which the heartbeat may reap
    muted: [bool; MAXC + 1],
}

struct Ctx {
    st: Mutex<St>,
    cv: Condvar,
    t0: Instant,
    /// heartbeat (interval, timeout) in us, (0, 0) = off
    hb_us: (u64, u64),
    hsleep_us: usize,
    /// what the handlers send: for C, M, D a list of "uni" / "bc"
    policy: [Vec<String>; 3],
    big: bool,
    /// > 0: every server -> client payload is padded to about this many bytes (big-push scenarios)
    huge: AtomicUsize,
    /// per client: the reference client's reader does not read while this is set (a late / slow reader)
    holds: [AtomicBool; MAXC + 1],
}

static CUR: Mutex<Option<Arc<Ctx>>> = Mutex::new(None);

impl Ctx {
    fn new(lockstep: bool, policy: [Vec<String>; 3], hsleep_us: usize, big: bool, hb_us: (u64, u64)) -> Arc<Ctx> {
        let st = St { lockstep, ..Default::default() };
        Arc::new(Ctx { st: Mutex::new(st), cv: Condvar::new(), t0: Instant::now(), hb_us, hsleep_us, policy, big,
            huge: AtomicUsize::new(0), holds: Default::default() })
    }
    fn now_us(&self) -> u64 {
        self.t0.elapsed().as_micros() as u64
    }
    /// Was a Pong of client c plausibly late?  With the longest loop gap g and the longest reader gap r in
    /// the last three timeout periods, pings leave at most interval + g apart and a Pong is read at most
    /// r + g later: a responsive client cannot time out while interval + 2g + r < timeout.
    fn timeout_excused(&self, g: &St, c: i64) -> bool {
        let (i, t) = self.hb_us;
        if t == 0 || c < 1 || c as usize > MAXC {
            return true;
        }
        if g.muted[c as usize] {
            return true; // silent by script: "disconnect ... only for closed or silent clients"
        }
        let now = self.now_us();
        let lg = g.loop_gaps.longest(now, 3 * t);
        let rg = g.client_gaps[c as usize].longest(now, 3 * t);
        4 * (2 * lg + rg) >= 3 * t.saturating_sub(i)
    }
    fn lock(&self) -> MutexGuard<'_, St> {
        self.st.lock().unwrap_or_else(|e| e.into_inner())
    }
    fn push(&self, r: Rec) {
        let mut g = self.lock();
        g.events.push(r);
        drop(g);
        self.cv.notify_all();
    }
    fn client_of(g: &St, port: i64) -> i64 {
        g.ports.get(&(port as u16)).copied().unwrap_or(0)
    }
    /// wait until `f` holds or the timeout expires; returns whether it holds
    fn wait_until<F: Fn(&St) -> bool>(&self, timeout: Duration, f: F) -> bool {
        let end = Instant::now() + timeout;
        let mut g = self.lock();
        loop {
            if f(&g) {
                return true;
            }
            let now = Instant::now();
            if now >= end {
                return false;
            }
            let (g2, _) = self.cv.wait_timeout(g, (end - now).min(Duration::from_millis(50))).unwrap_or_else(|e| e.into_inner());
            g = g2;
        }
    }

    // ---- hook call sites of the loop thread ----------------------------------------------------
    fn loop_iter(&self) {
        let now = self.now_us();
        let mut g = self.lock();
        g.loop_gaps.beat(now);
        if !g.lockstep {
            return;
        }
        g.loop_parked = true;
        self.cv.notify_all();
        while g.lockstep && g.loop_permits == 0 {
            g = self.cv.wait(g).unwrap_or_else(|e| e.into_inner());
        }
        if g.loop_permits > 0 {
            g.loop_permits -= 1;
        }
        g.loop_parked = false;
        let mut r = rec("Loop_Iter");
        r.n = g.events.len() as i64;
        g.events.push(r);
    }

    fn loop_event(&self, name: &str, a: i64, b: i64) {
        let mut g = self.lock();
        match name {
            "Loop_Recv" => {
                let c = Ctx::client_of(&g, a);
                if b & 3 == 1 {
                    let (sc, m) = g.up_tags.get(&(b >> 2)).copied().unwrap_or((0, 0));
                    let mut r = rec("Loop_RecvMsg");
                    r.c = c;
                    r.sc = sc;
                    r.m = m;
                    g.events.push(r);
                    g.n_dispatch += 1;
                    if (c as usize) <= MAXC {
                        g.recv_cnt[c as usize] += 1;
                    }
                } else {
                    let mut r = rec("Loop_RecvErr");
                    r.c = c;
                    g.events.push(r);
                    g.n_dispatch += 1;
                }
            }
            "Loop_Timeout" | "Loop_Admit" | "Loop_Remove" => {
                let c = Ctx::client_of(&g, a);
                let mut r = rec(name);
                r.c = c;
                r.n = if name == "Loop_Timeout" { self.timeout_excused(&g, c) as i64 } else { b };
                g.events.push(r);
                if name != "Loop_Remove" {
                    g.n_dispatch += 1;
                }
                if (c as usize) <= MAXC {
                    if name == "Loop_Admit" {
                        g.admitted[c as usize] = true;
                    } else if name == "Loop_Remove" {
                        g.removed[c as usize] = true;
                    }
                }
            }
            "Loop_Flush" => {
                let c = Ctx::client_of(&g, a);
                let kind = b & 3;
                if kind == 2 {
                    if let Some(i) = g.bc_open {
                        g.events[i].lst.push(c);
                    } else {
                        g.events.push(rec("Loop_FlushStray"));
                    }
                } else {
                    let id = g.down_tags.get(&(b >> 2)).cloned().unwrap_or(MsgId { k: "?".into(), to: 0, src: "?".into(), sc: 0, m: 0, j: 0 });
                    let mut r = id.fill(rec("Loop_FlushUni"));
                    r.c = c;
                    if kind == 1 {
                        r.lst.push(c);
                    }
                    g.events.push(r);
                    g.n_flushed += 1;
                }
            }
            "Loop_Bcast" => {
                let id = g.down_tags.get(&b).cloned().unwrap_or(MsgId { k: "?".into(), to: 0, src: "?".into(), sc: 0, m: 0, j: 0 });
                let mut r = id.fill(rec("Loop_FlushBc"));
                r.n = a;
                g.events.push(r);
                g.bc_open = Some(g.events.len() - 1);
                g.n_flushed += 1;
            }
            "Loop_BcastEnd" => {
                g.bc_open = None;
            }
            "Loop_Shutdown" => g.events.push(rec("Loop_Shutdown")),
            "Loop_Return" => {
                g.events.push(rec("Exit"));
                g.exited = true;
            }
            _ => {}
        }
        drop(g);
        self.cv.notify_all();
    }

    /// hook on the pool thread between dequeue and handler call
    fn task_start(&self, port: i64, b: i64) {
        let mut g = self.lock();
        if !g.lockstep {
            return;
        }
        let c = Ctx::client_of(&g, port);
        let kind = (b & 3) as u8;
        let m = if kind == 1 { g.up_tags.get(&(b >> 2)).map(|x| x.1).unwrap_or(0) } else { 0 };
        let key: TaskKey = (kind, c, m);
        g.parked.insert(key);
        self.cv.notify_all();
        while g.lockstep && !g.released.contains(&key) {
            g = self.cv.wait(g).unwrap_or_else(|e| e.into_inner());
        }
        g.parked.remove(&key);
    }

    // ---- the handlers given to the app ----------------------------------------------------------
    fn handler(self: &Arc<Ctx>, kind: u8, stream: &AsyncStream, msg: Option<&Message>) {
        // "worker" = one of 16 slots for handlers running at the same time, taken at the start of the handler body
        // and given back at its end (how the pool names or reuses its threads is not the property's business)
        let port = stream.peer_addr().port();
        let w: i64;
        let (sc_m, c, key) = {
            let mut g = self.lock();
            w = (1..=16).find(|x| !g.slot_busy[*x as usize]).unwrap_or(0);
            if w > 0 {
                g.slot_busy[w as usize] = true;
            }
            let c = Ctx::client_of(&g, port as i64);
            let (sc, m) = match msg {
                Some(mm) => g.up_tags.get(&tag(mm.bytes())).copied().unwrap_or((0, 0)),
                None => (c, 0),
            };
            let mut r = rec("Invoke");
            r.w = w;
            r.k = kind_name(kind).to_string();
            r.c = c;
            r.sc = sc;
            r.m = m;
            g.events.push(r);
            let key: TaskKey = (kind, c, m);
            g.invoked.insert(key);
            self.cv.notify_all();
            if g.lockstep {
                g.fin_parked.insert(key);
                self.cv.notify_all();
                while g.lockstep && !g.fin_released.contains(&key) {
                    g = self.cv.wait(g).unwrap_or_else(|e| e.into_inner());
                }
                g.fin_parked.remove(&key);
            }
            ((sc, m), c, key)
        };
        if self.hsleep_us > 0 {
            // deterministic per event, different between events: stirs the pool schedule
            let h = fnv64(format!("{}-{}-{}", kind, c, sc_m.1).as_bytes()) as usize;
            let us = h % (self.hsleep_us + 1);
            if us > 0 {
                sleep(Duration::from_micros(us as u64));
            }
        }
        for (j, what) in self.policy[kind as usize].iter().enumerate() {
            if what == "uni" && kind == 2 {
                continue; // AsyncStream::send asserts `connected`
            }
            let id = MsgId {
                k: what.clone(),
                to: if what == "uni" { c } else { 0 },
                src: kind_name(kind).to_string(),
                sc: c,
                m: sc_m.1,
                j: (j + 1) as i64,
            };
            let filler = filler_for(&id, self.big, self.huge.load(Ordering::SeqCst));
            let payload = id.payload(&filler);
            let message = if (id.m + id.j) % 3 == 0 { Message::new_binary(payload.as_bytes()) } else { Message::new(payload.as_bytes()) };
            let mut g = self.lock();
            g.down_tags.insert(tag(payload.as_bytes()), id.clone());
            let mut r = id.fill(rec("H_Send"));
            r.w = w;
            g.events.push(r);
            g.n_out += 1;
            // the channel send happens while the log mutex is held: log order = channel order
            if what == "uni" {
                stream.send(message);
            } else {
                stream.broadcast(message);
            }
            drop(g);
        }
        let mut g = self.lock();
        let mut r = rec("H_Done");
        r.w = w;
        g.events.push(r);
        g.n_done += 1;
        if w > 0 {
            g.slot_busy[w as usize] = false;
        }
        g.finished.insert(key);
        drop(g);
        self.cv.notify_all();
    }
}

fn filler_for(id: &MsgId, big: bool, huge: usize) -> String {
    let h = fnv64(format!("{:?}", id).as_bytes()) as usize;
    if huge > 0 {
        return "x".repeat(huge + h % 64);
    }
    let n = match h % 16 {
        0 => 0,
        1 => 118 + h % 16, // around the 125/126 boundary of the 7-bit length
        2 if big => 65_500 + h % 80, // around the 16-bit boundary
        _ => h % 60,
    };
    "x".repeat(n)
}

fn hook(name: &'static str, a: i64, b: i64) {
    let ctx = match CUR.lock().unwrap_or_else(|e| e.into_inner()).clone() {
        Some(c) => c,
        None => return,
    };
    match name {
        "Loop_Iter" => ctx.loop_iter(),
        "Task_Start" => ctx.task_start(a, b),
        _ => ctx.loop_event(name, a, b),
    }
}

// ------------------------------------------------------------------------------------------------
// reference WebSocket client
// ------------------------------------------------------------------------------------------------
struct Client {
    id: i64,
    wr: Arc<Mutex<Option<TcpStream>>>,
    addr: SocketAddr,
    stop: Arc<AtomicBool>,
    quiet: Arc<AtomicBool>,
    reader: Option<JoinHandle<()>>,
    sent: i64,
    rng: Rng,
}

fn frame_bytes(fin: bool, opcode: u8, payload: &[u8], key: [u8; 4]) -> Vec<u8> {
    let mut v = vec![(if fin { 0x80 } else { 0 }) | opcode];
    let n = payload.len();
    if n < 126 {
        v.push(0x80 | n as u8);
    } else if n < 65536 {
        v.push(0x80 | 126);
        v.extend_from_slice(&(n as u16).to_be_bytes());
    } else {
        v.push(0x80 | 127);
        v.extend_from_slice(&(n as u64).to_be_bytes());
    }
    v.extend_from_slice(&key);
    v.extend(payload.iter().enumerate().map(|(i, b)| b ^ key[i % 4]));
    v
}

fn read_exact_or_eof(s: &mut TcpStream, buf: &mut [u8], stop: &AtomicBool, beat: &dyn Fn()) -> Result<bool, String> {
    // Ok(true) = filled, Ok(false) = clean EOF before the first byte / stop requested
    let mut got = 0;
    while got < buf.len() {
        beat(); // also waits while the reader is held (late reader)
        if stop.load(Ordering::SeqCst) {
            return Ok(false);
        }
        let r = s.read(&mut buf[got..]);
        beat();
        match r {
            Ok(0) => return if got == 0 { Ok(false) } else { Err("fin".into()) },
            Ok(n) => got += n,
            Err(e) if e.kind() == std::io::ErrorKind::WouldBlock || e.kind() == std::io::ErrorKind::TimedOut => continue,
            Err(e) if e.kind() == std::io::ErrorKind::Interrupted => continue,
            Err(e) => return if got == 0 { Ok(false) } else { Err(format!("read error inside a frame: {}", e)) },
        }
    }
    Ok(true)
}

/// strict parser of server -> client frames; logs C_Rx for data frames, answers Pings
fn reader_loop(ctx: Arc<Ctx>, id: i64, mut s: TcpStream, wr: Arc<Mutex<Option<TcpStream>>>, stop: Arc<AtomicBool>, quiet: Arc<AtomicBool>) {
    let beat = || {
        while (id as usize) <= MAXC && ctx.holds[id as usize].load(Ordering::SeqCst) && !stop.load(Ordering::SeqCst) {
            sleep(Duration::from_millis(1));
        }
        let now = ctx.now_us();
        let mut g = ctx.lock();
        if (id as usize) <= MAXC {
            g.client_gaps[id as usize].beat(now);
        }
    };
    beat();
    let bad = |why: &str| {
        let mut r = rec("C_RxBad");
        r.c = id;
        r.k = why.to_string();
        ctx.push(r);
    };
    loop {
        let mut h = [0u8; 2];
        match read_exact_or_eof(&mut s, &mut h, &stop, &beat) {
            Ok(true) => {}
            // EOF between frames, or a reset connection (a reset truncates what was in flight): the stream
            // simply ends here; whether everything had to arrive is decided by the trace spec.  An orderly
            // end of stream (FIN) INSIDE a frame means the server wrote only part of a frame: logged.
            Ok(false) => break,
            Err(e) => {
                if e == "fin" {
                    bad("stream ended (FIN) inside a frame header: truncated frame");
                }
                break;
            }
        }
        let fin = h[0] & 0x80 != 0;
        let rsv = h[0] & 0x70;
        let opcode = h[0] & 0x0f;
        let masked = h[1] & 0x80 != 0;
        let mut len = (h[1] & 0x7f) as u64;
        if rsv != 0 || masked || !fin || ![1u8, 2, 8, 9, 10].contains(&opcode) {
            bad(&format!("frame header {:02x} {:02x}", h[0], h[1]));
            break;
        }
        if len == 126 {
            let mut b = [0u8; 2];
            let r = read_exact_or_eof(&mut s, &mut b, &stop, &beat);
            if r != Ok(true) {
                if !stop.load(Ordering::SeqCst) && (r == Ok(false) || r == Err("fin".to_string())) {
                    bad("stream ended (FIN) inside a frame: truncated frame");
                }
                break;
            }
            len = u16::from_be_bytes(b) as u64;
        } else if len == 127 {
            let mut b = [0u8; 8];
            let r = read_exact_or_eof(&mut s, &mut b, &stop, &beat);
            if r != Ok(true) {
                if !stop.load(Ordering::SeqCst) && (r == Ok(false) || r == Err("fin".to_string())) {
                    bad("stream ended (FIN) inside a frame: truncated frame");
                }
                break;
            }
            len = u64::from_be_bytes(b);
        }
        if len > (1 << 24) || (opcode >= 8 && len > 125) {
            bad("frame length");
            break;
        }
        let mut p = vec![0u8; len as usize];
        if len > 0 {
            let r = read_exact_or_eof(&mut s, &mut p, &stop, &beat);
            if r != Ok(true) {
                if !stop.load(Ordering::SeqCst) && (r == Ok(false) || r == Err("fin".to_string())) {
                    bad(&format!("stream ended (FIN) inside a frame of {} bytes: truncated frame", len));
                }
                break;
            }
        }
        match opcode {
            // a data frame counts as received only when its payload is, byte for byte (length + hash), one
            // that a handler / the external sender handed to the app under that identity
            1 | 2 => match MsgId::parse(&p) {
                Some(idm) => {
                    let known = ctx.lock().down_tags.get(&tag(&p)) == Some(&idm);
                    if known {
                        let mut r = idm.fill(rec("C_Rx"));
                        r.c = id;
                        r.n = p.len() as i64;
                        ctx.push(r);
                    } else {
                        bad(&format!("payload of {} bytes differs from what was sent (hash)", p.len()));
                        break;
                    }
                }
                None => {
                    bad("payload not recognised");
                    break;
                }
            },
            9 => {
                let f = frame_bytes(true, 10, &p, [7, 7, 7, 7]);
                let mut g = wr.lock().unwrap_or_else(|e| e.into_inner());
                // checked under the write lock: nothing may follow the client's Close frame (unread bytes
                // would turn the server's orderly close into a reset)
                if !quiet.load(Ordering::SeqCst) {
                    if let Some(w) = g.as_mut() {
                        let mut r = rec("C_Pong");
                        r.c = id;
                        ctx.push(r);
                        let _ = w.write_all(&f);
                    }
                }
            }
            _ => {} // Pong (answer to our ping), Close: contents are C11's business; keep reading to EOF
        }
    }
    let mut g = ctx.lock();
    if (id as usize) <= MAXC {
        g.rx_eof[id as usize] = true;
    }
    drop(g);
    ctx.cv.notify_all();
}

impl Client {
    /// TCP connect, log C_Connect, upgrade request, check the 101 answer, start the reader
    fn connect(ctx: &Arc<Ctx>, id: i64, server: SocketAddr, path: &str, seed: u64) -> Result<Client, String> {
        let deadline = Instant::now() + Duration::from_secs(5);
        let mut s = loop {
            match TcpStream::connect_timeout(&server, Duration::from_secs(2)) {
                Ok(s) => break s,
                Err(e) => {
                    if Instant::now() > deadline {
                        return Err(format!("setup: cannot connect to {}: {}", server, e));
                    }
                    sleep(Duration::from_millis(5));
                }
            }
        };
        let _ = s.set_nodelay(true);
        let addr = s.local_addr().map_err(|e| e.to_string())?;
        let mut rng = Rng::new(seed);
        {
            let mut g = ctx.lock();
            if g.ports.contains_key(&addr.port()) {
                return Err("setup: local port reused within a run".into());
            }
            g.ports.insert(addr.port(), id);
            let mut r = rec("C_Connect");
            r.c = id;
            g.events.push(r);
        }
        let key = humphrey_ws::verif::base64_encode(&rng.bytes(16));
        let req = format!(
            "GET {} HTTP/1.1\r\nHost: localhost\r\nUpgrade: websocket\r\nConnection: Upgrade\r\nSec-WebSocket-Key: {}\r\nSec-WebSocket-Version: 13\r\n\r\n",
            path, key
        );
        s.write_all(req.as_bytes()).map_err(|e| format!("handshake write: {}", e))?;
        s.set_read_timeout(Some(Duration::from_secs(10))).ok();
        let mut resp = Vec::new();
        let mut b = [0u8; 1];
        while !resp.ends_with(b"\r\n\r\n") {
            match s.read(&mut b) {
                Ok(1) => resp.push(b[0]),
                Ok(_) => return Err(format!("handshake: eof after {:?}", String::from_utf8_lossy(&resp))),
                Err(e) => return Err(format!("handshake read: {}", e)),
            }
            if resp.len() > 4096 {
                return Err("handshake: response too long".into());
            }
        }
        let text = String::from_utf8_lossy(&resp).to_string();
        let accept = humphrey_ws::verif::base64_encode(&humphrey_ws::verif::sha1(format!("{}{}", key, MAGIC).as_bytes()));
        let ok_status = text.starts_with("HTTP/1.1 101");
        let ok_accept = text.lines().any(|l| {
            let mut it = l.splitn(2, ':');
            it.next().map(|n| n.trim().eq_ignore_ascii_case("sec-websocket-accept")).unwrap_or(false) && it.next().map(|v| v.trim() == accept).unwrap_or(false)
        });
        if !ok_status || !ok_accept {
            return Err(format!("handshake: unexpected answer {:?}", text));
        }
        s.set_read_timeout(Some(Duration::from_millis(5))).ok();
        let rd = s.try_clone().map_err(|e| e.to_string())?;
        let wr = Arc::new(Mutex::new(Some(s)));
        let stop = Arc::new(AtomicBool::new(false));
        let quiet = Arc::new(AtomicBool::new(false));
        let (c2, w2, s2, q2) = (ctx.clone(), wr.clone(), stop.clone(), quiet.clone());
        let reader = thread::spawn(move || reader_loop(c2, id, rd, w2, s2, q2));
        Ok(Client { id, wr, addr, stop, quiet, reader: Some(reader), sent: 0, rng })
    }

    /// a small receive buffer: the server's writes fill the path quickly when this client does not read
    fn small_rcvbuf(&self) {
        if let Some(s) = self.wr.lock().unwrap_or_else(|e| e.into_inner()).as_ref() {
            let v: libc::c_int = 65_536;
            unsafe {
                libc::setsockopt(s.as_raw_fd(), libc::SOL_SOCKET, libc::SO_RCVBUF, &v as *const _ as *const libc::c_void, std::mem::size_of::<libc::c_int>() as libc::socklen_t);
            }
        }
    }

    fn write(&self, bytes: &[u8]) {
        if let Some(w) = self.wr.lock().unwrap_or_else(|e| e.into_inner()).as_mut() {
            let _ = w.write_all(bytes);
        }
    }

    /// one data message: logged (C_Send), returned as its `frags` frames.  Payload lengths sit on the
    /// boundaries of the length encodings now and then (125/126/127, 65535/65536/65537), text payloads
    /// contain multi-byte characters now and then, fragments may be empty (also the first and the last one).
    fn frames(&mut self, ctx: &Arc<Ctx>, frags: usize, big: bool, exact_len: Option<usize>) -> Vec<Vec<u8>> {
        self.sent += 1;
        let m = self.sent;
        let head = format!("m|{}|{}|", self.id, m);
        let binary = self.rng.chance(1, 3);
        let filler = match exact_len {
            Some(n) => "y".repeat(n.saturating_sub(head.len())),
            None => match self.rng.below(14) {
                0 => String::new(),
                1 => "y".repeat(110 + self.rng.below(30)),
                2 => "y".repeat((*self.rng.pick(&[125usize, 126, 127])).saturating_sub(head.len())),
                3 if big => "y".repeat((*self.rng.pick(&[65_535usize, 65_536, 65_537])).saturating_sub(head.len())),
                4 if big => "y".repeat(65_520 + self.rng.below(40)),
                5 if !binary => "\u{e9}\u{a0}\u{1F600}\u{663}\u{df}\u{3000}".repeat(1 + self.rng.below(4)),
                _ => "y".repeat(self.rng.below(50)),
            },
        };
        let payload = format!("{}{}", head, filler);
        let bytes = payload.as_bytes();
        {
            let mut g = ctx.lock();
            g.up_tags.insert(tag(bytes), (self.id, m));
            let mut r = rec("C_Send");
            r.c = self.id;
            r.m = m;
            r.n = frags as i64;
            g.events.push(r);
        }
        let frags = frags.max(1);
        let mut cuts: Vec<usize> = (0..frags - 1).map(|_| self.rng.below(bytes.len() + 1)).collect();
        if frags >= 2 && self.rng.chance(1, 4) {
            cuts[0] = 0; // empty first fragment
        }
        if frags >= 3 && self.rng.chance(1, 4) {
            cuts[1] = bytes.len(); // empty final fragment
        }
        cuts.sort();
        cuts.push(bytes.len());
        let mut out = vec![];
        let mut start = 0;
        for (i, end) in cuts.iter().enumerate() {
            let opcode = if i == 0 { if binary { 2 } else { 1 } } else { 0 };
            let fin = i == cuts.len() - 1;
            let key = [self.rng.byte(), self.rng.byte(), self.rng.byte(), self.rng.byte()];
            out.push(frame_bytes(fin, opcode, &bytes[start..*end], key));
            start = *end;
        }
        out
    }

    /// one data message, one write per frame (optionally pausing between the fragments)
    fn send(&mut self, ctx: &Arc<Ctx>, frags: usize, pause_us: u64, big: bool) {
        let fr = self.frames(ctx, frags, big, None);
        let n = fr.len();
        for (i, f) in fr.iter().enumerate() {
            self.write(f);
            if i + 1 < n && pause_us > 0 {
                sleep(Duration::from_micros(pause_us));
            }
        }
    }

    fn send_len(&mut self, ctx: &Arc<Ctx>, len: usize) {
        for f in self.frames(ctx, 1, false, Some(len)) {
            self.write(&f);
        }
    }

    /// `n` data messages and, with `close`, the Close frame behind them, handed to the kernel in ONE write:
    /// they reach the server within one poll interval, every message must be dispatched before the disconnect
    fn volley(&mut self, ctx: &Arc<Ctx>, n: usize, close: bool) {
        let mut buf = vec![];
        for _ in 0..n {
            let frags = if self.rng.chance(1, 4) { 2 } else { 1 };
            for f in self.frames(ctx, frags, false, None) {
                buf.extend_from_slice(&f);
            }
        }
        if close {
            self.quiet.store(true, Ordering::SeqCst);
        }
        let mut g = self.wr.lock().unwrap_or_else(|e| e.into_inner());
        if close {
            let mut r = rec("C_Close");
            r.c = self.id;
            ctx.push(r);
            buf.extend_from_slice(&frame_bytes(true, 8, &[], [1, 2, 3, 4]));
        }
        if let Some(w) = g.as_mut() {
            let _ = w.write_all(&buf);
        }
    }

    fn ping(&mut self, ctx: &Arc<Ctx>) {
        let mut r = rec("C_Ping");
        r.c = self.id;
        ctx.push(r);
        let n = self.rng.below(20);
        let p = self.rng.bytes(n);
        let key = [self.rng.byte(), 1, 2, 3];
        self.write(&frame_bytes(true, 9, &p, key));
    }

    /// Close frame, then keep reading until the server closes the connection
    fn close(&mut self, ctx: &Arc<Ctx>) {
        self.quiet.store(true, Ordering::SeqCst);
        // a pong the reader is writing right now must not follow the Close frame
        let mut g = self.wr.lock().unwrap_or_else(|e| e.into_inner());
        let mut r = rec("C_Close");
        r.c = self.id;
        ctx.push(r);
        let p: Vec<u8> = if self.rng.chance(1, 2) { vec![] } else { vec![0x03, 0xe8] };
        if let Some(w) = g.as_mut() {
            let _ = w.write_all(&frame_bytes(true, 8, &p, [9, 8, 7, 6]));
        }
    }

    /// abrupt disconnect: no Close frame; `rst` resets the connection, otherwise the socket is just dropped
    fn vanish(&mut self, ctx: &Arc<Ctx>, rst: bool) {
        self.quiet.store(true, Ordering::SeqCst);
        self.stop.store(true, Ordering::SeqCst);
        if let Some(h) = self.reader.take() {
            let _ = h.join();
        }
        let sock = self.wr.lock().unwrap_or_else(|e| e.into_inner()).take();
        let mut r = rec("C_Vanish");
        r.c = self.id;
        r.k = if rst { "rst" } else { "fin" }.to_string();
        ctx.push(r);
        if let Some(sock) = sock {
            if rst {
                let l = libc::linger { l_onoff: 1, l_linger: 0 };
                unsafe {
                    libc::setsockopt(sock.as_raw_fd(), libc::SOL_SOCKET, libc::SO_LINGER, &l as *const _ as *const libc::c_void, std::mem::size_of::<libc::linger>() as libc::socklen_t);
                }
            }
            // the reader's descriptor is gone (joined above): this close() sends RST (linger 0) or FIN
            drop(sock);
        }
    }

    /// wait for the reader to see EOF (the server closed), then release everything
    fn finish(mut self, wait: Duration) {
        if let Some(h) = self.reader.take() {
            let end = Instant::now() + wait;
            while !h.is_finished() && Instant::now() < end {
                sleep(Duration::from_millis(2));
            }
            self.stop.store(true, Ordering::SeqCst);
            let _ = h.join();
        }
    }
}

// ------------------------------------------------------------------------------------------------
// server under test
// ------------------------------------------------------------------------------------------------
struct Server {
    addr: SocketAddr,
    path: &'static str,
    run_thread: Option<JoinHandle<Result<(), String>>>,
    app_thread: Option<JoinHandle<bool>>,
    ws_shutdown: Sender<()>,
    app_shutdown: Option<Sender<()>>,
    sender: AsyncSender,
}

fn free_port() -> u16 {
    let l = TcpListener::bind("127.0.0.1:0").expect("bind port 0");
    l.local_addr().unwrap().port()
}

struct ServerCfg {
    workers: usize,
    poll: Option<Duration>,
    heartbeat: Option<(Duration, Duration)>,
    internal: bool,
}

fn start_server(ctx: &Arc<Ctx>, cfg: &ServerCfg) -> Server {
    let port = free_port();
    let addr: SocketAddr = format!("127.0.0.1:{}", port).parse().unwrap();
    let (ws_tx, ws_rx) = channel::<()>();
    let mut ws: AsyncWebsocketApp<(), ()> = if cfg.internal {
        AsyncWebsocketApp::new_with_config((), cfg.workers, 2).with_address(addr)
    } else {
        AsyncWebsocketApp::new_unlinked_with_config((), cfg.workers)
    };
    ws = ws.with_polling_interval(cfg.poll).with_shutdown(ws_rx);
    if let Some((i, t)) = cfg.heartbeat {
        ws = ws.with_heartbeat(Heartbeat::new(i, t));
    }
    let (c1, c2, c3) = (ctx.clone(), ctx.clone(), ctx.clone());
    ws.on_connect(move |s: AsyncStream, _: Arc<()>| c1.handler(0, &s, None));
    ws.on_message(move |s: AsyncStream, m: Message, _: Arc<()>| c2.handler(1, &s, Some(&m)));
    ws.on_disconnect(move |s: AsyncStream, _: Arc<()>| c3.handler(2, &s, None));
    let sender = ws.sender();
    let mut app_thread = None;
    let mut app_shutdown = None;
    if !cfg.internal {
        // the real Humphrey App does the HTTP upgrade and hands the stream to the async app
        let hook = ws.connect_hook().expect("unlinked app has a connect hook");
        let inner = async_websocket_handler::<()>(hook);
        let c4 = ctx.clone();
        let route = move |req: Request, stream: Stream, st: Arc<()>| {
            let p = stream.peer_addr().map(|a| a.port()).unwrap_or(0);
            inner(req, stream, st);
            // after this point the stream is in the incoming_streams channel
            let mut g = c4.lock();
            let c = Ctx::client_of(&g, p as i64);
            g.enqueued.insert(c);
            drop(g);
            c4.cv.notify_all();
        };
        let (tx, rx) = channel::<()>();
        let app: App<()> = App::new_with_config(4, ()).with_websocket_route("/ws", route).with_shutdown(rx);
        app_shutdown = Some(tx);
        app_thread = Some(thread::spawn(move || app.run(addr).is_ok()));
    }
    let run_thread = thread::spawn(move || catch_unwind(AssertUnwindSafe(|| ws.run())).map_err(|_| "run() panicked".to_string()));
    Server { addr, path: if cfg.internal { "/any/path" } else { "/ws" }, run_thread: Some(run_thread), app_thread, ws_shutdown: ws_tx, app_shutdown, sender }
}

impl Server {
    /// signal shutdown (logged), wait for run() to return; Ok(returned in time)
    fn shutdown(&mut self, ctx: &Arc<Ctx>, wait: Duration) -> bool {
        {
            let mut g = ctx.lock();
            g.events.push(rec("X_Shutdown"));
            // sent while the log mutex is held: the loop cannot log Loop_Shutdown before X_Shutdown
            let _ = self.ws_shutdown.send(());
            g.lockstep = false; // from here on nothing is gated
        }
        ctx.cv.notify_all();
        let end = Instant::now() + wait;
        let h = self.run_thread.take().unwrap();
        while !h.is_finished() && Instant::now() < end {
            sleep(Duration::from_millis(1));
        }
        let returned = h.is_finished();
        if returned {
            if let Ok(Err(e)) = h.join() {
                let mut r = rec("Panic");
                r.k = e;
                ctx.push(r);
            }
        }
        if let Some(tx) = self.app_shutdown.take() {
            let _ = tx.send(());
        }
        if let Some(h) = self.app_thread.take() {
            let end = Instant::now() + Duration::from_secs(5);
            while !h.is_finished() && Instant::now() < end {
                sleep(Duration::from_millis(1));
            }
        }
        returned
    }
}

fn x_send(ctx: &Arc<Ctx>, sender: &AsyncSender, idx: i64, kind: &str, to: i64, to_addr: Option<SocketAddr>) {
    let id = MsgId { k: kind.to_string(), to: if kind == "uni" { to } else { 0 }, src: "X".into(), sc: 0, m: idx, j: 1 };
    let payload = id.payload(&filler_for(&id, ctx.big, ctx.huge.load(Ordering::SeqCst)));
    let message = Message::new(payload.as_bytes());
    let mut g = ctx.lock();
    g.down_tags.insert(tag(payload.as_bytes()), id.clone());
    g.events.push(id.fill(rec("X_Send")));
    g.n_out += 1;
    if kind == "uni" {
        sender.send(to_addr.expect("unicast needs an address"), message);
    } else {
        sender.broadcast(message);
    }
    drop(g);
}

// ------------------------------------------------------------------------------------------------
// random mode
// ------------------------------------------------------------------------------------------------
#[derive(Clone, Debug)]
enum Op {
    Sleep(u64),
    Send { frags: usize, pause_us: u64 },
    Burst(usize),
    Ping,
    /// keep sending: one message every `every_us` for `dur_ms`
    Chat { dur_ms: u64, every_us: u64 },
    /// one message of exactly this many payload bytes
    SendLen(usize),
    /// wait until every client of the run reached this point (bounded), then n messages in one write
    SyncVolley(usize),
    /// n messages and the Close frame in one write
    VolleyClose(usize),
    /// stop answering pings from now on
    Mute,
}

#[derive(Clone, Debug)]
enum EndOp {
    /// the script already sent the Close frame
    Closed,
    Close,
    VanishFin,
    VanishRst,
    Stay,
}

struct RunOut {
    events: Vec<Rec>,
    info: Value,
    setup_failed: bool,
}

fn emit(events: &[Rec], run: i64) {
    let stdout = std::io::stdout();
    let mut l = stdout.lock();
    for e in events {
        if e.ev == "Loop_Iter" {
            continue;
        }
        let mut e2 = e.clone();
        if e2.ev != "Reset" {
            e2.run = run;
        }
        let _ = writeln!(l, "{}", serde_json::to_string(&e2).unwrap());
    }
}

/// `chatty`: heartbeat on with a short period, client 1 keeps sending across more than two timeout periods
/// (and answers every ping, like every reference client), the others are quiet: nobody may be reaped.
/// `bigpush`: no heartbeat; the clients sit idle for several poll intervals, then the external sender and a
/// handler push a burst of 256 KiB unicasts and broadcasts while client 1 (small receive buffer) does not
/// read for a few hundred ms: every message must still arrive complete, exactly once, in order.
fn random_run(run: i64, rng: &mut Rng, maxclients: usize, kind: u8) -> RunOut {
    let chatty = kind == 1;
    let bigpush = kind == 2;
    // volley: several clients write several messages (some end with messages + Close) in ONE write each, at
    //   the same moment, under the longest poll interval
    let volley = kind == 3;
    // deadwrite: client 1 vanishes (dropped or reset socket, no heartbeat); afterwards unicasts to it and
    //   broadcasts are flushed: the others get every broadcast exactly once, client 1 is disconnected once
    let deadwrite = kind == 4;
    // rstexpiry: every client stops answering pings from the start and resets its connection at about the moment
    //   its pong timeout expires (staggered over a few poll intervals): the read error and the heartbeat timeout of
    //   one client fall into the same loop iteration now and then - it must still be disconnected exactly once
    let rstexpiry = kind == 5;
    let mut nclients = rng.range(1, maxclients);
    let mut workers = *rng.pick(&[1usize, 1, 2, 2, 3, 4, 5, 6, 7, 8]);
    let mut poll = match rng.below(4) {
        0 => None,
        1 => Some(Duration::from_millis(0)),
        _ => Some(Duration::from_micros(rng.range(200, 10_000) as u64)),
    };
    let mut hb_on = rng.chance(1, 2);
    let mut heartbeat = if hb_on { Some((Duration::from_millis(rng.range(15, 40) as u64), Duration::from_millis(rng.range(250, 500) as u64))) } else { None };
    let mut internal = rng.chance(1, 4);
    let mut big = rng.chance(1, 6);
    if chatty {
        nclients = rng.range(2, 3).min(maxclients.max(2));
        workers = *rng.pick(&[1usize, 2]);
        poll = Some(Duration::from_millis(rng.range(2, 10) as u64));
        hb_on = true;
        heartbeat = Some((Duration::from_millis(60), Duration::from_millis(180)));
        internal = rng.chance(1, 3);
        big = false;
    }
    if bigpush {
        nclients = rng.range(2, 3).min(maxclients.max(2));
        workers = *rng.pick(&[1usize, 2]);
        poll = Some(Duration::from_millis(rng.range(1, 5) as u64));
        hb_on = false;
        heartbeat = None;
        internal = rng.chance(1, 3);
        big = false;
    }
    if volley {
        nclients = rng.range(3, 6).min(maxclients.max(3));
        workers = *rng.pick(&[1usize, 2, 4]);
        poll = Some(Duration::from_millis(10));
        hb_on = false;
        heartbeat = None;
        big = false;
    }
    // a reset socket is noticed by the next read; a dropped one (FIN) reads as "nothing yet" for ever (Linux keeps
    // answering read() with 0 once the FIN was seen, whatever is written to the socket afterwards), so only
    // the heartbeat can reap it: that variant runs with the heartbeat on
    let dead_rst = rng.chance(1, 2);
    if deadwrite {
        nclients = 3.min(maxclients.max(2));
        workers = *rng.pick(&[1usize, 2]);
        poll = Some(Duration::from_millis(rng.range(1, 5) as u64));
        // with the heartbeat on in both variants, as in the property's quantifier ("abrupt disconnect with
        // heartbeat on"): a tree that leaves all dead-peer detection to the heartbeat is fine as well
        hb_on = true;
        heartbeat = Some((Duration::from_millis(60), Duration::from_millis(180)));
        internal = rng.chance(1, 3);
        big = false;
    }
    let rst_timeout_ms = 120u64;
    if rstexpiry {
        nclients = maxclients.max(2).min(6);
        workers = *rng.pick(&[1usize, 2]);
        poll = Some(Duration::from_millis(rng.range(6, 10) as u64));
        hb_on = true;
        heartbeat = Some((Duration::from_millis(40), Duration::from_millis(rst_timeout_ms)));
        internal = rng.chance(1, 3);
        big = false;
    }
    let pol = |rng: &mut Rng, allow_uni: bool| -> Vec<String> {
        let n = *rng.pick(&[0usize, 1, 1, 1, 2]);
        (0..n).map(|_| if allow_uni && rng.chance(1, 2) { "uni".to_string() } else { "bc".to_string() }).collect()
    };
    let mut policy = [pol(rng, true), pol(rng, true), pol(rng, false)];
    let mut hsleep_us = *rng.pick(&[0usize, 0, 200, 2000]);
    if chatty {
        policy = [vec![], if rng.chance(1, 2) { vec!["uni".to_string()] } else { vec![] }, vec![]];
        hsleep_us = 0;
    }
    if bigpush {
        policy = [vec![], vec!["bc".to_string()], vec![]];
        hsleep_us = 0;
    }
    if volley {
        policy = [vec![], vec![if rng.chance(1, 2) { "uni" } else { "bc" }.to_string()], vec!["bc".to_string()]];
        hsleep_us = *rng.pick(&[0usize, 200]);
    }
    if deadwrite {
        policy = [vec![], vec![], vec!["bc".to_string()]];
        hsleep_us = 0;
    }
    if rstexpiry {
        policy = [vec![], vec![], vec![]];
        hsleep_us = 0;
    }
    let late_ms = rng.range(300, 600) as u64;
    let ctx = Ctx::new(false, policy.clone(), hsleep_us, big, heartbeat.map(|(i, t)| (i.as_micros() as u64, t.as_micros() as u64)).unwrap_or((0, 0)));
    {
        let mut r = rec("Reset");
        r.run = run;
        r.nw = workers as i64;
        r.hb = hb_on as i64;
        r.n = nclients as i64;
        ctx.push(r);
    }
    *CUR.lock().unwrap() = Some(ctx.clone());
    let cfg = ServerCfg { workers, poll, heartbeat, internal };
    let mut server = start_server(&ctx, &cfg);
    let addrs: Arc<Mutex<HashMap<i64, SocketAddr>>> = Arc::new(Mutex::new(HashMap::new()));
    let failed = Arc::new(Mutex::new(Vec::<String>::new()));
    let sync = Arc::new(AtomicUsize::new(0));
    let live = Arc::new(AtomicUsize::new(nclients));
    // scripts
    let mut handles = vec![];
    let mut plans = vec![];
    for id in 1..=nclients as i64 {
        let nops = rng.range(0, 8);
        let mut ops = vec![Op::Sleep(rng.below(15_000) as u64)];
        for _ in 0..nops {
            ops.push(match rng.below(10) {
                0 | 1 => Op::Sleep(rng.below(8_000) as u64),
                2 => Op::Ping,
                3 => Op::Burst(rng.range(2, 5)),
                4 => Op::Send { frags: rng.range(2, 3), pause_us: rng.below(1500) as u64 },
                _ => Op::Send { frags: 1, pause_us: 0 },
            });
        }
        let end = match rng.below(10) {
            0..=4 => EndOp::Close,
            5 | 6 => EndOp::Stay,
            7 => EndOp::VanishRst,
            _ => if hb_on { EndOp::VanishFin } else { EndOp::VanishRst },
        };
        let mut late = rng.chance(1, 5);
        let (mut ops, mut end) = (ops, end);
        if matches!(end, EndOp::Close) && rng.chance(1, 3) {
            // the last messages and the Close frame leave in one write
            ops.push(Op::VolleyClose(rng.range(1, 4)));
            end = EndOp::Closed;
        }
        if chatty {
            late = false;
            let span_ms = 180 * 5 / 2;
            ops = if id == 1 { vec![Op::Chat { dur_ms: span_ms, every_us: rng.range(1000, 2500) as u64 }] } else { vec![Op::Sleep((span_ms + 30) * 1000)] };
            end = if id == 1 || rng.chance(1, 2) { EndOp::Close } else { EndOp::Stay };
        }
        if bigpush {
            late = false;
            ops = if id == 2 {
                // (the second message is 1 MiB: what the server reads may be large as well)
                vec![Op::Sleep(70_000), Op::Send { frags: 1, pause_us: 0 }, Op::SendLen(1 << 20), Op::Sleep((late_ms + 100) * 1000)]
            } else {
                vec![Op::Sleep((late_ms + 200) * 1000)]
            };
            end = EndOp::Stay;
        }
        if volley {
            late = false;
            ops = vec![Op::Sleep(25_000), Op::SyncVolley(rng.range(2, 5)), Op::Sleep(rng.below(4000) as u64), Op::SyncVolley(rng.range(1, 4))];
            if rng.chance(1, 2) {
                ops.push(Op::Sleep(rng.below(15_000) as u64));
                ops.push(Op::VolleyClose(rng.range(1, 4)));
                end = EndOp::Closed;
            } else {
                ops.push(Op::Sleep(30_000));
                end = if rng.chance(1, 2) { EndOp::Close } else { EndOp::Stay };
            }
        }
        if deadwrite {
            late = false;
            if id == 1 {
                ops = vec![Op::Sleep(50_000)];
                end = if dead_rst { EndOp::VanishRst } else { EndOp::VanishFin };
            } else {
                ops = vec![Op::Sleep(260_000)];
                end = EndOp::Stay;
            }
        }
        if rstexpiry {
            late = false;
            // the pong timeout runs from the admission of the stream (within one poll interval of the handshake)
            ops = vec![Op::Mute, Op::Sleep((rst_timeout_ms * 1000).saturating_sub(4000) + rng.below(22_000) as u64)];
            end = EndOp::VanishRst;
        }
        plans.push(json!({"c": id, "ops": format!("{:?}", ops), "end": format!("{:?}", end)}));
        let (ctx2, addrs2, failed2, live2) = (ctx.clone(), addrs.clone(), failed.clone(), live.clone());
        let (server_addr, path) = (server.addr, server.path);
        let seed = rng.next_u64();
        let sync2 = sync.clone();
        let nsync = nclients;
        handles.push(thread::spawn(move || -> Option<Client> {
            let mut out = None;
            let mut sync_round = 1usize;
            let mut cl = match Client::connect(&ctx2, id, server_addr, path, seed) {
                Ok(c) => c,
                Err(e) => {
                    failed2.lock().unwrap().push(e);
                    live2.fetch_sub(1, Ordering::SeqCst);
                    return None;
                }
            };
            addrs2.lock().unwrap().insert(id, cl.addr);
            if bigpush && id == 1 {
                cl.small_rcvbuf();
            }
            if late {
                sleep(Duration::from_millis(12)); // stays silent across several loop iterations after the connect
            }
            for op in ops {
                match op {
                    Op::Sleep(us) => sleep(Duration::from_micros(us)),
                    Op::Mute => {
                        // flag first, under the log mutex: a timeout logged from now on finds the client silent
                        if (cl.id as usize) <= MAXC { ctx2.lock().muted[cl.id as usize] = true; }
                        cl.quiet.store(true, Ordering::SeqCst);
                    }
                    Op::Send { frags, pause_us } => cl.send(&ctx2, frags, pause_us, big),
                    Op::Burst(n) => {
                        for _ in 0..n {
                            cl.send(&ctx2, 1, 0, false);
                        }
                    }
                    Op::Ping => cl.ping(&ctx2),
                    Op::SendLen(n) => cl.send_len(&ctx2, n),
                    Op::SyncVolley(n) => {
                        let round = sync_round;
                        sync_round += 1;
                        sync2.fetch_add(1, Ordering::SeqCst);
                        let t0 = Instant::now();
                        while sync2.load(Ordering::SeqCst) < nsync * round && t0.elapsed() < Duration::from_secs(3) {
                            sleep(Duration::from_micros(200));
                        }
                        cl.volley(&ctx2, n, false);
                    }
                    Op::VolleyClose(n) => cl.volley(&ctx2, n, true),
                    Op::Chat { dur_ms, every_us } => {
                        let t0 = Instant::now();
                        while t0.elapsed() < Duration::from_millis(dur_ms) {
                            cl.send(&ctx2, 1, 0, false);
                            sleep(Duration::from_micros(every_us));
                        }
                    }
                }
            }
            match end {
                EndOp::Close => {
                    cl.close(&ctx2);
                    out = Some(cl);
                }
                EndOp::Stay | EndOp::Closed => out = Some(cl),
                EndOp::VanishFin => cl.vanish(&ctx2, false),
                EndOp::VanishRst => cl.vanish(&ctx2, true),
            }
            live2.fetch_sub(1, Ordering::SeqCst);
            out
        }));
    }
    // external sender
    let mut nx = *rng.pick(&[0usize, 0, 1, 2, 4]);
    let mut xi = 0i64;
    if bigpush {
        nx = 0;
        // everybody admitted and polled idle for a while; then client 1 stops reading and the burst starts
        ctx.wait_until(Duration::from_secs(5), |g| (1..=nclients).all(|c| g.admitted[c]));
        sleep(Duration::from_millis(40));
        ctx.huge.store(256 * 1024, Ordering::SeqCst);
        ctx.holds[1].store(true, Ordering::SeqCst);
        let a1 = addrs.lock().unwrap().get(&1).copied();
        let burst = rng.range(14, 18);
        for _ in 0..burst {
            if let Some(a) = a1 {
                xi += 1;
                x_send(&ctx, &server.sender, xi, "uni", 1, Some(a));
            }
            xi += 1;
            x_send(&ctx, &server.sender, xi, "bc", 0, None);
        }
        sleep(Duration::from_millis(late_ms));
        ctx.holds[1].store(false, Ordering::SeqCst);
    }
    let mut never_removed = 0i64;
    if deadwrite {
        nx = 0;
        ctx.wait_until(Duration::from_secs(5), |g| (1..=nclients).all(|c| g.admitted[c]));
        ctx.wait_until(Duration::from_secs(5), |g| g.events.iter().any(|e| e.ev == "C_Vanish"));
        let a1 = addrs.lock().unwrap().get(&1).copied();
        for round in 0..4 {
            if let (Some(a), true) = (a1, round != 2) {
                xi += 1;
                x_send(&ctx, &server.sender, xi, "uni", 1, Some(a));
            }
            xi += 1;
            x_send(&ctx, &server.sender, xi, "bc", 0, None);
            sleep(Duration::from_millis(12));
        }
        // the dead socket was written to at least twice (or reset at once): the error is there to be read.
        // "must complete" direction only: a generous wait, then the End record says who is still in the map
        // (a socket reset before its admission is dropped by the loop without ever being a stream)
        if !ctx.wait_until(Duration::from_secs(10), |g| (g.removed[1] || !g.admitted[1]) && g.n_out == g.n_flushed) {
            never_removed = 1;
        }
    }
    let t0 = Instant::now();
    let mut x_times: Vec<u64> = (0..nx).map(|_| rng.below(40_000) as u64).collect();
    x_times.sort();
    for t in x_times {
        let due = Duration::from_micros(t);
        if t0.elapsed() < due {
            sleep(due - t0.elapsed());
        }
        xi += 1;
        if rng.chance(1, 2) {
            x_send(&ctx, &server.sender, xi, "bc", 0, None);
        } else {
            let to = rng.range(1, nclients) as i64;
            let a = addrs.lock().unwrap().get(&to).copied();
            match a {
                Some(a) => x_send(&ctx, &server.sender, xi, "uni", to, Some(a)),
                None => x_send(&ctx, &server.sender, xi, "bc", 0, None),
            }
        }
    }
    let mut clients: Vec<Client> = vec![];
    for h in handles {
        if let Ok(Some(c)) = h.join() {
            clients.push(c);
        }
    }
    let setup_failed = failed.lock().unwrap().iter().any(|e| e.starts_with("setup:"));
    for e in failed.lock().unwrap().iter() {
        if !e.starts_with("setup:") {
            let mut r = rec("C_Fail");
            r.k = e.clone();
            ctx.push(r);
        }
    }
    // settle: everything written by a live client dispatched, closed clients removed, every handler done,
    // every queued message flushed (escalating wait; a shutdown before that is still a legal scenario)
    let sent: Vec<(i64, i64, bool)> = clients.iter().map(|c| (c.id, c.sent, c.quiet.load(Ordering::SeqCst))).collect();
    let early = rng.chance(1, 5) && !deadwrite;
    let settled = if early {
        false
    } else {
        ctx.wait_until(Duration::from_secs(10), |g| {
            sent.iter().all(|(id, n, closed)| {
                let i = *id as usize;
                g.admitted[i] && (g.removed[i] || (g.recv_cnt[i] >= *n as usize && !*closed))
            }) && g.n_dispatch == g.n_done && g.n_out == g.n_flushed
        })
    };
    if hb_on && !early {
        // vanished clients are removed by the heartbeat timeout
        let vanished: Vec<usize> = {
            let g = ctx.lock();
            g.events.iter().filter(|e| e.ev == "C_Vanish").map(|e| e.c as usize).collect()
        };
        ctx.wait_until(Duration::from_secs(10), |g| vanished.iter().all(|c| g.removed[*c] || !g.admitted[*c]) && g.n_dispatch == g.n_done && g.n_out == g.n_flushed);
    }
    let returned = server.shutdown(&ctx, Duration::from_secs(15));
    // handlers dispatched before the shutdown still run (the pool drains its queue)
    let drained = ctx.wait_until(Duration::from_secs(15), |g| g.n_dispatch == g.n_done);
    for c in clients {
        c.finish(Duration::from_secs(if returned { 10 } else { 0 }));
    }
    *CUR.lock().unwrap() = None;
    let mut end = rec("End");
    end.m = if returned && drained { 0 } else { 1 };
    end.n = never_removed;
    end.k = if !returned { "run() did not return within 15 s of the shutdown signal".into() } else if !drained { "a dispatched handler did not run within 15 s".into() } else { String::new() };
    ctx.push(end);
    let events = ctx.lock().events.clone();
    RunOut {
        events,
        info: json!({"run": run, "clients": nclients, "workers": workers, "poll_us": poll.map(|d| d.as_micros() as i64).unwrap_or(-1),
            "heartbeat": hb_on, "chatty": chatty, "bigpush": bigpush, "volley": volley, "deadwrite": deadwrite, "rstexpiry": rstexpiry, "dead_by": if !deadwrite { "" } else if dead_rst { "rst" } else { "fin" }, "late_reader_ms": if bigpush { late_ms } else { 0 }, "internal_app": internal, "policy": policy, "hsleep_us": hsleep_us, "settled": settled, "early_shutdown": early,
            "returned": returned, "plans": plans, "ext": nx}),
        setup_failed,
    }
}

fn random_mode(runs: usize, first: i64, maxclients: usize, special: [usize; 5]) {
    let mut rng = Rng::new(seed_from_env() ^ (first as u64).wrapping_mul(0x9E37_79B9));
    let mut total = 0usize;
    let mut retried = 0usize;
    let mut infos = vec![];
    let mut stats: HashMap<String, usize> = HashMap::new();
    let mut run = first;
    let mut hung = 0;
    // fail fast: after three runs in which run() did not return or a handler never ran, stop generating
    while total < runs && hung < 3 {
        // the special scenarios come first: special[k-1] runs of kind k (1 chatty, 2 bigpush, 3 volley, 4 deadwrite, 5 rstexpiry)
        let mut kind = 0u8;
        let mut acc = 0;
        for (k, n) in special.iter().enumerate() {
            acc += n;
            if total < acc {
                kind = (k + 1) as u8;
                break;
            }
        }
        let out = random_run(run, &mut rng, maxclients, kind);
        if out.setup_failed {
            retried += 1;
            if retried > 10 {
                eprintln!("setup failed repeatedly");
                std::process::exit(2);
            }
            continue;
        }
        emit(&out.events, run);
        if out.events.iter().any(|e| e.ev == "End" && e.m != 0) {
            hung += 1;
        }
        for e in &out.events {
            *stats.entry(e.ev.clone()).or_insert(0) += 1;
        }
        if infos.len() < 400 {
            infos.push(out.info);
        }
        total += 1;
        run += 1;
    }
    out_line(&json!({"summary": true, "runs": total, "setup_retries": retried, "events": stats, "scenarios": infos}));
}

// ------------------------------------------------------------------------------------------------
// lock-step replay of TLC behaviours
// ------------------------------------------------------------------------------------------------
fn task_key(t: &Value) -> TaskKey {
    let k = match t["k"].as_str().unwrap_or("") {
        "C" => 0,
        "M" => 1,
        _ => 2,
    };
    (k, t["c"].as_i64().unwrap_or(0), t["m"].as_i64().unwrap_or(0))
}

fn msg_of(v: &Value) -> MsgId {
    MsgId {
        k: v["k"].as_str().unwrap_or("").to_string(),
        to: v["to"].as_i64().unwrap_or(0),
        src: v["src"].as_str().unwrap_or("").to_string(),
        sc: v["c"].as_i64().unwrap_or(0),
        m: v["m"].as_i64().unwrap_or(0),
        j: v["j"].as_i64().unwrap_or(0),
    }
}

/// what one loop iteration did, in the terms the behaviour uses
fn iteration_view(evs: &[Rec]) -> Vec<Value> {
    let mut out = vec![];
    for e in evs {
        match e.ev.as_str() {
            "Loop_RecvMsg" => out.push(json!(["RecvMsg", e.c, e.m])),
            "Loop_RecvErr" => out.push(json!(["RecvErr", e.c])),
            "Loop_Timeout" => out.push(json!(["Timeout", e.c])),
            "Loop_Remove" => out.push(json!(["Remove", e.c])),
            "Loop_Admit" => out.push(json!(["Admit", e.c])),
            "Loop_FlushUni" | "Loop_FlushBc" => {
                let mut l = e.lst.clone();
                l.sort();
                out.push(json!(["Flush", e.k, e.to, e.src, e.sc, e.m, e.j, l]));
            }
            "Loop_Shutdown" => out.push(json!(["Shutdown"])),
            _ => {}
        }
    }
    out
}

fn expected_view(steps: &[Value]) -> Vec<Value> {
    let mut out = vec![];
    for s in steps {
        match s["a"].as_str().unwrap_or("") {
            "Loop_RecvMsg" => out.push(json!(["RecvMsg", s["c"], s["m"]])),
            "Loop_RecvErr" => {
                out.push(json!(["RecvErr", s["c"]]));
                out.push(json!(["Remove", s["c"]]));
            }
            "Loop_Admit" => out.push(json!(["Admit", s["c"]])),
            "Loop_Flush" => {
                let id = msg_of(&s["msg"]);
                let mut l: Vec<i64> = s["to"].as_array().map(|a| a.iter().filter_map(|x| x.as_i64()).collect()).unwrap_or_default();
                l.sort();
                out.push(json!(["Flush", id.k, id.to, id.src, id.sc, id.m, id.j, l]));
            }
            "Loop_Shutdown" => out.push(json!(["Shutdown"])),
            _ => {}
        }
    }
    out
}

fn replay_one(run: i64, beh: &Value, settle: Duration) -> (Vec<Rec>, Value) {
    let nw = beh["nw"].as_i64().unwrap_or(1) as usize;
    let reply = |k: &str| -> Vec<String> {
        match beh["reply"][k].as_str().unwrap_or("none") {
            "none" => vec![],
            x => vec![x.to_string()],
        }
    };
    let ctx = Ctx::new(true, [reply("C"), reply("M"), reply("D")], 0, false, (0, 0));
    {
        let mut r = rec("Reset");
        r.run = run;
        r.nw = nw as i64;
        ctx.push(r);
    }
    *CUR.lock().unwrap() = Some(ctx.clone());
    let cfg = ServerCfg { workers: nw, poll: Some(Duration::from_millis(0)), heartbeat: None, internal: false };
    let mut server = start_server(&ctx, &cfg);
    let steps: Vec<Value> = beh["steps"].as_array().cloned().unwrap_or_default();
    let mut clients: HashMap<i64, Client> = HashMap::new();
    let mut gone: Vec<Client> = vec![];
    let mut addrs: HashMap<i64, SocketAddr> = HashMap::new();
    let mut xi = 0i64;
    let mut iters = 0usize;
    let mut fail: Option<Value> = None;
    let t_wait = Duration::from_secs(8);
    let mut shut = false;
    // the loop must be parked at the top before anything happens
    if !ctx.wait_until(t_wait, |g| g.loop_parked) {
        fail = Some(json!({"why": "setup: loop never reached the top of its first iteration"}));
    }
    let mut i = 0;
    while i < steps.len() && fail.is_none() {
        let s = &steps[i];
        let a = s["a"].as_str().unwrap_or("");
        let c = s["c"].as_i64().unwrap_or(0);
        match a {
            "Cl_Connect" => match Client::connect(&ctx, c, server.addr, server.path, 1000 + c as u64 + run as u64 * 17) {
                Ok(cl) => {
                    addrs.insert(c, cl.addr);
                    clients.insert(c, cl);
                }
                Err(e) => fail = Some(json!({"why": e, "step": i})),
            },
            "Srv_Enqueue" => {
                if !ctx.wait_until(t_wait, |g| g.enqueued.contains(&c)) {
                    fail = Some(json!({"why": "handshaken stream never reached the incoming channel", "step": i}));
                }
            }
            "Cl_Send" => {
                if let Some(cl) = clients.get_mut(&c) {
                    let frags = 1 + (cl.sent as usize + c as usize) % 2;
                    cl.send(&ctx, frags, 0, false);
                }
            }
            "Cl_Ping" => {
                if let Some(cl) = clients.get_mut(&c) {
                    cl.ping(&ctx);
                }
            }
            "Cl_Close" => {
                if let Some(cl) = clients.get_mut(&c) {
                    cl.close(&ctx);
                }
            }
            "Cl_Vanish" => {
                if let Some(mut cl) = clients.remove(&c) {
                    cl.vanish(&ctx, s["how"].as_str() == Some("rst"));
                    gone.push(cl);
                }
            }
            "Ext_Send" => {
                xi += 1;
                let k = s["k"].as_str().unwrap_or("bc");
                let to = s["to"].as_i64().unwrap_or(0);
                if k == "uni" {
                    // a client that never connected has no address: use one nobody has
                    let a = addrs.get(&to).copied().unwrap_or_else(|| "127.0.0.1:9".parse().unwrap());
                    if !addrs.contains_key(&to) {
                        ctx.lock().ports.insert(9, to);
                    }
                    x_send(&ctx, &server.sender, xi, "uni", to, Some(a));
                } else {
                    x_send(&ctx, &server.sender, xi, "bc", 0, None);
                }
            }
            "Env_Shutdown" => {
                // only the signal; the loop sees it in its next iteration (Loop_Shutdown step)
                let mut g = ctx.lock();
                g.events.push(rec("X_Shutdown"));
                let _ = server.ws_shutdown.send(());
                shut = true;
            }
            "Loop_Begin" | "Loop_Shutdown" => {
                // one iteration: everything up to the next return to the top
                let j = if a == "Loop_Shutdown" { i } else { (i..steps.len()).find(|&j| steps[j]["a"] == "Loop_FlushDone").unwrap_or(steps.len() - 1) };
                let exp = expected_view(&steps[i..=j]);
                sleep(settle);
                let start = {
                    let mut g = ctx.lock();
                    g.loop_permits += 1;
                    g.events.len()
                };
                ctx.cv.notify_all();
                let is_shutdown = a == "Loop_Shutdown";
                let ok = if is_shutdown {
                    ctx.wait_until(t_wait, |g| g.exited)
                } else {
                    // parked again, and this iteration's marker is in the log
                    ctx.wait_until(t_wait, |g| g.loop_parked && g.events[start..].iter().any(|e| e.ev == "Loop_Iter"))
                };
                if !ok {
                    fail = Some(json!({"why": if is_shutdown { "run() did not return after the shutdown signal" } else { "loop iteration did not complete" }, "step": i, "hang": true}));
                } else {
                    let g = ctx.lock();
                    let loop_evs: Vec<Rec> = g.events[start..].iter().filter(|e| e.ev.starts_with("Loop_") && e.ev != "Loop_Iter").cloned().collect();
                    drop(g);
                    let got = iteration_view(&loop_evs);
                    iters += 1;
                    if got != exp {
                        fail = Some(json!({"why": "iteration differs from the behaviour", "step": i, "iteration": iters, "expected": exp, "got": got}));
                    }
                }
                i = j;
            }
            "Worker_Take" => {}
            "Worker_Invoke" => {
                let key = task_key(&s["task"]);
                if !ctx.wait_until(t_wait, |g| g.parked.contains(&key)) {
                    fail = Some(json!({"why": "task never reached the pool thread", "step": i, "task": s["task"], "hang": true}));
                } else {
                    ctx.lock().released.insert(key);
                    ctx.cv.notify_all();
                    if !ctx.wait_until(t_wait, |g| g.invoked.contains(&key)) {
                        fail = Some(json!({"why": "handler was not invoked", "step": i, "task": s["task"], "hang": true}));
                    }
                }
            }
            "Worker_Finish" => {
                let key = task_key(&s["task"]);
                if !ctx.wait_until(t_wait, |g| g.fin_parked.contains(&key)) {
                    fail = Some(json!({"why": "handler not running", "step": i, "task": s["task"]}));
                } else {
                    ctx.lock().fin_released.insert(key);
                    ctx.cv.notify_all();
                    if !ctx.wait_until(t_wait, |g| g.finished.contains(&key)) {
                        fail = Some(json!({"why": "handler did not return", "step": i, "task": s["task"], "hang": true}));
                    }
                }
            }
            _ => {} // Loop_* inside an iteration are consumed above
        }
        i += 1;
    }
    // wind down: release every gate, stop the server if the behaviour did not
    {
        let mut g = ctx.lock();
        g.lockstep = false;
        g.loop_permits += 1000;
    }
    ctx.cv.notify_all();
    let mut returned = true;
    if !shut {
        returned = server.shutdown(&ctx, Duration::from_secs(10));
    } else {
        let h = server.run_thread.take().unwrap();
        let end = Instant::now() + Duration::from_secs(10);
        while !h.is_finished() && Instant::now() < end {
            sleep(Duration::from_millis(1));
        }
        returned = returned && h.is_finished();
        if let Some(tx) = server.app_shutdown.take() {
            let _ = tx.send(());
        }
        if let Some(h) = server.app_thread.take() {
            let end = Instant::now() + Duration::from_secs(5);
            while !h.is_finished() && Instant::now() < end {
                sleep(Duration::from_millis(1));
            }
        }
    }
    let drained = ctx.wait_until(Duration::from_secs(10), |g| g.n_dispatch == g.n_done);
    for (_, c) in clients {
        c.finish(Duration::from_secs(if returned { 5 } else { 0 }));
    }
    drop(gone);
    *CUR.lock().unwrap() = None;
    let mut end = rec("End");
    end.m = if returned && drained { 0 } else { 1 };
    ctx.push(end);
    let events = ctx.lock().events.clone();
    let inverted = {
        // a handler start that overtook an earlier-dispatched task of the same client
        let mut disp: HashMap<i64, Vec<(String, i64)>> = HashMap::new();
        let mut inv: HashMap<i64, Vec<(String, i64)>> = HashMap::new();
        for e in &events {
            match e.ev.as_str() {
                "Loop_Admit" => disp.entry(e.c).or_default().push(("C".into(), 0)),
                "Loop_RecvMsg" => disp.entry(e.c).or_default().push(("M".into(), e.m)),
                "Loop_RecvErr" | "Loop_Timeout" => disp.entry(e.c).or_default().push(("D".into(), 0)),
                "Invoke" => inv.entry(e.c).or_default().push((e.k.clone(), e.m)),
                _ => {}
            }
        }
        inv.iter().any(|(c, v)| disp.get(c).map(|d| d.len() >= v.len() && &d[..v.len()] != &v[..]).unwrap_or(false))
    };
    let ok = fail.is_none();
    (events, json!({"result": true, "run": run, "id": beh["id"], "ok": ok, "fail": fail, "iterations": iters, "steps": steps.len(),
        "returned": returned, "start_order_differs_from_dispatch_order": inverted}))
}

fn replay_mode(settle_ms: u64) {
    let mut run = 1i64;
    let mut n_ok = 0;
    let mut n_fail = 0;
    let mut hangs = 0;
    for line in stdin_lines() {
        let beh: Value = match serde_json::from_str(&line) {
            Ok(v) => v,
            Err(_) => continue,
        };
        let mut attempt = 0;
        if hangs >= 3 {
            // fail fast: the first hangs are reported, the rest of the batch is not run
            out_line(&json!({"result": true, "run": run, "id": beh["id"], "ok": false, "iterations": 0, "steps": 0, "returned": false,
                "start_order_differs_from_dispatch_order": false,
                "fail": {"why": "not run: three behaviours of this batch hung before", "hang": true, "skipped": true}}));
            n_fail += 1;
            run += 1;
            continue;
        }
        loop {
            let (events, res) = replay_one(run, &beh, Duration::from_millis(settle_ms));
            if res["fail"]["hang"] == json!(true) {
                hangs += 1;
            }
            let setup = res["fail"]["why"].as_str().map(|w| w.starts_with("setup:")).unwrap_or(false);
            if setup && attempt < 3 {
                attempt += 1;
                continue;
            }
            emit(&events, run);
            if res["ok"] == json!(true) {
                n_ok += 1;
            } else {
                n_fail += 1;
            }
            out_line(&res);
            break;
        }
        run += 1;
    }
    out_line(&json!({"summary": true, "behaviours": run - 1, "ok": n_ok, "failed": n_fail}));
}

fn main() {
    quiet_panics();
    humphrey::verif::set_hook(Some(Arc::new(hook)));
    let a: Vec<String> = std::env::args().collect();
    match a.get(1).map(|s| s.as_str()) {
        Some("random") => {
            let runs: usize = a.get(2).and_then(|s| s.parse().ok()).unwrap_or(5);
            let first: i64 = a.get(3).and_then(|s| s.parse().ok()).unwrap_or(1);
            let maxc: usize = a.get(4).and_then(|s| s.parse().ok()).unwrap_or(MAXC).min(MAXC).max(1);
            let sp = |i: usize| -> usize { a.get(i).and_then(|s| s.parse().ok()).unwrap_or(0) };
            random_mode(runs, first, maxc, [sp(5), sp(6), sp(7), sp(8), sp(9)])
        }
        Some("replay") => replay_mode(a.get(2).and_then(|s| s.parse().ok()).unwrap_or(3)),
        _ => {
            eprintln!("usage: wsasync random <runs> <first-run-id> [maxclients] | replay <settle-ms>");
            std::process::exit(2)
        }
    }
}
