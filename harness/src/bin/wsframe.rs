//! C10 conformance: humphrey-ws frame encoder / decoder (through humphrey_ws::verif) and Message::to_frame
//! against WsFrame.tla.
//!
//!   wsframe replay            stdin: JSON lines printed by TLC (k = xor | frame | hdr2 | wire); stdout: one summary line
//!   wsframe random <n> <max>  stdout: ndjson records for Trace_WsFrame
//!
//! Expectations come from TLC: exact header bytes per abstract frame [len, seed], Need / fields of all 65536
//! two-byte headers, Decode() of small concrete wires, and the XOR table used to unmask long payloads
//! (Unmask(p, key)[i] = p[i] XOR key[i mod 4] in WsFrame.tla; the harness does the look-ups).
//! The harness owns the expansion of an abstract payload [len, seed] into bytes and the read segmentation.
use hv::util::*;
use humphrey_ws::message::Message;
use humphrey_ws::verif::{decode, encode, RawFrame};
use serde_json::{json, Value};
use std::io::Read;
use std::panic::catch_unwind;

// ---- projection: abstract payload [len, seed] -> bytes -----------------------------------------
fn expand(seed: u64, len: usize) -> Vec<u8> {
    let mut g = seed % 65537;
    let mut out = Vec::with_capacity(len);
    for _ in 0..len {
        out.push((g % 256) as u8);
        g = (g * 75 + 74) % 65537;
    }
    out
}

// ---- a reader that returns the data in the pieces given by `cuts` ------------------------------
struct SegReader<'a> { data: &'a [u8], cuts: &'a [usize], pos: usize, chunk: usize }
impl<'a> Read for SegReader<'a> {
    fn read(&mut self, buf: &mut [u8]) -> std::io::Result<usize> {
        if self.pos >= self.data.len() || buf.is_empty() { return Ok(0); }
        let next_cut = self.cuts.iter().copied().find(|c| *c > self.pos).unwrap_or(self.data.len()).min(self.data.len());
        let mut n = (next_cut - self.pos).min(buf.len());
        if self.chunk > 0 { n = n.min(self.chunk); }
        buf[..n].copy_from_slice(&self.data[self.pos..self.pos + n]);
        self.pos += n;
        Ok(n)
    }
}

#[derive(Debug, Clone, PartialEq)]
enum Got { Ok(RawFrame, usize), Err(String), Panic }

fn decode_with(data: &[u8], cuts: &[usize]) -> Got { decode_chunked(data, cuts, 0) }

/// the key field of an unmasked frame carries no information (WsFrame!NormKey)
fn norm(mut f: RawFrame) -> RawFrame { if !f.mask { f.masking_key = [0; 4]; } f }
/// WsFrame!Matches / ConsumesExactly for an expected complete frame: (what the statement demands, and also exact consumption)
fn judge(g: &Got, exp: &RawFrame, used: usize) -> (bool, bool) {
    match g { Got::Ok(f, u) => { let c = norm(f.clone()) == *exp; (c, c && *u == used) } _ => (false, false) }
}

/// `chunk` > 0: no read returns more than `chunk` bytes (sizes that are not multiples of 4 exercise the unmasking index)
fn decode_chunked(data: &[u8], cuts: &[usize], chunk: usize) -> Got {
    let r = catch_unwind(|| {
        let mut rd = SegReader { data, cuts, pos: 0, chunk };
        let res = decode(&mut rd);
        (res, rd.pos)
    });
    match r {
        Ok((Ok(f), used)) => Got::Ok(f, used),
        Ok((Err(e), _)) => Got::Err(e),
        Err(_) => Got::Panic,
    }
}
fn encode_of(f: &RawFrame) -> Option<Vec<u8>> {
    let f2 = f.clone();
    catch_unwind(move || encode(f2)).ok().flatten()
}

/// Second-level judge for Message::to_frame (the statement does not mention it): the bytes are unmasked, unreserved frames -
/// a data frame then continuations, only the last one final - whose payloads concatenate to the message. Uses the real
/// decoder, which the rest of this run compares with WsFrame.tla (only consulted when that comparison is clean so far).
fn to_frame_acceptable(bytes: &[u8], payload: &[u8]) -> bool {
    let r = catch_unwind(|| {
        let mut rd = SegReader { data: bytes, cuts: &[], pos: 0, chunk: 0 };
        let mut frames = vec![];
        while rd.pos < bytes.len() && frames.len() < 10000 {
            match decode(&mut rd) { Ok(f) => frames.push(f), Err(_) => return None }
        }
        Some(frames)
    });
    match r {
        Ok(Some(fs)) if !fs.is_empty() => {
            let n = fs.len();
            let shape = fs.iter().enumerate().all(|(i, f)| !f.mask && f.rsv == [false; 3] && f.fin == (i + 1 == n)
                && if i == 0 { f.opcode == 1 || f.opcode == 2 } else { f.opcode == 0 });
            shape && fs.iter().flat_map(|f| f.payload.iter().copied()).collect::<Vec<u8>>() == payload
        }
        _ => false,
    }
}

fn all_ones(n: usize) -> Vec<usize> { (1..n).collect() }

/// the split plans for one wire: every single split point and byte-by-byte when short, seeded random otherwise
fn plans(len: usize, hdr_len: usize, rng: &mut Rng) -> Vec<Vec<usize>> {
    let mut v: Vec<Vec<usize>> = vec![vec![]];
    if len < 300 {
        for k in 1..len { v.push(vec![k]); }
        v.push(all_ones(len));
    } else {
        v.push((1..hdr_len + 2).collect());
        v.push(vec![hdr_len.saturating_sub(1)]);
        v.push(vec![hdr_len]);
        v.push(vec![hdr_len + 1]);
        v.push(vec![len - 1]);
        for _ in 0..6 {
            let mut c: Vec<usize> = (0..rng.range(1, 6)).map(|_| rng.range(1, len - 1)).collect();
            c.sort();
            v.push(c);
        }
    }
    v
}

#[derive(Default)]
struct Part { evals: u64, nontrivial: u64, mism: u64, first: Vec<Value>, samples: Vec<Value>, drift: u64, drift_first: Vec<Value> }
impl Part {
    fn bad(&mut self, v: Value) { self.mism += 1; if self.first.len() < 30 { self.first.push(v); } }
    /// stricter than the statement of C10 (how far the reader was consumed, which error rejects a reserved opcode, ...):
    /// reported as specification drift, never as a violation
    fn odd(&mut self, v: Value) { self.drift += 1; if self.drift_first.len() < 10 { self.drift_first.push(v); } }
}

fn hex(b: &[u8]) -> String { b.iter().take(24).map(|x| format!("{:02x}", x)).collect::<Vec<_>>().join(" ") + if b.len() > 24 { " .." } else { "" } }
fn u8s(v: &Value) -> Vec<u8> { v.as_array().map(|a| a.iter().map(|x| x.as_u64().unwrap() as u8).collect()).unwrap_or_default() }
fn bit(v: &Value) -> bool { v.as_u64().unwrap() == 1 }
fn rsv_of(v: &Value) -> [bool; 3] { let a = v.as_array().unwrap(); [bit(&a[0]), bit(&a[1]), bit(&a[2])] }
fn key_of(v: &Value) -> [u8; 4] { let k = u8s(v); [k[0], k[1], k[2], k[3]] }
fn short(f: &RawFrame) -> Value {
    json!({"fin": f.fin, "rsv": f.rsv, "opcode": f.opcode, "mask": f.mask, "length": f.length, "key": f.masking_key,
           "payload_len": f.payload.len(), "payload_head": hex(&f.payload)})
}
fn got_json(g: &Got) -> Value {
    match g { Got::Ok(f, used) => json!({"ok": short(f), "used": used}), Got::Err(e) => json!({"err": e}), Got::Panic => json!("panic") }
}

struct Replay { xor: Vec<Vec<u8>>, rng: Rng, frames: Part, hdrs: Part, wires: Part, msgs: Part, big: Part, huge: Part, pairs: Part,
                prev: Option<(Vec<u8>, RawFrame)> }

impl Replay {
    fn unmask(&self, p: &[u8], key: &[u8; 4]) -> Vec<u8> {
        p.iter().enumerate().map(|(i, b)| self.xor[*b as usize][key[i % 4] as usize]).collect()
    }

    /// decode `wire` under all plans and compare with `exp`; then every truncation must be a read error
    /// `nonmin`: the wire uses a longer length form than needed - WsFrame!NonMinimalMayBeRefused: it may be decoded or refused
    fn check_decode(&mut self, which: u8, wire: &[u8], hdr_len: usize, exp: &RawFrame, ctxv: &Value, nonmin: bool) {
        let pl = plans(wire.len(), hdr_len, &mut self.rng);
        let part = match which { 0 => &mut self.frames, _ => &mut self.hdrs };
        for cuts in &pl {
            let g = decode_with(wire, cuts);
            part.evals += 1;
            let (content, exact) = judge(&g, exp, wire.len());
            if nonmin && matches!(&g, Got::Err(_)) {
                part.odd(json!({"what": "complete frame in a non-minimal length form refused", "case": ctxv, "wire": hex(wire), "got": got_json(&g)}));
            } else if !content {
                part.bad(json!({"what": "decode of a complete frame", "case": ctxv, "wire": hex(wire), "cuts": cuts.iter().take(8).collect::<Vec<_>>(),
                    "expected": short(exp), "got": got_json(&g)}));
                break;
            } else if !exact {
                part.odd(json!({"what": "frame decoded, reader position differs", "case": ctxv, "got": got_json(&g), "wire_len": wire.len()}));
            }
        }
        // two frames back to back on one connection
        let mut twice = wire.to_vec();
        twice.extend_from_slice(wire);
        let cut = [wire.len() / 2, wire.len() + 1];
        let r = catch_unwind(|| {
            let mut rd = SegReader { data: &twice, cuts: &cut, pos: 0, chunk: 0 };
            let a = decode(&mut rd);
            let b = decode(&mut rd);
            let c = decode(&mut rd);
            (a, b, c, rd.pos)
        });
        part.evals += 1;
        match r {
            Ok((Ok(a), Ok(b), Err(c), pos)) if norm(a.clone()) == *exp && norm(b.clone()) == *exp && c == "ReadError" && pos == twice.len() => {}
            // the first frame is right: what happens to the bytes behind it is beyond the statement (drift)
            Ok((Err(_), _, _, _)) if nonmin => {}
            Ok((Ok(a), b, c, pos)) if norm(a.clone()) == *exp =>
                part.odd(json!({"what": "two frames back to back: the first decodes, the continuation differs", "case": ctxv,
                    "got": format!("{:?}", (b.map(|f| f.length), c.map(|f| f.length), pos))})),
            other => part.bad(json!({"what": "two frames back to back, then end of stream", "case": ctxv, "got": format!("{:?}", other.map(|(a, b, c, p)| (a.map(|f| f.length), b.map(|f| f.length), c.map(|f| f.length), p)))})),
        }
        // truncation
        let n = wire.len();
        let ks: Vec<usize> = if n < 300 { (0..n).collect() } else {
            let mut v = vec![0, 1, 2, 3, hdr_len - 1, hdr_len, hdr_len + 1, n / 2, n - 1];
            v.push(self.rng.range(hdr_len, n - 1));
            v
        };
        for k in ks {
            let cuts = if k > 3 { vec![k / 2] } else { vec![] };
            let g = decode_with(&wire[..k], &cuts);
            part.evals += 1;
            if g != Got::Err("ReadError".into()) {
                part.bad(json!({"what": "truncated frame must give a read error", "case": ctxv, "wire": hex(wire), "kept_bytes": k, "of": n, "got": got_json(&g)}));
                break;
            }
        }
    }

    fn frame_line(&mut self, v: &Value) {
        let (fin, rsv, op, mask) = (bit(&v["fin"]), rsv_of(&v["rsv"]), v["op"].as_u64().unwrap() as u8, bit(&v["mask"]));
        let key = key_of(&v["key"]);
        let len = v["len"].as_u64().unwrap() as usize;
        let seed = v["seed"].as_u64().unwrap();
        let hdr = u8s(&v["hdr"]);
        let p = expand(seed, len);
        let mut wire = hdr.clone();
        wire.extend_from_slice(&p);
        let ctxv = json!({"fin": fin, "rsv": rsv, "op": op, "mask": mask, "key": key, "len": len, "seed": seed});
        // 1. encoder: byte for byte
        let input = RawFrame { fin, rsv, opcode: op, mask, length: len as u64, masking_key: key, payload: p.clone() };
        let enc = encode_of(&input);
        self.frames.evals += 1;
        if len > 0 { self.frames.nontrivial += 1; }
        let masked_alt = mask && len > 0 && enc.as_deref() != Some(&wire[..]) && {
            // the other reading of the frame's payload field (plain text, masked by the encoder): same header, payload XOR key
            let mut w2 = hdr.clone();
            w2.extend(self.unmask(&p, &key));
            enc.as_deref() == Some(&w2[..])
        };
        if masked_alt {
            self.frames.odd(json!({"what": "encoder applies the masking key to the payload (DESIGN 5a reads the field as the on-wire payload)", "case": ctxv}));
        } else if enc.as_deref() != Some(&wire[..]) {
            let e = enc.clone().unwrap_or_default();
            self.frames.bad(json!({"what": "encode", "case": ctxv, "expected_header": hex(&hdr), "got_head": hex(&e), "expected_len": wire.len(), "got_len": e.len()}));
        } else if self.frames.samples.len() < 4 && mask && (len == 126 || len == 65536) && op == 2 && fin && key[0] == 165 {
            self.frames.samples.push(json!({"frame": ctxv, "header": hex(&hdr)}));
        }
        // 2. decoder: same frame, payload unmasked, under every split / truncation
        let exp = RawFrame { fin, rsv, opcode: op, mask, length: len as u64, masking_key: if mask { key } else { [0; 4] },
                             payload: if mask { self.unmask(&p, &key) } else { p.clone() } };
        self.check_decode(0, &wire, hdr.len(), &exp, &ctxv, false);
        // 2b. the previous (different) frame and this one on the same connection: the first must not eat into the second
        if let Some((pw, pexp)) = self.prev.take() {
            let mut both = pw.clone();
            both.extend_from_slice(&wire);
            let cut = [pw.len().saturating_sub(1), pw.len() + 1];
            let r = catch_unwind(|| {
                let mut rd = SegReader { data: &both, cuts: &cut, pos: 0, chunk: 0 };
                let a = decode(&mut rd);
                let b = decode(&mut rd);
                (a, b, rd.pos)
            });
            self.pairs.evals += 1;
            if pexp.length == 0 && pexp.mask { self.pairs.nontrivial += 1; }
            match r {
                Ok((Ok(a), Ok(b), pos)) if norm(a.clone()) == pexp && norm(b.clone()) == exp && pos == both.len() => {}
                Ok((Ok(a), b, pos)) if norm(a.clone()) == pexp =>
                    self.pairs.odd(json!({"what": "two different frames on one connection: the first decodes, the second differs", "first": short(&pexp), "second": ctxv,
                        "got": format!("{:?}", (b.map(|f| short(&f).to_string()), pos))})),
                other => self.pairs.bad(json!({"what": "two different frames on one connection", "first": short(&pexp), "second": ctxv,
                    "got": format!("{:?}", other.map(|(a, b, p)| (a.map(|f| short(&f).to_string()), b.map(|f| short(&f).to_string()), p)))})),
            }
        }
        if wire.len() <= 300 { self.prev = Some((wire.clone(), exp.clone())); }
        // 3. Message::to_frame is the unmasked, final, unreserved single frame
        if fin && !mask && rsv == [false; 3] && (op == 1 || op == 2) {
            let (payload, msg) = if op == 2 { (p.clone(), Message::new_binary(&p)) } else {
                let t: Vec<u8> = p.iter().map(|b| 32 + b % 95).collect();
                (t.clone(), Message::new(&t))
            };
            let got = catch_unwind(move || msg.to_frame()).unwrap_or_default();
            let mut w = hdr.clone();
            w.extend_from_slice(&payload);
            self.msgs.evals += 1;
            self.msgs.nontrivial += 1;
            if got != w && self.frames.mism == 0 && to_frame_acceptable(&got, &payload) {
                // not the single frame with the documented opcode, but still frames that carry exactly this message
                self.msgs.odd(json!({"what": "Message::to_frame is not the expected single frame but decodes to the message", "text": op == 1, "len": len, "got_head": hex(&got), "got_len": got.len()}));
            } else if got != w {
                self.msgs.bad(json!({"what": "Message::to_frame", "text": op == 1, "len": len, "expected_header": hex(&hdr), "got_head": hex(&got), "got_len": got.len()}));
            } else if self.msgs.samples.len() < 2 && len == 125 {
                self.msgs.samples.push(json!({"message": if op == 1 { "text" } else { "binary" }, "len": len, "to_frame_head": hex(&got)}));
            }
        }
    }

    /// lessons L2: payloads around the 4 KiB block size and of several MiB, under readers returning at most `c` bytes per read
    fn bigframe_line(&mut self, v: &Value) {
        let (fin, rsv, op, mask) = (bit(&v["fin"]), rsv_of(&v["rsv"]), v["op"].as_u64().unwrap() as u8, bit(&v["mask"]));
        let key = key_of(&v["key"]);
        let len = v["len"].as_u64().unwrap() as usize;
        let seed = v["seed"].as_u64().unwrap();
        let hdr = u8s(&v["hdr"]);
        let p = expand(seed, len);
        let mut wire = hdr.clone();
        wire.extend_from_slice(&p);
        let ctxv = json!({"fin": fin, "rsv": rsv, "op": op, "mask": mask, "key": key, "len": len, "seed": seed});
        let enc = encode_of(&RawFrame { fin, rsv, opcode: op, mask, length: len as u64, masking_key: key, payload: p.clone() });
        self.big.evals += 1;
        self.big.nontrivial += 1;
        if enc.as_deref() != Some(&wire[..]) {
            let e = enc.unwrap_or_default();
            self.big.bad(json!({"what": "encode", "case": ctxv, "expected_header": hex(&hdr), "got_head": hex(&e), "expected_len": wire.len(), "got_len": e.len()}));
        }
        let exp = RawFrame { fin, rsv, opcode: op, mask, length: len as u64, masking_key: if mask { key } else { [0; 4] },
                             payload: if mask { self.unmask(&p, &key) } else { p.clone() } };
        let mut chunks = vec![0usize, 3, 7, 4093, 4096, 4099, 65535, 65537];
        if len <= 4097 { chunks.extend([1, 2, 5]); }
        for c in chunks {
            let cuts = [hdr.len() + 1 + c % 3];
            let g = decode_chunked(&wire, &cuts, c);
            self.big.evals += 1;
            let (content, exact) = judge(&g, &exp, wire.len());
            if content && !exact { self.big.odd(json!({"what": "frame decoded, reader position differs", "case": ctxv, "max_read": c})); }
            if !content {
                let at = match &g { Got::Ok(f, _) => f.payload.iter().zip(exp.payload.iter()).position(|(a, b)| a != b), _ => None };
                self.big.bad(json!({"what": "decode of a large frame under bounded reads", "case": ctxv, "max_read": c, "first_differing_payload_octet": at,
                    "expected": short(&exp), "got": got_json(&g)}));
                break;
            }
        }
        for k in [hdr.len(), hdr.len() + 1, 4096.min(wire.len() - 1), wire.len() - 4, wire.len() - 1] {
            let g = decode_chunked(&wire[..k], &[], 4093);
            self.big.evals += 1;
            if g != Got::Err("ReadError".into()) {
                self.big.bad(json!({"what": "truncated large frame must give a read error", "case": ctxv, "kept_bytes": k, "got": got_json(&g)}));
            }
        }
        if self.big.samples.len() < 2 && mask && len > 1 << 20 { self.big.samples.push(json!({"frame": ctxv, "header": hex(&hdr), "max_read_sizes": [0, 3, 7, 4093, 4096, 4099, 65535, 65537]})); }
    }

    /// lessons L1: 64-bit length fields at 2^31-1 .. 2^64-1 (with and without MASK): whatever follows, a read error - no panic, no overflow
    fn huge_line(&mut self, v: &Value) {
        let h = u8s(&v["h"]);
        let spec = v["exp"].as_str().unwrap();
        for tail in [0usize, 1, 4, 13, 4096, 1 << 20] {
            let mut w = h.clone();
            w.extend(self.rng.bytes(tail));
            for c in [0usize, 3] {
                let g = decode_chunked(&w, &[h.len() - 1], c);
                self.huge.evals += 1;
                if !(spec == "ReadError" && g == Got::Err("ReadError".into())) {
                    self.huge.bad(json!({"what": "length field beyond any input", "header": hex(&h), "bytes_after_header": tail, "max_read": c, "spec": spec, "got": got_json(&g)}));
                }
            }
        }
        self.huge.nontrivial += 1;
        if self.huge.samples.len() < 2 && h[1] >= 128 && h[2] == 255 { self.huge.samples.push(json!({"header": hex(&h), "any_continuation": "ReadError"})); }
    }

    fn hdr2_line(&mut self, v: &Value) {
        let b0 = v["b0"].as_u64().unwrap() as u8;
        let (fin, rsv, op) = (bit(&v["fin"]), rsv_of(&v["rsv"]), v["op"].as_u64().unwrap() as u8);
        for (b1, e) in v["b1s"].as_array().unwrap().iter().enumerate() {
            let b1 = b1 as u8;
            let need = e["need"].as_u64().unwrap() as usize;
            let (mask, len7) = (bit(&e["mask"]), e["len7"].as_u64().unwrap() as usize);
            let two = e["two"].as_str().unwrap();
            let ctxv = json!({"header": [b0, b1], "need": need});
            // (a) the bare header
            let g = decode_with(&[b0, b1], &[1]);
            self.hdrs.evals += 1;
            let ok = match (two, &g) {
                ("ok", Got::Ok(f, _)) => norm(f.clone()) == RawFrame { fin, rsv, opcode: op, mask, length: 0, masking_key: [0; 4], payload: vec![] },
                ("ReadError", Got::Err(s)) => s == "ReadError",
                // "reserved opcodes are rejected": the statement does not name the error
                ("InvalidOpcode", Got::Err(_)) | ("EitherError", Got::Err(_)) => true,
                _ => false,
            };
            if !ok { self.hdrs.bad(json!({"what": "bare two-byte header", "case": ctxv, "spec": two, "got": got_json(&g)})); }
            // (b) the header with a complete remainder, (c) with truncated remainders
            let val = [0usize, 3, 200, 70000][(b0 as usize + b1 as usize) % if len7 == 127 { 4 } else { 3 }];
            let (ext, plen): (Vec<u8>, usize) = match len7 { 126 => ((val as u16).to_be_bytes().to_vec(), val), 127 => ((val as u64).to_be_bytes().to_vec(), val), n => (vec![], n) };
            let key: [u8; 4] = if mask { [self.rng.byte(), self.rng.byte(), self.rng.byte(), self.rng.byte()] } else { [0; 4] };
            let p = self.rng.bytes(plen);
            let mut wire = vec![b0, b1];
            wire.extend_from_slice(&ext);
            if mask { wire.extend_from_slice(&key); }
            let hdr_len = wire.len();
            wire.extend_from_slice(&p);
            if need == 99 {
                // reserved opcode: rejected whatever follows
                for k in [wire.len(), wire.len().saturating_sub(1).max(2), 2] {
                    let g = decode_with(&wire[..k], &[1, 3]);
                    self.hdrs.evals += 1;
                    let ok = matches!(&g, Got::Err(_));
                    if ok && k == wire.len() && g != Got::Err("InvalidOpcode".into()) {
                        self.hdrs.odd(json!({"what": "reserved opcode rejected with another error than InvalidOpcode", "case": ctxv, "got": got_json(&g)}));
                    }
                    if !ok { self.hdrs.bad(json!({"what": "reserved opcode must be rejected", "case": ctxv, "kept_bytes": k, "got": got_json(&g)})); }
                }
                continue;
            }
            if hdr_len != 2 + need {
                self.hdrs.bad(json!({"what": "harness built a header of other length than Need says", "case": ctxv, "hdr_len": hdr_len}));
                continue;
            }
            self.hdrs.nontrivial += 1;
            let exp = RawFrame { fin, rsv, opcode: op, mask, length: plen as u64, masking_key: key, payload: if mask { self.unmask(&p, &key) } else { p.clone() } };
            let nonmin = plen < e["minlen"].as_u64().unwrap() as usize;
            self.check_decode(1, &wire, hdr_len, &exp, &ctxv, nonmin);
        }
    }

    fn wire_line(&mut self, v: &Value) {
        let w = u8s(&v["w"]);
        let e = &v["exp"];
        let r = e["r"].as_str().unwrap();
        let f = &e["f"];
        let used = e["used"].as_u64().unwrap() as usize;
        let expf = RawFrame { fin: bit(&f["fin"]), rsv: rsv_of(&f["rsv"]), opcode: f["op"].as_u64().unwrap() as u8, mask: bit(&f["mask"]),
                              length: f["len"].as_u64().unwrap(), masking_key: key_of(&f["key"]), payload: u8s(&f["payload"]) };
        let nonmin = v["nonmin"].as_bool().unwrap();
        let mut pl: Vec<Vec<usize>> = vec![vec![]];
        for k in 1..w.len() { pl.push(vec![k]); }
        pl.push(all_ones(w.len()));
        if r == "ok" { self.wires.nontrivial += 1; }
        for cuts in &pl {
            let g = decode_with(&w, cuts);
            self.wires.evals += 1;
            let ok = match (r, &g) {
                ("ok", Got::Ok(gf, _)) => norm(gf.clone()) == expf,
                ("ok", Got::Err(_)) => nonmin,      // NonMinimalMayBeRefused
                ("ReadError", Got::Err(s)) => s == "ReadError",
                ("InvalidOpcode", Got::Err(_)) | ("EitherError", Got::Err(_)) => true,
                _ => false,
            };
            if !ok {
                self.wires.bad(json!({"what": "decode of a concrete wire", "wire": w, "cuts": cuts, "spec": e, "got": got_json(&g)}));
                break;
            }
            // stricter than the statement: bytes consumed, and which error rejects a reserved opcode
            let strict = match (r, &g) { ("ok", Got::Ok(_, gu)) => *gu == used, ("ok", Got::Err(_)) => false, ("InvalidOpcode", Got::Err(s)) => s == "InvalidOpcode", _ => true };
            if !strict { self.wires.odd(json!({"what": "outcome allowed by the statement but not the model's", "wire": w, "cuts": cuts, "spec": e, "got": got_json(&g)})); }
        }
        if self.wires.samples.len() < 3 && r == "ok" && expf.mask && expf.length == 2 && w.len() == used + 1 {
            self.wires.samples.push(json!({"wire": hex(&w), "decode": short(&expf), "used": used}));
        }
    }
}

fn replay() {
    let mut r = Replay { xor: vec![vec![]; 256], rng: Rng::from_env(), frames: Part::default(), hdrs: Part::default(), wires: Part::default(), msgs: Part::default(),
                         big: Part::default(), huge: Part::default(), pairs: Part::default(), prev: None };
    let mut lines = 0u64;
    for line in stdin_lines() {
        let v: Value = match serde_json::from_str(&line) { Ok(v) => v, Err(_) => continue };
        lines += 1;
        match v["k"].as_str().unwrap_or("") {
            "xor" => { let a = v["a"].as_u64().unwrap() as usize; r.xor[a] = u8s(&v["row"]); }
            k => {
                assert!(r.xor.iter().all(|row| row.len() == 256), "xor rows must come first");
                match k { "frame" => r.frame_line(&v), "hdr2" => r.hdr2_line(&v), "wire" => r.wire_line(&v),
                          "bigframe" => r.bigframe_line(&v), "huge" => r.huge_line(&v),
                          other => { eprintln!("unknown line kind {:?}", other); std::process::exit(2) } }
            }
        }
    }
    let pj = |p: &Part| json!({"evaluations": p.evals, "nontrivial": p.nontrivial, "mismatches": p.mism, "first": p.first, "samples": p.samples,
        "drift": p.drift, "drift_first": p.drift_first});
    out_line(&json!({"summary": true, "lines": lines, "parts": {"frames": pj(&r.frames), "two_byte_headers": pj(&r.hdrs),
        "concrete_wires": pj(&r.wires), "message_to_frame": pj(&r.msgs), "large_frames_bounded_reads": pj(&r.big),
        "huge_length_fields": pj(&r.huge), "frame_pairs": pj(&r.pairs)}}));
}

// ---- random executions for Trace_WsFrame -------------------------------------------------------
fn bi(b: bool) -> u8 { b as u8 }
fn random(n: usize, max: usize) {
    let mut rng = Rng::from_env();
    let ops = [0u8, 1, 2, 8, 9, 10];
    let edges = [0usize, 1, 124, 125, 126, 127, 128, 65534, 65535, 65536, 65537];
    let zero = json!({"fin": 0, "rsv": [0, 0, 0], "op": 0, "mask": 0, "key": [0, 0, 0, 0], "len": 0});
    for i in 0..n {
        if i % 3 == 2 {
            // arbitrary short byte strings: garbage, or a valid small frame cut / extended
            let glen = rng.below(24);
            let mut w: Vec<u8> = if rng.chance(1, 2) { rng.bytes(glen) } else {
                let plen = rng.below(6);
                let f = RawFrame { fin: rng.chance(1, 2), rsv: [rng.chance(1, 4), false, rng.chance(1, 4)], opcode: *rng.pick(&ops), mask: rng.chance(1, 2),
                                   length: plen as u64, masking_key: [rng.byte(), 0, 255, rng.byte()], payload: rng.bytes(plen) };
                encode_of(&f).unwrap_or_default()
            };
            match rng.below(4) { 0 => { let k = rng.below(w.len() + 1); w.truncate(k); } 1 => w.push(rng.byte()), 2 => { if !w.is_empty() { w[0] = rng.byte(); } } _ => {} }
            if w.len() >= 2 && w[1] & 0x7f == 127 && rng.chance(3, 4) { w[1] = (w[1] & 0x80) | rng.below(126) as u8; }
            let cuts: Vec<usize> = (0..rng.below(4)).map(|_| rng.below(w.len() + 1)).collect::<std::collections::BTreeSet<_>>().into_iter().collect();
            let g = decode_with(&w, &cuts);
            let (dr, df, used) = match &g { Got::Ok(f, u) => ("ok".to_string(), Some(f.clone()), *u), Got::Err(e) => (e.clone(), None, 0), Got::Panic => ("panic".into(), None, 0) };
            let d = match &df { Some(f) => json!({"fin": bi(f.fin), "rsv": [bi(f.rsv[0]), bi(f.rsv[1]), bi(f.rsv[2])], "op": f.opcode, "mask": bi(f.mask), "key": f.masking_key, "len": f.length}), None => zero.clone() };
            out_line(&json!({"k": "bytes", "f": zero, "hdr": [], "plen": 0, "same": true, "small": [], "w": w,
                "dr": dr, "d": d, "dplen": df.as_ref().map(|f| f.payload.len()).unwrap_or(0), "dsmall": df.map(|f| f.payload).unwrap_or_default(), "dused": used, "samples": []}));
            continue;
        }
        let len = match rng.below(4) { 0 => *rng.pick(&edges), 1 => rng.below(17), 2 => rng.below(max + 1), _ => rng.below(70000) }.min(max);
        let f = RawFrame { fin: rng.chance(1, 2), rsv: [rng.chance(1, 2), rng.chance(1, 2), rng.chance(1, 2)], opcode: *rng.pick(&ops), mask: rng.chance(2, 3),
                           length: len as u64, masking_key: [rng.byte(), rng.byte(), rng.byte(), rng.byte()], payload: rng.bytes(len) };
        let enc = encode_of(&f).unwrap_or_default();
        let hl = enc.len().saturating_sub(len);
        let same = enc.len() >= len && enc[hl..] == f.payload[..];
        let mut cuts: Vec<usize> = (0..rng.below(5)).map(|_| rng.below(enc.len() + 1)).collect();
        cuts.sort();
        let chunk = *rng.pick(&[0usize, 0, 3, 5, 7, 1021, 4093, 4096, 4099]);
        let g = decode_chunked(&enc, &cuts, chunk);
        let (dr, df, used) = match &g { Got::Ok(f, u) => ("ok".to_string(), Some(f.clone()), *u), Got::Err(e) => (e.clone(), None, 0), Got::Panic => ("panic".into(), None, 0) };
        let samples: Vec<[usize; 3]> = match &df { Some(d) if d.payload.len() == len && len > 0 => {
            // first / last octets, 4 KiB and 64 KiB block boundaries, the octets around every cut, and random ones
            let mut idx: Vec<usize> = vec![0, 1, 2, 3, 4, len - 1, len.saturating_sub(2), 4095, 4096, 4097, 8191, 8192, 65535, 65536, 65537, 1 << 20, (1 << 20) + 1];
            for c in &cuts { for d in 0..4 { idx.push((c + d).saturating_sub(hl + 2)); } }
            for _ in 0..12 { idx.push(rng.below(len)); }
            idx.retain(|i| *i < len);
            idx.sort();
            idx.dedup();
            idx.into_iter().filter(|i| hl + *i < enc.len()).map(|i| [i, enc[hl + i] as usize, d.payload[i] as usize]).collect() }
            _ => vec![] };
        let d = match &df { Some(f) => json!({"fin": bi(f.fin), "rsv": [bi(f.rsv[0]), bi(f.rsv[1]), bi(f.rsv[2])], "op": f.opcode, "mask": bi(f.mask), "key": f.masking_key, "len": f.length}), None => zero.clone() };
        out_line(&json!({"k": "frame",
            "f": {"fin": bi(f.fin), "rsv": [bi(f.rsv[0]), bi(f.rsv[1]), bi(f.rsv[2])], "op": f.opcode, "mask": bi(f.mask), "key": f.masking_key, "len": len},
            "hdr": enc[..hl.min(enc.len())], "plen": enc.len() - hl.min(enc.len()), "same": same, "small": if len <= 16 { enc[hl.min(enc.len())..].to_vec() } else { vec![] }, "w": [],
            "dr": dr, "d": d, "dplen": df.as_ref().map(|f| f.payload.len()).unwrap_or(0),
            "dsmall": if len <= 16 { df.map(|f| f.payload).unwrap_or_default() } else { vec![] }, "dused": used, "samples": samples}));
    }
}

fn main() {
    quiet_panics();
    let a: Vec<String> = std::env::args().collect();
    match a.get(1).map(|s| s.as_str()) {
        Some("replay") => replay(),
        Some("random") => random(a[2].parse().unwrap(), a[3].parse().unwrap()),
        _ => { eprintln!("usage: wsframe replay | random <n> <maxlen>"); std::process::exit(2) }
    }
}
